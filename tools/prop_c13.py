"""C13 — the macro front end is total."""
import json
import os
import re

import parsestage
import vlib

SLOW_MS = 20000          # nesting up to the depths generated here must finish well inside this

CORPUS = ["C13_pre_fix_index_panic.json"]


def ident_literal_tokens(tt):
    """source positions of the identifier and literal tokens of the invocation (from the token trees)"""
    out = []
    for m in re.finditer(r"\((I|L) (x[0-9a-f]*) (\d+\.\d+\.\d+\.\d+)", tt):
        out.append((m.group(3), vlib.unhx(m.group(2)).decode("utf-8", "replace")))
    return out


STRUCTURAL = {"_", "await", "move"}


def dropped_tokens(r):
    """For an accepted invocation: identifier / literal tokens of the input that appear nowhere in the
    parsed value and pattern (every one of them must be part of an expression, path, field name or
    literal of the tree)."""
    have = r.real_value + " " + r.real_tree
    missing = []
    for pos, text in ident_literal_tokens(r.tt or ""):
        if text in STRUCTURAL:
            continue
        if ("@" + pos) not in have and (" " + pos) not in have:
            missing.append("%s at %s" % (text, pos))
    return missing


def run(res):
    res.trusted += ["Coq 8.16.1 kernel (coqc)", "extraction to OCaml (ExtrOcamlBasic only), ocaml/conv.ml, irconv.ml, parseconv.ml, main.ml",
                    "harness/mac: the macro crate's own sources compiled as a binary with a shim root, run under catch_unwind on "
                    "proc-macro2's fallback implementation; src/oracle.rs computes what syn's Expr / Path / ExprClosure parsers do on "
                    "every suffix of every group (the model's three oracles)",
                    "syn (expression, path and closure grammar, literal classification, the unexpected-token mechanism as modelled)",
                    "tools/patgen.py, tools/corrupt.py, tools/parsestage.py (generators and comparison)"]
    res.assumptions += ["token streams are those a Rust lexer produces (no None-delimited groups: tokens substituted by an outer macro_rules! "
                        "are outside the model)",
                        "syn's own parsers terminate and do not panic (they are the oracles of the model; the direct run observes them on every case)",
                        "a successful oracle parse takes at least one token and at most those present (checked on every table entry of every run)"]
    vlib.build_coq()
    ths, rep = vlib.check_props("C13")
    res.obligations += ths
    res.discharged += ths
    res.coverage["print_assumptions"] = rep
    facts_err = vlib.check_fact_props(res, "C13f", "panic-capable constructs of the macro crate")

    # regression corpus first
    for name in CORPUS:
        p = os.path.join(vlib.VERIF, "corpus", name)
        if os.path.exists(p):
            replay_file(res, p, corpus=True)

    name_fe = "direct:no proc-macro panic under the real compiler (front-end corpus, one file, no harness)"
    res.obligations.append(name_fe)
    fe_bad = rustc_front_end(res)
    if not fe_bad:
        res.discharged.append(name_fe)
    # `never accepts input it did not fully consume`, under the real compiler: malformed patterns written so that the assertion is
    # well typed and true if the offending tokens are ignored (shared with C15) must not compile
    import prop_c15
    name_m = "direct:input with tokens the grammar has no place for is rejected under the real compiler (typed programs)"
    res.obligations.append(name_m)
    acc, n_typed = prop_c15.rustc_accepted_malformed("c13m")
    for pgm in acc[:2]:
        fe_bad += 1
        res.violation("failing-input", "under rustc the macro accepts input it did not fully consume: `assert_struct!(%s, %s)` compiles" % (pgm[1], pgm[2]),
                      {"program": prop_c15.slice_program(*pgm), "rustc_program": True})
    res.streams["unconsumed-input(rustc)"] = {"programs": n_typed, "compiled": len(acc)}
    if not acc:
        res.discharged.append(name_m)
    try:
        recs = parsestage.run_stage(res, res.tier, res.seed)
    except vlib.CheckError as e:
        # harness/mac no longer builds against /repo (the pattern types changed shape): the correspondence cannot be run; what the
        # real compiler showed above stands
        if not fe_bad:
            res.violation("no-failing-input-found", "correspondence front-end could not be run: " + str(e)[-900:], {"stream": "front-end"})
        return
    name = "correspondence:front-end(outcome, error position, parsed tree)"
    res.obligations.append(name)
    dis = []
    failing = 0
    n_consumed = 0
    slow = []
    for r in recs:
        why = parsestage.agree(r, with_expansion=False)     # the generated code is C14's and C15's business
        if why:
            dis.append((r, why))
        # the property itself, on what the implementation did
        if r.real_status == "panic":
            failing += 1
            if failing <= 3:
                res.violation("failing-input", "the macro panics (proc macro panicked): " + (r.msg or ""),
                              {"invocation": "assert_struct!(%s)" % r.text, "origin": r.origin, "panic_message": r.msg})
        if r.ms > SLOW_MS:
            slow.append(r)
        # `never accepts input it did not fully consume`: every identifier / literal token of an accepted invocation is part of
        # the parsed value or pattern
        if r.real_status == "ok" and r.tt:
            n_consumed += 1
            import prop_c15
            miss = prop_c15.dropped_tokens(r)       # the accounting shared with C15 (tuple indices, regex literals)
            if miss:
                failing += 1
                if failing <= 3:
                    res.violation("failing-input", "the macro accepts input it did not fully consume: token(s) %s are in no part of the parsed invocation"
                                  % ", ".join(miss[:5]), {"invocation": "assert_struct!(%s)" % r.text, "origin": r.origin, "dropped": miss[:20]})
    for r in slow[:2]:
        failing += 1
        res.violation("failing-input", "expansion took %d ms (budget %d ms): does not terminate in practical time" % (r.ms, SLOW_MS),
                      {"invocation": "assert_struct!(%s)" % r.text, "origin": r.origin})
    st = parsestage.stats(recs)
    res.streams["front-end"] = {
        "cases": len(recs), "by_origin": st,
        "accepted": sum(1 for r in recs if r.real_status == "ok"),
        "rejected": sum(1 for r in recs if r.real_status == "err"),
        "panicked": sum(1 for r in recs if r.real_status == "panic"),
        "lexer_rejected(not reaching the macro)": sum(1 for r in recs if r.real_status == "lex"),
        "disagreements": len(dis),
        "max_ms": max([r.ms for r in recs] or [0]),
        "error_positions_compared": sum(1 for r in recs if r.real_status == "err"),
        "trees_compared": sum(1 for r in recs if r.real_status == "ok"),
        "accepted_checked_for_unconsumed_tokens": n_consumed,
        "samples": [{"invocation": r.text, "outcome": r.real_status, "at": r.real_pos} for r in recs[::max(1, len(recs) // 5)][:5]],
    }
    if dis:
        if not failing:
            r, why = dis[0]
            res.violation("no-failing-input-found",
                          "correspondence front-end no longer checks: the real parser and the model differ on %d of %d token streams "
                          "(theorems of Props/C13.v are about the model)" % (len(dis), len(recs)),
                          {"stream": "front-end", "first_disagreement": {"invocation": r.text, "difference": why,
                                                                         "implementation": (r.real_status, r.real_pos, r.msg),
                                                                         "model": (r.model_status, r.model_pos)}})
    else:
        res.discharged.append(name)
    vlib.report_fact_failure(res, "C13f", facts_err, "panic-capable constructs of the macro crate")
    res.coverage.update({
        "evaluations": len(recs),
        "distinct_nontrivial": sum(1 for r in recs if r.origin not in ("valid", "special") and r.real_status in ("ok", "err")),
        "rule": "token streams: the valid pattern corpus (every kind in every parent, every field operation, random compositions to depth 6, six layouts), "
                "every truncation of a sample of them at every token position, single-token edits (delete, duplicate, swap, insert or replace by a foreign "
                "token, unwrap a group), C15's malformations bare and embedded at random positions of random patterns, grammar-random token sequences with "
                "nested groups, tuple indices around u32::MAX and usize::MAX, user expressions of 40-150 bytes with 3-byte characters at every alignment in "
                "every position holding user text, and nesting of every composite kind to depth %d; distinct streams only; non-trivial = streams that are not "
                "from the valid corpus (the ones the suite cannot contain) and reached the macro" % (11 if res.tier == "quick" else 15),
        "samples": [{"invocation": r.text, "origin": r.origin, "outcome": r.real_status, "error_at": r.real_pos, "ms": r.ms}
                    for r in recs[::max(1, len(recs) // 6)][:6]],
    })
    name3 = "direct:error location under rustc == in-process == model"
    res.obligations.append(name3)
    if rustc_error_positions(res) == 0:
        res.discharged.append(name3)
    else:
        failing += 1
    res.obligations.append("direct:no-panic,terminates(%d streams)" % len(recs))
    if not failing:
        res.discharged.append("direct:no-panic,terminates(%d streams)" % len(recs))


# ---- under the real compiler: where a rejected invocation's error is reported -----------------------

RUSTC_REJECTED = [
    "v, S { a: }", "v, S { a 1 }", "v, S { .., a: 1 }", "v, #(1, .., 2)", "v, #{ .., \"k\": 1 }", "v, (1: 5)", "v, Some(0: 1, 2: 3)",
    "v, || true", "v, |a, b| a > b", "v, = 5", "v, => 5", "v, >", "v, Some(==)", "v, 1 2", "v, Some(1) 2", "v, _ { a: 1 }",
    "v, S { a.: 1 }", "v, S { a.fn: 1 }", "v, S { a[]: 1 }", "v, S { a.1.5e3: 1 }", "v, S { -1: 1 }", "v, S { a.4294967296: 1, .. }",
    "v, [1 2]", "v, #(1 2)", "v, (1 2)", "v, S { a: [1, =] }", "v, Some(_ { value: 42 })", "v, E::T(0.len(: 1)", "v, (*x: 1)",
    "v", "v,", ", 1", "v, S { a: 1, b }", "v, S { a: 1,, b: 2 }", "v, #{ \"k\" 1 }", "v, #(.., ..)", "v, S { a: 1, .., }",
    "v, S {\n    a: 1,\n    b 2,\n}", "v,\n    Some(\n        > )", "v, [\n  1,\n  2 3\n]",
]


def rustc_error_positions(res):
    """Each rejected invocation compiled by the real rustc: the error's primary location must be where the in-process run
    (and the model) put it: the offending token, the closing delimiter of the group that ended too early, or the call."""
    import e2e
    import maclib
    texts = RUSTC_REJECTED
    recs = parsestage.run_texts(texts)
    progs, meta = [], []
    for t, r in zip(texts, recs):
        if r.real_status != "err":
            continue
        head = "#![allow(unused)]\nuse assert_struct::assert_struct;\nfn main() {\n    let v = 1;\n"
        prefix = "    assert_struct!("
        progs.append(head + prefix + t + ");\n}\n")
        meta.append((t, r, head.count("\n") + 1, len(prefix)))
    out = e2e.compile_many(progs, run=False, json_diag=True, tag="c13loc")
    e2e.cleanup("c13loc")
    bad = 0
    n_tok = n_call = 0
    for (t, r, line0, off), o in zip(meta, out):
        import prop_c20
        spans = prop_c20.primary_spans(o["stderr"])
        if o["compiled"] or not spans:
            bad += 1
            res.violation("failing-input", "an invocation the macro rejects in-process compiles (or fails without a located error) under rustc",
                          {"invocation": "assert_struct!(%s)" % t})
            continue
        sp = spans[0]
        if r.real_pos == "cs":
            n_call += 1
            want = (line0, off - len("assert_struct!(") + 1)          # the macro call
            ok = sp["line_start"] == want[0] and sp["col_start"] == want[1]
        else:
            n_tok += 1
            l, c = (int(x) for x in r.real_pos.split("."))
            want = (line0 + l - 1, c + 1 + (off if l == 1 else 0))
            ok = sp["line_start"] == want[0] and sp["col_start"] == want[1]
        if not ok:
            bad += 1
            if bad <= 3:
                res.violation("failing-input", "under rustc the compile error of a rejected invocation is reported at line %d column %d; the macro attached it to "
                              "line %d column %d (%s)" % (sp["line_start"], sp["col_start"], want[0], want[1],
                                                          "the call" if r.real_pos == "cs" else "token at %s of the invocation" % r.real_pos),
                              {"invocation": "assert_struct!(%s)" % t, "rustc": sp, "in_process_position": r.real_pos, "message": r.msg})
    res.streams["error-location(rustc)"] = {"programs": len(progs), "errors_on_a_token": n_tok, "errors_on_the_call": n_call, "mismatches": bad}
    return bad


def balanced(text):
    """the text is a sequence of complete token trees (so that it can stand inside a macro call without breaking the FILE's syntax)"""
    import corrupt
    try:
        corrupt.lex(text)
    except Exception:
        return False
    stack, i, n = [], 0, len(text)
    closers = {")": "(", "]": "[", "}": "{"}
    while i < n:
        ch = text[i]
        if ch == '"':
            i += 1
            while i < n and text[i] != '"':
                i += 2 if text[i] == "\\" else 1
        elif ch == "r" and text[i + 1:i + 2] in ('"', "#") and (i == 0 or not (text[i - 1].isalnum() or text[i - 1] == "_")):
            j, h = i + 1, 0
            while j < n and text[j] == "#":
                h, j = h + 1, j + 1
            if j < n and text[j] == '"':
                end = text.find('"' + "#" * h, j + 1)
                if end < 0:
                    return False
                i = end + h
        elif ch == "'" and i + 2 < n and (text[i + 2] == "'" or text[i + 1] == "\\"):
            j = text.find("'", i + 2)
            if j < 0:
                return False
            i = j
        elif ch in "([{":
            stack.append(ch)
        elif ch in ")]}":
            if not stack or stack.pop() != closers[ch]:
                return False
        i += 1
    return not stack


def rustc_front_end(res):
    """The front end under the REAL compiler, without the in-process harness: several hundred invocations (the special and extreme
    corpora, C15's malformations, single-token edits of generated patterns) in one file, each in a function of its own.  rustc
    expands every macro call whatever the others did; no diagnostic may be `proc macro panicked`, and the compiler must finish.
    This stream still runs when the pattern types of the macro crate change shape and harness/mac no longer builds."""
    import random
    import e2e
    import corrupt
    import patgen
    rng = random.Random(res.seed * 911 + 13)
    texts = list(parsestage.SPECIAL_VALID) + list(parsestage.BIG_INDEX) + list(parsestage.REGEX_LITERALS) + list(RUSTC_REJECTED)
    for frags in parsestage.MALFORMED.values():
        texts += ["v, " + f for f in frags] + ["v, Some(%s)" % f for f in frags[:2]] + ["v, (1, %s)" % f for f in frags[:1]]
    valid = patgen.corpus(random.Random(rng.random()), "quick")
    for text, node, lay in rng.sample(valid, min(len(valid), 120 if res.tier == "quick" else 1200)):
        texts.append(text)
        for kind, new in corrupt.corruptions(text, rng, 3):
            texts.append(new)
    seen, use = set(), []
    for t in texts:
        if t not in seen and balanced(t) and len(t) < 200000:
            seen.add(t)
            use.append(t)
    lines = ["#![allow(unused)]", "use assert_struct::assert_struct;"]
    ranges = []
    for i, t in enumerate(use):
        lines.append("fn f%d() { let v = 1; assert_struct!(" % i)
        start = len(lines) + 1
        body = t.split("\n")
        lines += body
        ranges.append((start, start + len(body) - 1))
        lines.append("); }")
    lines.append("fn main() {}")
    o = e2e.compile_many(["\n".join(lines) + "\n"], run=False, json_diag=True, tag="c13fe")[0]
    e2e.cleanup("c13fe")
    panics = []
    n_diag = 0
    for l in o["stderr"].splitlines():
        if not l.startswith("{"):
            continue
        try:
            d = json.loads(l)
        except ValueError:
            continue
        n_diag += 1
        msg = d.get("message", "") + " " + " ".join(c.get("message", "") for c in d.get("children", []))
        if "proc macro panicked" in msg or "proc-macro derive panicked" in msg:
            ln = min([s["line_start"] for s in d.get("spans", [])] or [0])
            idx = next((i for i, (a, b) in enumerate(ranges) if a - 1 <= ln <= b + 1), None)
            panics.append((use[idx] if idx is not None else "?", msg[:300]))
    bad = 0
    if o.get("timeout") or (n_diag == 0 and not o["compiled"]):
        bad += 1
        res.violation("failing-input" if o.get("timeout") else "no-failing-input-found",
                      "rustc did not finish (or printed no diagnostics) on the file of %d macro invocations: %s" % (len(use), o["stderr"][-400:]),
                      {"stream": "front-end(rustc)"})
    for t, msg in panics[:3]:
        bad += 1
        res.violation("failing-input", "under rustc the macro panics (proc macro panicked): " + msg, {"invocation": "assert_struct!(%s)" % t[:3000], "rustc_only": True})
    res.streams["front-end(rustc, no harness)"] = {"invocations": len(use), "diagnostics": n_diag, "proc_macro_panics": len(panics)}
    return bad


def replay_file(res, path, corpus=False):
    v = json.load(open(path))
    if v.get("rustc_program"):
        import e2e
        o = e2e.compile_many([v["program"]], run=False, tag="c13r")[0]
        e2e.cleanup("c13r")
        print("under rustc the program", "compiles (violation)" if o["compiled"] else "is rejected: property holds on this input")
        return 1 if o["compiled"] else 0
    inv = v.get("invocation") or v.get("first_disagreement", {}).get("invocation")
    if inv is None:
        print("replay file has no invocation; it names a broken obligation:", v.get("what"))
        return 1
    text = inv[len("assert_struct!("):-1] if inv.startswith("assert_struct!(") else inv
    if v.get("rustc_only"):
        import e2e
        o = e2e.compile_many(["#![allow(unused)]\nuse assert_struct::assert_struct;\nfn main() { let v = 1; assert_struct!(\n%s\n); }\n" % text],
                             run=False, json_diag=True, tag="c13r")[0]
        e2e.cleanup("c13r")
        bad = "proc macro panicked" in o["stderr"]
        print("under rustc:", "proc macro panicked (violation)" if bad else "no panic: property holds on this input")
        return 1 if bad else 0
    import maclib
    vlib.build_model_runner()
    ok, out = maclib.build_mac()
    if not ok:
        raise vlib.CheckError("harness mac does not build: " + out[-800:])
    r = parsestage.run_texts([text])[0]
    bad = None
    if r.real_status == "panic":
        bad = "the macro panics: " + (r.msg or "")
    elif r.ms > SLOW_MS:
        bad = "expansion took %d ms" % r.ms
    elif r.real_status == "ok" and r.tt and __import__("prop_c15").dropped_tokens(r):
        bad = "accepted without being fully consumed: " + ", ".join(__import__("prop_c15").dropped_tokens(r)[:5])
    elif parsestage.agree(r):
        bad = None if corpus else "implementation and model disagree: " + parsestage.agree(r)
    if bad:
        res.violation("failing-input", bad, {"invocation": "assert_struct!(%s)" % text, "from": os.path.basename(path)})
    if not corpus:
        print("replayed:", text, "->", r.real_status, r.real_pos or "", bad or "property holds on this input")
    return 1 if bad else 0


def replay(res, path):
    return replay_file(res, path)
