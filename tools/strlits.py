r"""strlits.py — string-literal patterns whose VALUE needs an escape or a raw string to be written: quotes at either end
(`"\"Alice\""`, a JSON-encoded string), backslashes, control characters, `\u{..}` escapes, non-ASCII text, braces, `#`.
The value of a Rust string literal is fixed by the language, so the oracle needs no model: the pattern written for the text w
must accept the string w (C02: a matching value never fails) and reject a string that differs from w (C01) — in every position
a string-literal pattern may stand, and whichever way the literal is spelled (escaped, raw, raw with hashes, `\x..`/`\u{..}`)."""
import e2e

# the texts (as Python strings)
TEXTS = ['"Alice"', 'she said "hi"', '"', '""', '"lead', 'trail"', "it's", 'C:\\dir\\', '\\', 'a\nb', 'tab\there', '\r\n', 'é日本😀', 'a  b', '  lead', 'trail  ',
         '{0} {1}', '{}', '{{', 'r#"x"#', '#', '\'"\'', 'a\\"b', '\\"', '\u00a0nbsp', 'nul\0x', 'x' * 300, '"' + 'é' * 200 + '"']

POSITIONS = [
    ("root", "String", "{V}", "{P}"), ("field", "SL", "SL {{ s: {V}, n: 1 }}", "SL {{ s: {P}, .. }}"), ("wfield", "SL", "SL {{ s: {V}, n: 1 }}", "_ {{ s: {P}, .. }}"),
    ("some", "Option<String>", "Some({V})", "Some({P})"), ("ok", "Result<String, i32>", "Ok({V})", "Ok({P})"), ("tuple", "(String, i32)", "({V}, 1)", "({P}, 1)"),
    ("slice", "Vec<String>", "vec![{V}, {V}]", "[{P}, ..]"), ("set", "Vec<String>", "vec![{V}]", "#({P})"),
    ("map_value", "BTreeMap<String, String>", "BTreeMap::from([(\"k\".to_string(), {V})])", "#{{ \"k\": {P} }}"),
    ("method", "SL", "SL {{ s: {V}, n: 1 }}", "SL {{ s.clone(): {P}, .. }}"), ("as_str", "SL", "SL {{ s: {V}, n: 1 }}", "SL {{ s.as_str(): {P}, .. }}"),
    ("str_ref_root", "&str", "{V}.leak()", "{P}"),
]
DECLS = "#[derive(Debug, Clone)] struct SL { s: String, n: i32 }\n"


def escaped(w):
    out = []
    for ch in w:
        if ch == '"':
            out.append('\\"')
        elif ch == "\\":
            out.append("\\\\")
        elif ch == "\n":
            out.append("\\n")
        elif ch == "\r":
            out.append("\\r")
        elif ch == "\t":
            out.append("\\t")
        elif ch == "\0":
            out.append("\\0")
        else:
            out.append(ch)
    return '"' + "".join(out) + '"'


def unicode_escaped(w):
    return '"' + "".join("\\u{%x}" % ord(ch) for ch in w) + '"'


def hex_escaped(w):
    if any(ord(ch) > 0x7f for ch in w):
        return None
    return '"' + "".join("\\x%02x" % ord(ch) for ch in w) + '"'


def raw(w):
    if "\r" in w:
        return None              # a bare CR is not allowed in a raw string
    h = 0
    while '"' + "#" * h in w:
        h += 1
    if '"' in w and h == 0:
        h = 1
    return "r" + "#" * h + '"' + w + '"' + "#" * h


def spellings(w):
    out = [("escaped", escaped(w))]
    if len(w) <= 40:
        out.append(("unicode-escapes", unicode_escaped(w)))
        if hex_escaped(w):
            out.append(("hex-escapes", hex_escaped(w)))
    r = raw(w)
    if r:
        out.append(("raw", r))
    return out


def differing(w):
    """a string that differs from w but is close to it: an end character dropped (what a trimming bug accepts) or added"""
    if len(w) >= 2 and w[0] == w[-1]:
        return w[1:-1]
    if w:
        return w[:-1]
    return "x"


def run(res, name_suffix=""):
    name = "direct:a string-literal pattern accepts exactly the string its literal denotes (escapes, raw strings; every position)"
    res.obligations.append(name)
    cells = []
    for wi, w in enumerate(TEXTS):
        for si, (sname, lit) in enumerate(spellings(w)):
            for pi, (pname, ty, vt, pt) in enumerate(POSITIONS):
                if res.tier == "quick" and (wi + si + pi) % 3 != 0 and not (pname in ("root", "field") and sname in ("escaped", "raw")):
                    continue
                cells.append((w, sname, lit, pname, ty, vt, pt))
    per = 60
    progs = []
    for b in range(0, len(cells), per):
        body = []
        for i, (w, sname, lit, pname, ty, vt, pt) in enumerate(cells[b:b + per]):
            for tag, val in (("m", w), ("d", differing(w))):
                body.append("    run_case(\"%d%s\", || { let v: %s = %s; assert_struct!(v, %s); });"
                            % (b + i, tag, ty, vt.format(V=escaped(val) + ".to_string()"), pt.format(P=lit)))
        progs.append(e2e.PRELUDE + DECLS + "fn main() {\n    std::panic::set_hook(Box::new(|_| {}));\n" + "\n".join(body) + "\n}\n")
    out = e2e.compile_many(progs, run=True, tag="strlit")
    e2e.cleanup("strlit")
    bad = 0
    seen = 0
    for k, o in enumerate(out):
        if not o["compiled"]:
            bad += 1
            first = next((l for l in o["stderr"].splitlines() if l.startswith("error")), "?")
            # find the cell: compile the cells of this program one by one
            res.violation("failing-input", "a program of string-literal patterns (cells %d..%d) is rejected by rustc: %s" % (k * per, k * per + per - 1, first[:200]),
                          {"strlit_program": progs[k], "stderr": o["stderr"][-1500:]})
            continue
        results = e2e.parse_case_lines(o.get("stdout", ""))
        for i, cell in enumerate(cells[k * per:(k + 1) * per]):
            w, sname, lit, pname, ty, vt, pt = cell
            for tag, want in (("m", "pass"), ("d", "fail")):
                r = results.get("%d%s" % (k * per + i, tag))
                seen += 1
                got = r["verdict"] if r else "missing"
                if got != want:
                    bad += 1
                    if bad <= 3:
                        val = w if tag == "m" else differing(w)
                        res.violation("failing-input", "the pattern %s (%s spelling, position `%s`) denotes the string %r; on the value %r the assertion %s"
                                      % (lit if len(lit) < 80 else lit[:77] + "...", sname, pname, w if len(w) < 60 else w[:57] + "...",
                                         val if len(val) < 60 else val[:57] + "...", {"pass": "passes", "fail": "fails", "missing": "did not run"}[got]),
                                      {"strlit_program": e2e.PRELUDE + DECLS + "fn main() { let v: %s = %s; assert_struct!(v, %s); }\n"
                                       % (ty, vt.format(V=escaped(val) + ".to_string()"), pt.format(P=lit)), "intended": want})
    res.streams["escaped-string-literals"] = {"texts": len(TEXTS), "cells": len(cells), "assertions": seen, "failing": bad,
                                              "spellings": sorted({c[1] for c in cells}), "positions": len(POSITIONS)}
    if not bad:
        res.discharged.append(name)
    return bad


def replay(v):
    out = e2e.compile_many([v["strlit_program"]], run=True, tag="strlitr")
    e2e.cleanup("strlitr")
    o = out[0]
    if not o["compiled"]:
        print("rejected by rustc:", o["stderr"][-600:])
        return 1
    verdict = "pass" if o.get("exit") == 0 else "fail"
    print("intended:", v.get("intended"), "| observed:", verdict)
    return 0 if verdict == v.get("intended", "pass") else 1
