"""e2e.py — compile generated Rust programs with the real macro under the real rustc
and run them.  One `cargo build -v` of harness/e2e yields the --extern / -L arguments;
programs are then compiled by calling rustc directly, in parallel."""
import concurrent.futures
import json
import os
import re
import shutil
import subprocess

import vlib

E2E = os.path.join(vlib.VERIF, "harness", "e2e")
_ARGS = {}


def support_args(regex=True):
    """Build assert-struct (+macros) from /repo with the hooks on; return rustc arguments."""
    key = regex
    if key in _ARGS:
        return _ARGS[key]
    env = dict(vlib.ENV)
    with vlib.BuildLock():
        main = os.path.join(E2E, "src", "main.rs")
        os.makedirs(os.path.dirname(main), exist_ok=True)
        open(main, "w").write("fn main() {}\n// %s\n" % os.urandom(4).hex())
        cmd = ["cargo", "build", "--offline", "-v"]
        if not regex:
            cmd += ["--no-default-features"]
        p = vlib.sh(cmd, cwd=E2E, timeout=3000, check=False, env=env)
    if p.returncode != 0:
        raise vlib.CheckError("assert-struct does not build for the e2e harness: " + p.stdout[-2000:])
    m = [l for l in p.stdout.splitlines() if "--crate-name e2e" in l]
    if not m:
        raise vlib.CheckError("could not find the rustc command line in cargo's output")
    line = m[-1]
    ext = re.search(r"--extern (assert_struct=\S+)", line).group(1)
    dep = re.search(r"-L (dependency=\S+)", line).group(1)
    rustc = re.search(r"Running `(\S+)", line).group(1)
    _ARGS[key] = (rustc, ["--edition=2024", "-L", dep, "--extern", ext, "-C", "debuginfo=0", "-A", "warnings"])
    return _ARGS[key]


def _one(job):
    idx, src, outdir, run, regex, json_diag, manifest_dir, extra_env = job
    rustc, args = support_args(regex)
    path = os.path.join(outdir, "p%d.rs" % idx)
    exe = os.path.join(outdir, "p%d" % idx)
    open(path, "w").write(src)
    env = dict(vlib.ENV)
    env["CARGO_MANIFEST_DIR"] = manifest_dir or outdir
    cmd = [rustc] + args + ["--crate-name", "p%d" % idx, "--crate-type", "bin", "-o", exe, path]
    if json_diag:
        cmd += ["--error-format=json"]
    if not run:
        cmd += ["--emit=metadata"]
    try:
        p = subprocess.run(cmd, env=env, stdout=subprocess.PIPE, stderr=subprocess.PIPE, text=True, timeout=900, cwd=outdir)
    except subprocess.TimeoutExpired:
        return {"compiled": False, "stderr": "rustc did not finish within 900 s", "timeout": True}
    res = {"compiled": p.returncode == 0, "stderr": p.stderr}
    if p.returncode == 0 and run:
        renv = dict(env)
        renv.pop("RUST_BACKTRACE", None)
        if extra_env:
            renv.update(extra_env)
        try:
            r = subprocess.run([exe], env=renv, stdout=subprocess.PIPE, stderr=subprocess.PIPE, text=True, timeout=300, cwd=outdir)
            res.update({"exit": r.returncode, "stdout": r.stdout, "run_stderr": r.stderr})
        except subprocess.TimeoutExpired:
            res.update({"exit": "timeout", "stdout": "", "run_stderr": ""})
        try:
            os.remove(exe)
        except OSError:
            pass
    return res


def compile_many(sources, run=False, regex=True, json_diag=False, tag="e2e", manifest_dir=None, extra_env=None, jobs=16):
    """sources: list of Rust program texts.  Returns a list of result dicts."""
    support_args(regex)
    outdir = os.path.join(vlib.WORK, "e2e_" + tag)
    shutil.rmtree(outdir, ignore_errors=True)
    os.makedirs(outdir)
    work = [(i, s, outdir, run, regex, json_diag, manifest_dir, extra_env) for i, s in enumerate(sources)]
    with concurrent.futures.ThreadPoolExecutor(max_workers=jobs) as ex:
        out = list(ex.map(_one, work))
    return out


def cleanup(tag="e2e"):
    shutil.rmtree(os.path.join(vlib.WORK, "e2e_" + tag), ignore_errors=True)


def error_codes(stderr):
    codes = []
    for l in stderr.splitlines():
        if l.startswith("{"):
            try:
                d = json.loads(l)
            except ValueError:
                continue
            if d.get("level") == "error":
                codes.append((d.get("code") or {}).get("code") or "error")
        else:
            m = re.match(r"error\[(E\d+)\]", l)
            if m:
                codes.append(m.group(1))
            elif l.startswith("error:") or l.startswith("error "):
                codes.append("error")
    return codes


PRELUDE = r'''
#![allow(unused, non_snake_case, clippy::all)]
use assert_struct::assert_struct;
use assert_struct::__macro_support::verif;
use std::collections::{HashMap, BTreeMap, HashSet, BTreeSet};

fn hexs(s: &str) -> String { let mut o = String::from("x"); for b in s.bytes() { o.push_str(&format!("{:02x}", b)); } o }

/// runs one assertion under catch_unwind and prints: `case <id> pass|fail <n pushes> (<line>.<col>.<line>.<col>|<node display hex>|<actual hex>|<expected hex or none>)*`
fn run_case<F: FnOnce() + std::panic::UnwindSafe>(id: &str, f: F) {
    let _ = verif::take_pushes();
    let _ = verif::take_spans();
    let r = std::panic::catch_unwind(f);
    let spans = verif::take_spans();
    let pushes: Vec<_> = verif::take_pushes().into_iter().filter(|p| !p.probe).collect();
    let mut line = format!("case {} {} {}", id, if r.is_ok() { "pass" } else { "fail" }, pushes.len());
    for p in &pushes {
        line.push_str(&format!(" {}.{}.{}.{}|{}|{}|{}", p.loc.0, p.loc.1, p.loc.2, p.loc.3, hexs(&p.node_display), hexs(&p.actual),
            match &p.expected { Some(e) => hexs(e), None => "none".to_string() }));
    }
    if let Err(e) = &r {
        let msg = if let Some(s) = e.downcast_ref::<String>() { s.clone() } else if let Some(s) = e.downcast_ref::<&str>() { s.to_string() } else { "?".into() };
        line.push_str(&format!(" msg={}", hexs(&msg)));
        line.push_str(&format!(" spans={}", spans.iter().map(|(s, e)| format!("{}.{}", s, e)).collect::<Vec<_>>().join(",")));
    }
    println!("{}", line);
}
'''


def parse_case_lines(stdout):
    out = {}
    for l in stdout.splitlines():
        if not l.startswith("case "):
            continue
        f = l.split(" ")
        cid, verdict, n = f[1], f[2], int(f[3])
        pushes = []
        msg = None
        spans = None
        for x in f[4:]:
            if x.startswith("spans="):
                spans = [tuple(int(v) for v in y.split(".")) for y in x[6:].split(",") if y]
                continue
            if x.startswith("msg="):
                msg = vlib.unhx(x[4:]).decode("utf-8", "replace")
                continue
            loc, disp, act, exp = x.split("|")
            pushes.append({"loc": [int(v) for v in loc.split(".")], "node": vlib.unhx(disp).decode("utf-8", "replace"),
                           "actual": vlib.unhx(act).decode("utf-8", "replace"),
                           "expected": None if exp == "none" else vlib.unhx(exp).decode("utf-8", "replace")})
        out[cid] = {"verdict": verdict, "pushes": pushes, "msg": msg, "spans": spans}
    return out
