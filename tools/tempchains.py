"""tempchains.py — field-operation chains (and root expressions) that go THROUGH A TEMPORARY: a guard (`RefCell::borrow()`,
`Mutex::lock().unwrap()`), a clone, a to_vec, followed by a step that borrows from it (`as_ref()`, `as_deref()`, `first()`, `get(i)`,
`as_str()`, `len()`).  In Rust a `match` scrutinee keeps every temporary of its expression alive to the end of the match, a `let`
only the outermost one: an expansion that binds such a chain with `let` stops compiling (E0716) for assertions that are true.
Every program here is a true assertion; it must compile and pass.  Used by C02 (a matching value never fails)."""
import e2e

DECLS = r"""
use std::cell::RefCell; use std::sync::Mutex; use std::rc::Rc;
#[derive(Debug, Clone, PartialEq)] struct User { id: i32, name: String }
#[derive(Debug, Clone, PartialEq)] enum St { Idle, Busy(i32), Named { n: i32 } }
#[derive(Debug)] struct Holder { current: RefCell<Option<User>>, cached: Mutex<Option<String>>, last: Mutex<Result<User, String>>, hist: RefCell<Vec<i32>>,
  st: RefCell<St>, name: String, pair: RefCell<(i32, String)>, shared: Rc<RefCell<Vec<String>>>, arc: std::sync::Arc<Vec<i32>>, rcv: Rc<Vec<i32>>, bxv: Box<Vec<i32>>,
  mv: Mutex<Vec<i32>> }
fn holder() -> Holder { Holder { current: RefCell::new(Some(User { id: 1, name: "al".into() })), cached: Mutex::new(Some("x".to_string())),
  last: Mutex::new(Ok(User { id: 2, name: "bo".into() })), hist: RefCell::new(vec![1, 2, 3]), st: RefCell::new(St::Busy(4)), name: "n".into(),
  pair: RefCell::new((7, "p".to_string())), shared: Rc::new(RefCell::new(vec!["a".to_string()])), arc: std::sync::Arc::new(vec![1, 2]), rcv: Rc::new(vec![1, 2]),
  bxv: Box::new(vec![1, 2]), mv: Mutex::new(vec![4, 5]) } }
"""
# patterns for a root value `h: Holder`
FIELD_PATTERNS = [
    "Holder { current.borrow().as_ref(): Some(User { id: 1, .. }), .. }", "Holder { current.borrow().as_ref(): Some(_ { name: \"al\", .. }), .. }",
    "_ { current.borrow().as_ref(): Some(_), .. }", "Holder { cached.lock().unwrap().as_deref(): Some(\"x\"), .. }",
    "Holder { last.lock().unwrap().as_ref(): Ok(User { id: 2, .. }), .. }", "Holder { hist.borrow().get(7): None, .. }",
    "Holder { hist.borrow().first(): Some(_), .. }", "Holder { hist.borrow().len(): 3, .. }", "Holder { hist.borrow().clone(): [1, 2, 3], .. }",
    "Holder { hist.borrow().to_vec(): #(3, 2, 1), .. }", "Holder { name.clone().as_str(): \"n\", .. }",
    "Holder { name.clone().len(): > 0, .. }", "Holder { st.borrow().clone(): St::Busy(4), .. }", "Holder { st.borrow().clone(): St::Busy(> 3), .. }",
    "Holder { pair.borrow().clone(): (7, \"p\"), .. }", "Holder { pair.borrow().1.as_str(): \"p\", .. }", "Holder { pair.borrow().0: 1..=9, .. }",
    "Holder { shared.borrow().first(): Some(_), .. }", "Holder { shared.borrow().len(): 1, .. }", "Holder { current.borrow().clone(): Some(User { id: == 1, .. }), .. }",
    "Holder { current.borrow().as_ref().map(|u| u.id): Some(1), .. }", "Holder { cached.lock().unwrap().clone(): Some(=~ r\"^x$\"), .. }",
    "Holder { last.lock().unwrap().clone(): Ok(_ { name: \"bo\", .. }), .. }",
    # a collection that is only reachable through Deref (a guard, an Arc / Rc / Box) straight under a slice or set pattern
    "Holder { hist.borrow(): [1, 2, 3], .. }", "Holder { hist.borrow(): [1, ..], .. }", "Holder { hist.borrow(): #(3, 1, 2), .. }", "Holder { mv.lock().unwrap(): [4, 5], .. }",
    "Holder { shared.borrow(): [\"a\"], .. }", "Holder { arc: [1, 2], .. }", "Holder { rcv: [.., 2], .. }", "Holder { bxv: [1, _], .. }", "Holder { arc: #(2, 1), .. }",
    "_ { arc: [1, 2], bxv: [1, 2], .. }", "Holder { arc.clone(): [1, 2], .. }",
]
# (root expression, pattern) with `h: Holder` in scope
ROOT_CASES = [
    ("h.current.borrow().as_ref()", "Some(User { id: 1, .. })"), ("h.cached.lock().unwrap().as_deref()", "Some(\"x\")"), ("h.hist.borrow().get(7)", "None"),
    ("h.hist.borrow().len()", "3"), ("h.st.borrow().clone()", "St::Busy(4)"), ("h.name.clone().as_str()", "\"n\""), ("h.hist.borrow().clone()", "[1, .., 3]"),
    ("h.last.lock().unwrap().as_ref()", "Ok(_ { id: 2, .. })"),
]


# recorded finding: a set pattern applied to a collection that is only reachable through Deref
KNOWN_SET_BEHIND_DEREF = {
    "id": "C02-set-pattern-on-a-collection-behind-deref",
    "what": "a set pattern applied to a collection that is only reachable through Deref (a RefCell / Mutex guard, an Arc, Rc or Box of a Vec) is rejected by rustc "
            "(E0507: the generated `.into_iter()` on `&Ref<Vec<T>>` / `&Arc<Vec<T>>` resolves to Vec's by-value IntoIterator through auto-deref): "
            "`Holder { hist.borrow(): #(3, 1, 2), .. }` and `Holder { arc: #(2, 1), .. }` are true and do not compile, while the slice pattern on the same value does",
}


def run(res):
    name = "direct:true assertions over chains that go through a temporary (guards, clones) compile and pass"
    res.obligations.append(name)
    cases = [("h", p) for p in FIELD_PATTERNS] + ROOT_CASES
    progs = [e2e.PRELUDE + DECLS + "fn main() { let h = holder(); assert_struct!(%s, %s); }\n" % (v, p) for v, p in cases]
    out = e2e.compile_many(progs, run=True, tag="tmpch")
    e2e.cleanup("tmpch")
    bad = 0
    for (v, p), o, src in zip(cases, out, progs):
        if o["compiled"] and o.get("exit") == 0:
            continue
        if (not o["compiled"]) and "#(" in p and "E0507" in o["stderr"] and "into_iter" in o["stderr"]:
            import vlib
            if KNOWN_SET_BEHIND_DEREF["id"] in {f["id"] for f in vlib.load_known_findings()["findings"]}:
                if KNOWN_SET_BEHIND_DEREF["what"] not in res.known:
                    res.known.append(KNOWN_SET_BEHIND_DEREF["what"])
                continue
        bad += 1
        if bad <= 3:
            first = next((l for l in o["stderr"].splitlines() if l.startswith("error")), "the true assertion failed at run time") if not o["compiled"] else "the true assertion failed at run time"
            res.violation("failing-input", "`assert_struct!(%s, %s)` is true (the chain goes through a temporary guard or clone) but %s" % (v, p, first[:200]),
                          {"temp_chain_program": src, "stderr": o["stderr"][-1200:]})
    res.streams["chains-through-temporaries"] = {"programs": len(cases), "failing": bad}
    if not bad:
        res.discharged.append(name)
    return bad
