"""C05 — the 'got' text is the Debug form of the value that was tested."""
import random

import labels
import semprops
import semstage
import vlib
from vlib import unhx


def run(res):
    cases, bad, sem_dis, na, nc = semprops.common(res, "C05")
    failing = 0
    texts = 0
    for c in cases:
        spec = c["model"]["frontier"]
        real = semstage.real_entries(c)
        if spec is None or len(spec) != len(real):
            continue
        for (n1, a1, _), (n2, a2, _) in zip(real, spec):
            texts += 1
            if a1 != a2:
                failing += 1
                if failing <= 3:
                    res.violation("failing-input", "entry %s shows %r but the value at that sub-pattern's path is %r" % (n1, a1, a2),
                                  {"case": semprops.describe(c), "value_model": c["value_model"]})
    # labels carry the stored text verbatim (real error_label vs model)
    ok, out = vlib.build_harness("rt")
    if not ok:
        raise vlib.CheckError("harness rt does not build: " + out[-1500:])
    rng = random.Random(res.seed * 13 + 5)
    lcases = labels.label_cases(rng, 2 if res.tier == "quick" else 20)
    impl = vlib.run_harness("rt", lcases)
    model = vlib.run_model(lcases)
    name2 = "correspondence:error_label"
    res.obligations.append(name2)

    def oracle(line, out_):
        f = line.split("\t")
        if f[0] != "label":
            return None
        if not unhx(out_).decode("utf-8").endswith(unhx(f[2]).decode("utf-8")):
            return "the label does not end with the stored actual-value text"
        return None
    st = vlib.correspond(res, "label", lcases, impl, model, lambda c: c.split("\t")[:2], lambda c, a: True, oracle)
    if st["disagreements"] == 0 and st["oracle_failures"] == 0:
        res.discharged.append(name2)
    # set summaries: when set_match reports a failure, the `N element(s)` it shows must be the size of the collection (the real
    # support function on the matrices of C10: exhaustive small ones and random larger ones, with and without `..`)
    import prop_c10
    name3 = "direct:set summary `N element(s)` is the size of the collection"
    res.obligations.append(name3)
    mcases, _ = prop_c10.gen_cases(res.tier, res.seed)
    mimpl = vlib.run_harness("rt", mcases)
    sum_bad = 0
    sum_seen = 0
    for line, o in zip(mcases, mimpl):
        if not o.startswith("fail "):
            continue
        n, rest, rows = prop_c10.parse_case(line)
        shown = unhx(o.split(" ")[1]).decode("utf-8", "replace")
        sum_seen += 1
        if shown != "%d element(s)" % n:
            sum_bad += 1
            if sum_bad <= 2:
                res.violation("failing-input", "a failing set pattern over %d element(s) (%d patterns%s) is summarised as %r"
                              % (n, len(rows), ", with `..`" if rest else "", shown),
                              {"case_line": line, "matrix": ["".join("1" if b else "0" for b in r) for r in rows], "n_elements": n, "rest": rest})
    res.streams["set-summaries"] = {"matrices": len(mcases), "failures_with_summary": sum_seen, "wrong_summaries": sum_bad}
    failing += sum_bad
    if not sum_bad:
        res.discharged.append(name3)
    failing += slice_views(res)
    failing += deref_views(res)
    semprops.finish(res, "C05", cases, bad, sem_dis, na, nc, failing, texts,
                    "the shared semantic corpus (see C01): siblings share types and differ in content (Vec<i32>, Vec<String>, repeated "
                    "struct types, maps of equal value types); Debug forms include quotes, nested structs, tuples, vectors, maps; the "
                    "actual-value text of every real entry must equal the Debug rendering of the sub-value the specification reaches by the "
                    "written path, and set/map summaries must be true of the collection; non-trivial = entries compared",
                    [semprops.describe(c) for c in cases if c["real"]["pushes"]][:2])


SLICE_VIEW_DECLS = r"""
#[derive(Debug, Clone)] struct Stack(Vec<u8>);
impl Stack { fn as_slice(&self) -> &[u8] { &self.0 } }
#[derive(Debug, Clone)] struct Ring { buf: Vec<i32>, head: usize }
impl Ring { fn as_slice(&self) -> &[i32] { &self.buf[self.head..] } }
#[derive(Debug, Clone)] struct Holder { items: Vec<i32>, st: Stack, arr: [i32; 3], ring: Ring, opt: Option<Stack>, names: Vec<String> }
fn holder() -> Holder { Holder { items: vec![1, 2, 3], st: Stack(vec![1, 2, 3]), arr: [4, 5, 6], ring: Ring { buf: vec![9, 8, 7, 6], head: 2 },
                                 opt: Some(Stack(vec![5])), names: vec!["a\"b".to_string(), "c".to_string()] } }
"""

# (value expression whose Debug form is the expected text, statements before, asserted expression, pattern): every pattern is a slice
# pattern that fails on SHAPE, on a value that is not a Vec: the slice view the expansion matches on prints differently from the value
SLICE_VIEW_CASES = [
    ("h.items.iter()", "let h = holder();", "h", "Holder { items.iter(): [1, 2], .. }"),
    ("h.items.iter()", "let h = holder();", "h", "Holder { items.iter(): [1, 2, 3, 4, ..], .. }"),
    ("it", "let it = vec![7u8, 8, 9].into_iter();", "it", "[7, 8]"),
    ("h.st", "let h = holder();", "h", "Holder { st: [1, 2], .. }"),
    ("h.st", "let h = holder();", "h", "_ { st: [1, 2, 3, 4, ..], .. }"),
    ("h.ring", "let h = holder();", "h", "Holder { ring: [7], .. }"),
    ("h.ring", "let h = holder();", "h.ring", "[]"),
    ("h.ring.clone()", "let h = holder();", "h", "Holder { ring.clone(): [7, 6, 5], .. }"),
    ("h.arr", "let h = holder();", "h", "Holder { arr: [4, 5], .. }"),
    ("h.items", "let h = holder();", "h", "Holder { items: [1, .., 9, 9, 9], .. }"),
    ("h.names", "let h = holder();", "h", "Holder { names: [\"a\\\"b\"], .. }"),
    ("h.opt.as_ref().unwrap()", "let h = holder();", "h", "Holder { opt: Some([5, 6]), .. }"),
    ("t.1", "let t = (1, Stack(vec![2, 3]));", "t", "(1, [2])"),
    ("m[\"k\"]", "let m: HashMap<String, Stack> = [(\"k\".to_string(), Stack(vec![1]))].into_iter().collect();", "m", "#{ \"k\": [], .. }"),
    ("vs[1]", "let vs = vec![Stack(vec![1]), Stack(vec![2, 2])];", "vs", "[[1], [2]]"),
]


# `*field: pattern` is checked against the POINTEE; the entry must show the pointee.  Box / Rc / Arc / & print as their pointee, so
# any text passes for them; these wrappers deref to the payload but print as themselves (a newtype with a derived Debug,
# ManuallyDrop, AssertUnwindSafe, a guard type).  (expression whose Debug is the expected text, setup, value, failing pattern)
DEREF_VIEW_DECLS = r"""
use std::mem::ManuallyDrop; use std::panic::AssertUnwindSafe; use std::ops::Deref;
#[derive(Debug, Clone)] struct Meters(f64);
impl Deref for Meters { type Target = f64; fn deref(&self) -> &f64 { &self.0 } }
#[derive(Debug, Clone)] struct Tagged { tag: &'static str, inner: String }
impl Deref for Tagged { type Target = String; fn deref(&self) -> &String { &self.inner } }
#[derive(Debug, Clone, PartialEq)] enum Phase { Idle, Running(u32) }
#[derive(Debug)] struct Probe { distance: Meters, retries: ManuallyDrop<u32>, phase: AssertUnwindSafe<Phase>, label: Tagged, deep: Box<Meters>, xs: ManuallyDrop<Vec<u8>> }
fn probe() -> Probe { Probe { distance: Meters(3.5), retries: ManuallyDrop::new(7), phase: AssertUnwindSafe(Phase::Running(2)),
  label: Tagged { tag: "t", inner: "p1".to_string() }, deep: Box::new(Meters(1.5)), xs: ManuallyDrop::new(vec![1, 2]) } }
#[derive(Debug)] enum Carrier { One(Meters, u8) }
"""
DEREF_VIEW_CASES = [
    ("*p.distance", "let p = probe();", "p", "Probe { *distance: > 5.0, .. }"), ("*p.distance", "let p = probe();", "p", "Probe { *distance: == 1.0, .. }"),
    ("*p.distance", "let p = probe();", "p", "Probe { *distance: 4.0..5.0, .. }"), ("*p.distance", "let p = probe();", "p", "Probe { *distance: |cl_x| cl_x > 9.0, .. }"),
    ("*p.retries", "let p = probe();", "p", "Probe { *retries: 8, .. }"), ("*p.retries", "let p = probe();", "p", "Probe { *retries: != 7, .. }"),
    ("*p.phase", "let p = probe();", "p", "Probe { *phase: Phase::Idle, .. }"), ("*p.retries", "let p = probe();", "p", "Probe { *retries: 1..5, .. }"),
    ("*p.label", "let p = probe();", "p", "Probe { *label: \"p2\", .. }"), ("*p.label", "let p = probe();", "p", "Probe { *label: =~ r\"^q\", .. }"),
    ("**p.deep", "let p = probe();", "p", "Probe { **deep: > 2.0, .. }"), ("p.deep.0", "let p = probe();", "p", "Probe { *deep: _ { 0: > 2.0, .. }, .. }"),
    ("*p.xs", "let p = probe();", "p", "Probe { *xs: [1, 2, 3], .. }"), ("p.xs.len()", "let p = probe();", "p", "Probe { xs.len(): 3, .. }"),
    ("*t.0", "let t = (Meters(3.5), 1);", "t", "(*0: > 5.0, 1: 1)"), ("**c0", "let c = Carrier::One(Meters(3.5), 1); let Carrier::One(c0, _) = &c;", "c", "Carrier::One(*0: > 5.0, 1: 1)"),
    ("*m", "let m = Meters(3.5);", "*m", "> 5.0"), ("*m", "let m = ManuallyDrop::new(7u32);", "*m", "8"),
]


def deref_views(res):
    import e2e
    name = "direct:`*field` failures show the pointee, not the pointer (Deref types whose Debug is not transparent)"
    res.obligations.append(name)
    body = []
    for i, (dbg, pre, val, pat) in enumerate(DEREF_VIEW_CASES):
        body.append("    { %s println!(\"expect %d {}\", hexs(&format!(\"{:?}\", %s))); run_case(\"%d\", std::panic::AssertUnwindSafe(|| { assert_struct!(%s, %s); })); }"
                    % (pre, i, dbg, i, val, pat))
    prog = e2e.PRELUDE + DEREF_VIEW_DECLS + "\nfn main() { std::panic::set_hook(Box::new(|_| {}));\n" + "\n".join(body) + "\n}\n"
    o = e2e.compile_many([prog], run=True, tag="c05dv")[0]
    e2e.cleanup("c05dv")
    if not o["compiled"]:
        res.violation("no-failing-input-found", "the deref-view programs of C05 no longer compile against /repo: " + o["stderr"][-1200:], {"obligation": name})
        return 0
    got = e2e.parse_case_lines(o["stdout"])
    expect = {}
    for l in o["stdout"].splitlines():
        if l.startswith("expect "):
            _, i, h = l.split(" ")
            expect[i] = unhx(h).decode("utf-8", "replace")
    bad = 0
    for i, (dbg, pre, val, pat) in enumerate(DEREF_VIEW_CASES):
        c = got.get(str(i))
        if c is None or c["verdict"] != "fail" or len(c["pushes"]) != 1:
            raise vlib.CheckError("deref-view case %d did not fail with exactly one entry: %r" % (i, c))
        if c["pushes"][0]["actual"] != expect[str(i)]:
            bad += 1
            if bad <= 2:
                res.violation("failing-input", "`%s` on `%s`: the entry shows %r but the value the pattern was checked against prints as %r"
                              % (pat, val, c["pushes"][0]["actual"], expect[str(i)]),
                              {"deref_view_case": i, "setup": pre, "value": val, "pattern": pat, "expected_text_of": dbg})
    res.streams["deref-views"] = {"cases": len(DEREF_VIEW_CASES), "wrong_texts": bad}
    if not bad:
        res.discharged.append(name)
    return bad


def slice_views(res):
    """A slice pattern that fails on shape must show the Debug form of the value at its path, not of the `as_slice()` view the
    expansion matches on: the two differ for every slice-like type other than Vec and arrays (slice::Iter, vec::IntoIter, user
    types with an as_slice() accessor).  Compiled with the real macro; the expected text is computed in the program by plain access."""
    import e2e
    name = "direct:slice shape failures show the value, not its slice view (non-Vec slice-like types)"
    res.obligations.append(name)
    body = []
    for i, (dbg, pre, val, pat) in enumerate(SLICE_VIEW_CASES):
        body.append("    { %s println!(\"expect %d {}\", hexs(&format!(\"{:?}\", %s))); run_case(\"%d\", std::panic::AssertUnwindSafe(|| { assert_struct!(%s, %s); })); }"
                    % (pre, i, dbg, i, val, pat))
    prog = e2e.PRELUDE + SLICE_VIEW_DECLS + "\nfn main() { std::panic::set_hook(Box::new(|_| {}));\n" + "\n".join(body) + "\n}\n"
    o = e2e.compile_many([prog], run=True, tag="c05sv")[0]
    e2e.cleanup("c05sv")
    if not o["compiled"]:
        res.violation("no-failing-input-found", "the slice-view programs of C05 no longer compile against /repo: " + o["stderr"][-1200:], {"obligation": name})
        return 0
    got = e2e.parse_case_lines(o["stdout"])
    expect = {}
    for l in o["stdout"].splitlines():
        if l.startswith("expect "):
            _, i, h = l.split(" ")
            expect[i] = unhx(h).decode("utf-8", "replace")
    bad = 0
    seen = 0
    for i, (dbg, pre, val, pat) in enumerate(SLICE_VIEW_CASES):
        c = got.get(str(i))
        if c is None or c["verdict"] != "fail" or len(c["pushes"]) != 1:
            raise vlib.CheckError("slice-view case %d did not fail with exactly one entry: %r" % (i, c))
        seen += 1
        if c["pushes"][0]["actual"] != expect[str(i)]:
            bad += 1
            if bad <= 2:
                res.violation("failing-input", "`%s` on `%s`: the entry shows %r but the value at that path prints as %r"
                              % (pat, val, c["pushes"][0]["actual"], expect[str(i)]),
                              {"slice_view_case": i, "setup": pre, "value": val, "pattern": pat, "expected_text_of": dbg})
    res.streams["slice-views"] = {"cases": seen, "wrong_texts": bad}
    if not bad:
        res.discharged.append(name)
    return bad


def replay(res, path):
    import json
    v = json.load(open(path))
    if "deref_view_case" in v:
        n = deref_views(res)
        print("deref-view cases re-run:", "violation" if n else "property holds on these inputs")
        return 1 if n else 0
    if "slice_view_case" in v:
        n = slice_views(res)
        print("slice-view cases re-run:", "violation" if n else "property holds on these inputs")
        return 1 if n else 0
    if "case_line" in v and "n_elements" in v:
        ok, out = vlib.build_harness("rt")
        if not ok:
            raise vlib.CheckError("harness rt does not build: " + out[-1500:])
        o = vlib.run_harness("rt", [v["case_line"]])[0]
        shown = unhx(o.split(" ")[1]).decode("utf-8", "replace") if o.startswith("fail ") else None
        bad = shown is not None and shown != "%d element(s)" % v["n_elements"]
        print("impl:", o, "->", "violation" if bad else "property holds on this input")
        return 1 if bad else 0
    return semprops.replay_case(path)
