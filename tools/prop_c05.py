"""C05 — the 'got' text is the Debug form of the value that was tested."""
import random

import labels
import semprops
import semstage
import vlib
from vlib import unhx


def run(res):
    cases, bad, sem_dis, na, nc = semprops.common(res, "C05")
    failing = 0
    texts = 0
    for c in cases:
        spec = c["model"]["frontier"]
        real = semstage.real_entries(c)
        if spec is None or len(spec) != len(real):
            continue
        for (n1, a1, _), (n2, a2, _) in zip(real, spec):
            texts += 1
            if a1 != a2:
                failing += 1
                if failing <= 3:
                    res.violation("failing-input", "entry %s shows %r but the value at that sub-pattern's path is %r" % (n1, a1, a2),
                                  {"case": semprops.describe(c), "value_model": c["value_model"]})
    # labels carry the stored text verbatim (real error_label vs model)
    ok, out = vlib.build_harness("rt")
    if not ok:
        raise vlib.CheckError("harness rt does not build: " + out[-1500:])
    rng = random.Random(res.seed * 13 + 5)
    lcases = labels.label_cases(rng, 2 if res.tier == "quick" else 20)
    impl = vlib.run_harness("rt", lcases)
    model = vlib.run_model(lcases)
    name2 = "correspondence:error_label"
    res.obligations.append(name2)

    def oracle(line, out_):
        f = line.split("\t")
        if f[0] != "label":
            return None
        if not unhx(out_).decode("utf-8").endswith(unhx(f[2]).decode("utf-8")):
            return "the label does not end with the stored actual-value text"
        return None
    st = vlib.correspond(res, "label", lcases, impl, model, lambda c: c.split("\t")[:2], lambda c, a: True, oracle)
    if st["disagreements"] == 0 and st["oracle_failures"] == 0:
        res.discharged.append(name2)
    # set summaries: when set_match reports a failure, the `N element(s)` it shows must be the size of the collection (the real
    # support function on the matrices of C10: exhaustive small ones and random larger ones, with and without `..`)
    import prop_c10
    name3 = "direct:set summary `N element(s)` is the size of the collection"
    res.obligations.append(name3)
    mcases, _ = prop_c10.gen_cases(res.tier, res.seed)
    mimpl = vlib.run_harness("rt", mcases)
    sum_bad = 0
    sum_seen = 0
    for line, o in zip(mcases, mimpl):
        if not o.startswith("fail "):
            continue
        n, rest, rows = prop_c10.parse_case(line)
        shown = unhx(o.split(" ")[1]).decode("utf-8", "replace")
        sum_seen += 1
        if shown != "%d element(s)" % n:
            sum_bad += 1
            if sum_bad <= 2:
                res.violation("failing-input", "a failing set pattern over %d element(s) (%d patterns%s) is summarised as %r"
                              % (n, len(rows), ", with `..`" if rest else "", shown),
                              {"case_line": line, "matrix": ["".join("1" if b else "0" for b in r) for r in rows], "n_elements": n, "rest": rest})
    res.streams["set-summaries"] = {"matrices": len(mcases), "failures_with_summary": sum_seen, "wrong_summaries": sum_bad}
    failing += sum_bad
    if not sum_bad:
        res.discharged.append(name3)
    semprops.finish(res, "C05", cases, bad, sem_dis, na, nc, failing, texts,
                    "the shared semantic corpus (see C01): siblings share types and differ in content (Vec<i32>, Vec<String>, repeated "
                    "struct types, maps of equal value types); Debug forms include quotes, nested structs, tuples, vectors, maps; the "
                    "actual-value text of every real entry must equal the Debug rendering of the sub-value the specification reaches by the "
                    "written path, and set/map summaries must be true of the collection; non-trivial = entries compared",
                    [semprops.describe(c) for c in cases if c["real"]["pushes"]][:2])


def replay(res, path):
    import json
    v = json.load(open(path))
    if "case_line" in v and "n_elements" in v:
        ok, out = vlib.build_harness("rt")
        if not ok:
            raise vlib.CheckError("harness rt does not build: " + out[-1500:])
        o = vlib.run_harness("rt", [v["case_line"]])[0]
        shown = unhx(o.split(" ")[1]).decode("utf-8", "replace") if o.startswith("fail ") else None
        bad = shown is not None and shown != "%d element(s)" % v["n_elements"]
        print("impl:", o, "->", "violation" if bad else "property holds on this input")
        return 1 if bad else 0
    return semprops.replay_case(path)
