"""C05 — the 'got' text is the Debug form of the value that was tested."""
import random

import labels
import semprops
import semstage
import vlib
from vlib import unhx


def run(res):
    cases, bad, sem_dis, na, nc = semprops.common(res, "C05")
    failing = 0
    texts = 0
    for c in cases:
        spec = c["model"]["frontier"]
        real = semstage.real_entries(c)
        if spec is None or len(spec) != len(real):
            continue
        for (n1, a1, _), (n2, a2, _) in zip(real, spec):
            texts += 1
            if a1 != a2:
                failing += 1
                if failing <= 3:
                    res.violation("failing-input", "entry %s shows %r but the value at that sub-pattern's path is %r" % (n1, a1, a2),
                                  {"case": semprops.describe(c), "value_model": c["value_model"]})
    # labels carry the stored text verbatim (real error_label vs model)
    ok, out = vlib.build_harness("rt")
    if not ok:
        raise vlib.CheckError("harness rt does not build: " + out[-1500:])
    rng = random.Random(res.seed * 13 + 5)
    lcases = labels.label_cases(rng, 2 if res.tier == "quick" else 20)
    impl = vlib.run_harness("rt", lcases)
    model = vlib.run_model(lcases)
    name2 = "correspondence:error_label"
    res.obligations.append(name2)

    def oracle(line, out_):
        f = line.split("\t")
        if f[0] != "label":
            return None
        if not unhx(out_).decode("utf-8").endswith(unhx(f[2]).decode("utf-8")):
            return "the label does not end with the stored actual-value text"
        return None
    st = vlib.correspond(res, "label", lcases, impl, model, lambda c: c.split("\t")[:2], lambda c, a: True, oracle)
    if st["disagreements"] == 0 and st["oracle_failures"] == 0:
        res.discharged.append(name2)
    semprops.finish(res, "C05", cases, bad, sem_dis, na, nc, failing, texts,
                    "the shared semantic corpus (see C01): siblings share types and differ in content (Vec<i32>, Vec<String>, repeated "
                    "struct types, maps of equal value types); Debug forms include quotes, nested structs, tuples, vectors, maps; the "
                    "actual-value text of every real entry must equal the Debug rendering of the sub-value the specification reaches by the "
                    "written path, and set/map summaries must be true of the collection; non-trivial = entries compared",
                    [semprops.describe(c) for c in cases if c["real"]["pushes"]][:2])


def replay(res, path):
    return semprops.replay_case(path)
