"""C09 — the asserted value is only borrowed."""
import json

import e2e
import expstage
import matrix
import vlib

NONCOPY = ["string", "tuple", "vec", "into_iter", "nc_vec", "map", "struct", "enum", "nc_tuple", "option"]
PRIMS = ["i32", "char", "u8", "f64", "neg", "u64", "str_ref"]
MUTREF = ("root_mut_ref", "mutref_field", "mutref_field_expr", "mutref_nested")
WITNESS = {"id": "C09-closure-moves",
           "what": "a closure pattern at the root (or after a field operation) receives the asserted expression by value: "
                   "`assert_struct!(s, |x| x.len() > 0); drop(s)` does not compile for a String (E0382)"}


def run(res):
    res.trusted += ["Coq 8.16.1 kernel (coqc)", "Model/Modes.v: classification of each template's use of the value expression as "
                    "borrow / inspect / move is a model of rustc's move rules, compared with rustc on every run",
                    "rustc; harness/mac readback (mut bindings); tools/matrix.py"]
    vlib.build_coq()
    ths, rep = vlib.check_props("C09")
    res.obligations += ths
    res.discharged += ths
    res.coverage["print_assumptions"] = rep
    kf = {f["id"] for f in vlib.load_known_findings()["findings"]}

    def compute():
        cells = [c for c in matrix.cells(targets=NONCOPY, mismatches=False, extra_positions=MUTREF)]
        if res.tier == "quick":
            cells = [c for i, c in enumerate(cells) if c[2] in ("root", "root_mut_ref", "root_via_macro", "root_call", "root_field_expr", "root_deref", "root_ref", "field", "some", "slice_elem", "depth3") or i % 4 == 0]
        # values that ARE Copy behind a `&mut` reference (a local, a struct field, the end of a field chain): the reference itself is
        # not Copy, so a pattern that binds what it is given by value moves the reference out of the caller's place
        cells += [c for c in matrix.cells(targets=PRIMS, positions=set(MUTREF), mismatches=False, extra_positions=MUTREF)]
        srcs = []
        for (t, f, pos, pat, m) in cells:
            srcs.append(matrix.program(t, pos, pat, reuse=False))
            srcs.append(matrix.program(t, pos, pat, reuse=True))
        out = e2e.compile_many(srcs, run=True, tag="c09")
        e2e.cleanup("c09")
        return [(c, matrix.outcome(out[2 * i]), matrix.outcome(out[2 * i + 1]), out[2 * i + 1]["stderr"][-700:] if not out[2 * i + 1]["compiled"] else "")
                for i, c in enumerate(cells)]
    results = vlib.cached("reuse", [res.tier], compute)
    name = "correspondence:reuse-after-assert programs under rustc"
    res.obligations.append(name)
    failing = 0
    for (t, f, pos, pat, m), plain, reuse, err in results:
        if plain.startswith("reject"):
            continue            # C11's business
        if reuse != plain:
            failing += 1
            if failing <= 3:
                res.violation("failing-input", "after `assert_struct!(<%s>, %s)` in position `%s` the value is no longer usable: %s"
                              % (t, pat, pos, reuse), {"target": t, "pattern": pat, "position": pos, "rustc": err,
                                                       "program": matrix.program(t, pos, pat, reuse=True)})
    # no mutation: every `mut` binding of the real expansions is the report
    recs = expstage.run_stage(res, "quick", res.seed)
    mut_bad = 0
    for r in recs:
        if r.status == "ok" and r.readback.get("parse"):
            if r.readback["mut_binders"] != sum(1 for b in r.readback["binders"] if b == "__report"):
                mut_bad += 1
                if mut_bad <= 2:
                    res.violation("failing-input", "the expansion declares a mutable binding other than its own report",
                                  {"invocation": r.text})
    dis = [r for r in recs if r.status == "ok" and r.tokens != r.model]
    res.streams["expander"] = {"invocations": len(recs), "token_disagreements": len(dis), "mut_binding_anomalies": mut_bad}
    # known finding: closures move
    src = e2e.PRELUDE + "fn main() { let s = String::from(\"x\"); assert_struct!(s, |x| x.len() > 0); drop(s); }\n"
    out = e2e.compile_many([src], run=False, tag="c09w")
    e2e.cleanup("c09w")
    moved = not out[0]["compiled"] and "E0382" in out[0]["stderr"]
    res.streams["closure_witness"] = {"compiles": out[0]["compiled"], "E0382": moved}
    if moved:
        if WITNESS["id"] in kf:
            res.known.append(WITNESS["what"])
        else:
            failing += 1
            res.violation("failing-input", WITNESS["what"], {"program": src})
    if dis and not failing:
        res.violation("no-failing-input-found", "correspondence expander no longer checks (%d invocations differ)" % len(dis),
                      {"first_disagreement": {"invocation": dis[0].text}})
    res.streams["reuse"] = {"cells": len(results), "differing": failing}
    if not failing and not mut_bad and not dis:
        res.discharged.append(name)
    res.coverage.update({
        "evaluations": 2 * len(results) + len(recs), "distinct_nontrivial": len(results),
        "rule": "every pattern form over non-Copy, non-Clone-dependent payloads (String, tuples of a non-Copy newtype, Vec, BTreeMap, "
                "structs, enums) in every position, twice: as is, and followed by a borrow, a Debug formatting and a move of the asserted "
                "value — the second must compile and behave exactly when the first does; plus, over the shared pattern corpus, every "
                "`mut` binding in the real expansion must be the macro's own report; non-trivial = reuse programs",
        "samples": [{"target": r[0][0], "position": r[0][2], "pattern": r[0][3], "plain": r[1], "with_reuse": r[2]} for r in results[:3]],
    })


def replay(res, path):
    v = json.load(open(path))
    out = e2e.compile_many([v["program"]], run=True, tag="c09r")
    e2e.cleanup("c09r")
    print(matrix.outcome(out[0]))
    return 0 if out[0]["compiled"] else 1
