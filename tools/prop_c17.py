"""C17 — reports are independent of environment, history and concurrency."""
import itertools
import json
import os
import pty
import random
import re
import subprocess

import vlib
from vlib import hx, unhx

FILES = {
    "a.rs": "fn main() {\n    let é = \"日本\";\n    assert_struct!(v, S { a: 1, .. });\n    // tail\n}\n",
    "b.rs": "// other file\nlet x = 1;\n\tassert_struct!(w, [1, 2, ..]);\nmore\nand more\n",
    "c.rs": "line one of c\nline two of c\nline three of c\nline four of c\n",
    "gone.rs": None,
    # lines wider than any terminal: a renderer that is told a width would trim or re-centre them
    "wide.rs": "fn wide() { let long_name_%s = 1; }\n    assert_struct!(value_with_a_long_name_%s, Pattern { field_%s: > 90, .. });\nthird\n" % ("x" * 90, "y" * 90, "z" * 90),
}
ANSI = re.compile(r"\x1b\[[0-9;]*m")


# ------------------------------------------------------------------ guard ---

def guard_oracle(line, impl):
    ops = line.split("\t")[1]
    live = 0
    for i, o in enumerate(ops):
        live = live + 1 if o == "N" else max(0, live - 1)
        want = "1" if live > 0 else "0"
        if i >= len(impl) or impl[i] != want:
            return ("after the guard history %s (N = new, D = drop newest, F = drop oldest) %d guard(s) are alive but the "
                    "plain-output flag is %s: colour escapes %s under a live guard" %
                    (ops[:i + 1], live, impl[i] if i < len(impl) else "?", "can appear" if want == "1" else "are suppressed with no"))
    return None


def guard_cases(tier, seed):
    maxlen = 6 if tier == "quick" else 9
    cases = []
    for n in range(1, maxlen + 1):
        for ops in itertools.product("NDF", repeat=n):
            # well-bracketed histories only: never drop with nothing alive
            live = 0
            ok = True
            for o in ops:
                live += 1 if o == "N" else -1
                if live < 0:
                    ok = False
                    break
            if ok:
                cases.append("guard\t" + "".join(ops))
    rng = random.Random(seed * 31 + 17)
    for _ in range(200 if tier == "quick" else 3000):
        n = rng.randint(10, 40)
        live = 0
        ops = []
        for _ in range(n):
            o = rng.choice("NNDF") if live > 0 else "N"
            live += 1 if o == "N" else -1
            ops.append(o)
        cases.append("guard\t" + "".join(ops))
    return cases


# ---------------------------------------------------------------- contend ---

def setup_files():
    return ["c17file\t%s\t%s" % (hx(n), hx(c) if c is not None else "none") for n, c in FILES.items()]


def contend_configs(tier, seed):
    rng = random.Random(seed * 101 + 3)
    cfgs = [["a.rs"] * 8, ["a.rs"] * 4 + ["b.rs"] * 4, ["a.rs", "b.rs", "c.rs", "gone.rs"] * 2,
            ["gone.rs"] * 3 + ["a.rs"] * 3, ["a.rs", "b.rs"]]
    for _ in range(3 if tier == "quick" else 20):
        cfgs.append([rng.choice(list(FILES)) for _ in range(rng.randint(2, 12))])
    rounds = 12 if tier == "quick" else 120
    lines = []
    for c in cfgs:
        for mode in ("cold", "warm"):
            lines.append("\t".join(["contend", mode, str(rounds)] + [hx(f) for f in c]))
    return lines


def parse_round(text):
    m = re.match(r"same=(\S*) log=(\S*)", text.strip())
    same, log = m.group(1), m.group(2)
    evs = []
    for e in [x for x in log.split(";") if x]:
        t, what, name, content = e.split(":")
        evs.append((int(t), what, unhx(name).decode(), None if content == "none" else unhx(content).decode("utf-8")))
    return same, evs


def reorder(evs):
    """misses are logged after the read lock is released; the lookup itself happened earlier.  The cache only
    grows within a round, so a miss is legitimate iff the entry was absent at the start of the round: replay
    all misses first (a lookup does not change the cache, so nothing else is affected)."""
    return [e for e in evs if e[1] == "miss"] + [e for e in evs if e[1] != "miss"]


def model_line(mode, files, evs):
    present = [n for n in sorted(set(files)) if FILES[n] is not None]
    parts = ["cache", str(len(FILES))]
    for n, c in FILES.items():
        parts += [hx(n), hx(c) if c is not None else "none"]
    parts += [str(len(files))] + [hx(f) for f in files]
    warm = present if mode == "warm" else []
    parts += [str(len(warm))] + [hx(n) for n in warm]
    sched = [str(t) for (t, _, _, _) in evs]
    # a thread whose file cannot be read logs only its miss: its failing read is the model's next step
    done_read = {t for (t, w, _, _) in evs if w == "read"}
    for (t, w, _, _) in evs:
        if w == "miss" and t not in done_read:
            sched.append(str(t))
    parts.append(",".join(sched) or "-")
    return "\t".join(parts)


def content_name(c):
    """name the content by the file it belongs to (keeps evidence readable)"""
    for n, fc in FILES.items():
        if fc is not None and fc == c:
            return "=" + n
    return "none" if c is None else "?" + hx(c)[:40]


def compact_model(events):
    out = []
    for e in events.split(","):
        if ":" in e:
            w, c = e.split(":")
            e = "%s:%s" % (w, content_name(None if c == "none" else unhx(c).decode("utf-8")))
        out.append(e)
    return ",".join(out)


def impl_events(evs):
    out = []
    for (t, w, n, c) in evs:
        out.append(w if w == "miss" else "%s:%s" % (w, content_name(c)))
    done_read = {t for (t, w, _, _) in evs if w == "read"}
    for (t, w, _, _) in evs:
        if w == "miss" and t not in done_read:
            out.append("readfail")
    return ",".join(out)


def round_oracle(mode, files, same, evs, alone):
    """The property on what the implementation did, without the model."""
    if len(same) != len(files):
        return "round produced %d messages for %d threads" % (len(same), len(files))
    for i, ok in enumerate(same):
        if ok != "1":
            return ("thread %d (file %s, %s cache, %d threads failing at once) got a report that differs from the report of "
                    "the same failure alone" % (i, files[i], mode, len(files)))
    per = {}
    for (t, w, n, c) in evs:
        if t < 0 or t >= len(files):
            return "cache event from an unknown thread"
        if n != files[t]:
            return "thread %d asked for %s but the cache worked on %s" % (t, files[t], n)
        if c is not None and c != FILES[n]:
            return "cache event %s for %s carries content that is not the file's" % (w, n)
        per.setdefault(t, []).append(w)
    # (whether each thread's cache steps are one run of cached_source - hit | miss, read, insert - is a statement about the
    #  implementation's structure: it is decided by replaying the trace through the extracted transition system, and a trace that
    #  does not replay is a broken correspondence, not a wrong report)
    for i, m in enumerate(alone):
        if "assert_struct! failed" not in m or "T%d-first" % i not in m or "T%d-second" % i not in m:
            return "thread %d's report lacks the header or one of its two entries" % i
        if files[i] not in m:
            return "thread %d's report does not name its file" % i
        others = {int(x) for x in re.findall(r"T(\d+)-", m)} - {i}
        if others:
            return "thread %d's report contains entries of thread(s) %s (cross-talk)" % (i, sorted(others))
    return None


# ------------------------------------------------------- colour and cwd -----

def run_rt_env(lines, no_color, tty, cwd=None, extra_env=None):
    exe = os.path.join(vlib.VERIF, "harness", "rt", "target", "debug", "rt")
    env = dict(vlib.ENV)
    env["RT_TMP"] = os.path.join(vlib.WORK, "tmp")
    env["RT_QUIET"] = "1"
    env.pop("NO_COLOR", None)
    if no_color:
        env["NO_COLOR"] = "1"
    if extra_env:
        env.update(extra_env)
    data = ("\n".join(lines) + "\n").encode()
    if tty:
        master, slave = pty.openpty()
        try:
            p = subprocess.run([exe], input=data, env=env, stdout=subprocess.PIPE, stderr=slave, timeout=120, cwd=cwd)
        finally:
            os.close(slave)
            os.close(master)
    else:
        p = subprocess.run([exe], input=data, env=env, stdout=subprocess.PIPE, stderr=subprocess.PIPE, timeout=120, cwd=cwd)
    if p.returncode != 0:
        raise vlib.CheckError("rt failed in colour run")
    return p.stdout.decode().splitlines()


# N = new guard, D = drop the newest, F = drop the oldest; X = ANOTHER thread (no guard) formats a report of its own at that moment, Y = another
# thread does so under a guard of its own: what other threads do between this thread's guard operations and its report is not its business
HISTS = ["-", "N", "NN", "NND", "NNF", "ND", "NDN", "NNDD", "NNNDF", "X", "NX", "XN", "NXD", "NNXD", "NDX", "Y", "NY", "YN", "NXNDX", "XYX", "NYX"]


def colour_stream(res):
    d = os.path.join(vlib.WORK, "tmp", "c17")
    cases, impl, model_req = [], [], []
    msgs = {}
    for no_color in (False, True):
        for tty in (False, True):
            out = run_rt_env(setup_files() + ["colour\t%s\t%s\t%s" % (g, hx(d), hx(f)) for g in HISTS for f in ("a.rs", "gone.rs")],
                             no_color, tty)[len(FILES):]
            k = 0
            for g in HISTS:
                for f in ("a.rs", "gone.rs"):
                    m = unhx(out[k]).decode("utf-8")
                    k += 1
                    case = "guards=%s no_color=%d tty=%d file=%s" % (g, no_color, tty, f)
                    cases.append(case)
                    msgs[case] = m
                    impl.append("styled=%d" % (ANSI.search(m) is not None))
                    # the fallback listing (unreadable source) never carries escapes
                    own = g.replace("X", "").replace("Y", "") or "-"       # the model's counter is per thread: other threads' reports are no input of it
                    model_req.append("styled\t%s\t%d\t%d" % (own, no_color, tty) if f == "a.rs" else None)
    model_raw = vlib.run_model([r for r in model_req if r])
    it = iter(model_raw)
    model = ["styled=%s" % next(it) if r else "styled=0" for r in model_req]

    def oracle(case, a):
        kv = dict(x.split("=") for x in case.split())
        live = 0
        for o in kv["guards"]:
            live = live + 1 if o == "N" else (max(0, live - 1) if o in "DF" else live)
        want = live == 0 and kv["no_color"] == "0" and kv["tty"] == "1" and kv["file"] == "a.rs"
        if (a == "styled=1") != want:
            return "colour escapes %s with %s (%d guard(s) alive)" % ("appear" if a == "styled=1" else "are missing", case, live)
        base = msgs["guards=N no_color=1 tty=0 file=%s" % kv["file"]]
        if ANSI.sub("", msgs[case]) != base:
            return "apart from colour escapes the report differs between %s and the plain run" % case
        return None

    return vlib.correspond(res, "renderer-choice", cases, impl, model, lambda c: c,
                           lambda c, a: "file=a.rs" in c and "tty=1" in c, oracle, samples=2)


def cwd_stream(res):
    d = os.path.join(vlib.WORK, "tmp", "c17")
    lines = setup_files() + ["colour\tN\t%s\t%s" % (hx(d), hx(f)) for f in FILES]
    outs = {}
    for cwd in ("/", d, os.path.join(vlib.WORK, "tmp"), "/usr/lib"):
        outs[cwd] = run_rt_env(lines, False, False, cwd=cwd)[len(FILES):]
    cases = ["cwd=%s file=%s" % (cwd, f) for cwd in outs for f in FILES]
    impl = [outs[cwd][i] for cwd in outs for i, f in enumerate(FILES)]
    base = [outs["/"][i] for cwd in outs for i, f in enumerate(FILES)]

    def oracle(case, a):
        i = cases.index(case)
        if a != base[i]:
            return "the report for %s differs from the one produced with the working directory /" % case
        if "file=gone.rs" not in case and " | " not in unhx(a).decode("utf-8"):
            return "the source lines are not shown for %s" % case
        return None

    # the model side of this stream is the theorem c17_cwd_independent (the path read is absolute);
    # there is nothing to evaluate, so the implementation is compared with its own cwd=/ run
    return vlib.correspond(res, "working-directory", cases, impl, base, lambda c: c, lambda c, a: "cwd=/ " not in c + " ", oracle, samples=2)


# ------------------------------------------------------------- environment ---

STANDARD_ENV = ["CARGO_MANIFEST_DIR", "CARGO_MANIFEST_PATH", "CARGO_PKG_NAME", "CARGO_CRATE_NAME", "CARGO_TARGET_DIR", "CARGO_TARGET_TMPDIR",
                "CARGO_HOME", "CARGO_WORKSPACE_DIR", "OUT_DIR", "PWD", "OLDPWD", "HOME", "TMPDIR", "TERM", "COLORTERM", "CLICOLOR", "CLICOLOR_FORCE",
                "FORCE_COLOR", "COLUMNS", "LINES", "RUST_BACKTRACE", "RUST_LIB_BACKTRACE", "RUST_LOG", "RUST_TEST_THREADS", "LANG", "LC_ALL", "CI",
                "NEXTEST", "NEXTEST_RUN_ID", "INSTA_UPDATE", "INSTA_WORKSPACE_ROOT", "TRYBUILD", "ASSERT_STRUCT_COLOR", "ASSERT_STRUCT_SOURCE_ROOT"]


def repo_env_names():
    """every environment variable the two crates name in their sources (read at run time or at compile time)"""
    names = set()
    for crate in ("assert-struct", "assert-struct-macros"):
        for p in vlib.walk(os.path.join(vlib.REPO, crate, "src"), (".rs",)):
            txt = open(p, encoding="utf-8", errors="replace").read()
            for m in re.finditer(r"(?:var|var_os|env!|option_env!|remove_var|set_var)\s*\(\s*\"([A-Za-z_][A-Za-z0-9_]*)\"", txt):
                names.add(m.group(1))
    return sorted(names)


def env_stream(res):
    """The report may not depend on the environment of the running process (other than NO_COLOR, by the property's own terms):
    every variable the crates mention in their sources and a list of variables test runners / shells / terminals set is given
    a decoy directory (which holds files of the same names with other content), `1`, and the empty string; the plain report of
    every file must be what it is in the unperturbed environment."""
    d = os.path.join(vlib.WORK, "tmp", "c17")
    decoy = os.path.join(vlib.WORK, "tmp", "c17decoy")
    os.makedirs(decoy, exist_ok=True)
    for n, c in FILES.items():
        open(os.path.join(decoy, n), "w").write("".join("// decoy line %d of %s in some other checkout\n" % (i, n) for i in range(1, 9)))
    # every file's report twice: under a plain-output guard and without one (stderr is a pipe here, so both are plain text)
    variants = [(op, f) for op in ("N", "-") for f in FILES]
    lines = setup_files() + ["colour\t%s\t%s\t%s" % (op, hx(d), hx(f)) for op, f in variants]
    base = run_rt_env(lines, False, False)[len(FILES):]
    names = [n for n in dict.fromkeys(repo_env_names() + STANDARD_ENV) if n != "NO_COLOR"]
    cases, impl, want = [], [], []
    for n in names:
        for val in (decoy, "1", "", "60", "100000"):
            out = run_rt_env(lines, False, False, extra_env={n: val})[len(FILES):]
            for i, (op, f) in enumerate(variants):
                cases.append("%s=%s file=%s%s" % (n, "<decoy dir>" if val == decoy else repr(val), f, " (under a plain-output guard)" if op == "N" else ""))
                impl.append(out[i])
                want.append(base[i])
    allset = run_rt_env(lines, False, False, extra_env={n: decoy for n in names})[len(FILES):]
    for i, (op, f) in enumerate(variants):
        cases.append("all %d variables=<decoy dir> file=%s%s" % (len(names), f, " (under a plain-output guard)" if op == "N" else ""))
        impl.append(allset[i])
        want.append(base[i])

    def oracle(case, a):
        i = cases.index(case)
        if a != want[i]:
            return "the report differs from the one produced in the unperturbed environment when %s" % case
        return None
    st = vlib.correspond(res, "environment", cases, impl, want, lambda c: c, lambda c, a: True, oracle, samples=2)
    st["variables"] = len(names)
    st["named_in_sources"] = repo_env_names()
    return st


# ------------------------------------------- same file!() string, different packages ---

# two packages (and a workspace member) whose failing file has the same compiler-relative name
PKG_FILES = {
    "p1/src/lib.rs": "// package one\nfn one() {\n    assert_struct!(a, A { x: 1 });\n}\n// end of one\n",
    "p2/src/lib.rs": "// package TWO has other text\nfn two() {\n    let q = 2; assert_struct!(b, [2, ..]);\n}\n// end of two\n",
    "ws/member/src/lib.rs": "// workspace member\nmod m {\n    fn three() { assert_struct!(c, Some(3)); }\n}\n// end of three\n",
    "p1/tests/it.rs": "// p1 integration test\n#[test] fn t() {\n    assert_struct!(d, D { .. });\n}\n//\n",
    "p2/tests/it.rs": "// p2 integration test, different\n#[test] fn u() {\n    assert_struct!(e, #(1, 2));\n}\n//\n",
}
# a directory reached through a symbolic link: `tests/suite/..` is NOT `tests` (suite -> ../../shared/inner, so suite/.. is shared);
# the file named `tests/suite/../case.rs` is shared/case.rs, and a different file sits at the lexically collapsed place tests/case.rs
PKG_FILES.update({
    "sl/shared/case.rs": "// the SHARED helper, reached through a symlinked directory\nfn shared() {\n    assert_struct!(s, Shared { a: 1 });\n}\n// end shared\n",
    "sl/shared/inner/keep.rs": "// keeps the directory\n",
    "sl/pkg/tests/case.rs": "// the package-local file of the same name\nfn local() {\n    assert_struct!(l, Local { b: 2 });\n}\n// end local\n",
})
PKG_LINKS = {"sl/pkg/tests/suite": "../../shared/inner"}
PKG_ALIASES = {"sl/pkg/tests/suite/../case.rs": "sl/shared/case.rs"}       # spelling -> the file it really names
PKG_PAIRS = [("p1", "src/lib.rs"), ("p2", "src/lib.rs"), ("ws/member", "src/lib.rs"), ("p1", "tests/it.rs"), ("p2", "tests/it.rs"),
             ("sl/pkg", "tests/suite/../case.rs"), ("sl/pkg", "tests/case.rs")]


def crossdir_stream(res, tier, seed):
    """History and concurrency across packages: every report must show its OWN package's source although the
    file!() strings coincide."""
    d = os.path.join(vlib.WORK, "tmp", "c17")
    rng = random.Random(seed * 7 + 5)
    setup = ["c17file\t%s\t%s" % (hx(n), hx(c)) for n, c in PKG_FILES.items()] + ["c17link\t%s\t%s" % (hx(l), hx(t)) for l, t in PKG_LINKS.items()]
    orders = [PKG_PAIRS, PKG_PAIRS[::-1], [PKG_PAIRS[1], PKG_PAIRS[0]], [PKG_PAIRS[0], PKG_PAIRS[1]], [PKG_PAIRS[4], PKG_PAIRS[3], PKG_PAIRS[2]],
              [PKG_PAIRS[5], PKG_PAIRS[6]], [PKG_PAIRS[6], PKG_PAIRS[5]]]
    for _ in range(4 if tier == "quick" else 40):
        k = rng.randint(2, 5)
        orders.append(rng.sample(PKG_PAIRS, k))
    lines, meta = [], []
    for o in orders:
        for mode, rounds in (("seq", 2), ("par", 6 if tier == "quick" else 60)):
            lines.append("\t".join(["crossdir", mode, str(rounds)] + [x for (pd, f) in o for x in (hx(os.path.join(d, pd)), hx(f))]))
            meta.append((mode, o))
    out = vlib.run_harness("rt", setup + lines, env_extra={"RT_QUIET": "1"})[len(setup):]
    cases, impl, want = [], [], []
    problems = {}
    for (mode, o), line in zip(meta, out):
        body, alone_s = line.split(" | alone=")
        alone = [unhx(x).decode("utf-8") for x in alone_s.split(",")]
        for ri, same in enumerate(body.split(",")):
            case = "%s %s round=%d" % (mode, ",".join("%s:%s" % p for p in o), ri)
            cases.append(case)
            impl.append(same)
            want.append("1" * len(o))
            why = None
            for i, ok in enumerate(same):
                if ok != "1":
                    why = ("the report of a failure in %s/%s differs from the report of the same failure alone when failures in %s "
                           "happen %s (same file!() string in another package)" %
                           (o[i][0], o[i][1], ", ".join("%s/%s" % p for j, p in enumerate(o) if j != i),
                            "earlier in the process" if mode == "seq" else "at the same time"))
                    break
            if why is None:
                for i, (pd, f) in enumerate(o):
                    text = alone[i]
                    src_lines = PKG_FILES[PKG_ALIASES.get(pd + "/" + f, pd + "/" + f)].split("\n")
                    if not any(l.strip() and l in text for l in src_lines):
                        why = "the report for %s/%s shows none of that file's lines" % (pd, f)
                        break
            problems[case] = why
    return vlib.correspond(res, "same-file-string-across-packages", cases, impl, want, lambda c: c,
                           lambda c, a: c.count("src/lib.rs") >= 2 or c.count("tests/it.rs") >= 2, lambda c, a: problems[c], samples=2)


def presence_stream(res, tier, seed):
    """History over the readability of ONE source file whose content, whenever it can be read, is the same text: the file is there
    (W), cannot be read (D: moved away mid-rewrite, removed), a failure in it is reported (R; T = on another thread).  `Whatever
    other assertions failed earlier in the process`: a report made while the file is readable must be the report of the same
    failure alone (the snippet); a report made while it is not must be the fallback listing or - when an earlier report cached
    the text - the snippet of that same text.  Both are computed by the same binary from one-step histories."""
    rng = random.Random(seed * 13 + 2)
    src = "fn t() {\n    assert_struct!(v, S {\n        a: 1,\n        b: == 2,\n    });\n}\n"
    q = (4, 11, 4, 15)
    hists = ["WR", "DR", "DRWR", "DRDRWR", "WRDR", "WRDRWR", "DRWRDR", "DRTWR", "DTRWR", "DTRTWR", "DRWTRWR", "WRWR", "DRWRWR", "DRDRDRWRDRWR"]
    for _ in range(6 if tier == "quick" else 60):
        n = rng.randint(3, 9)
        h, present = "", False
        for _ in range(n):
            if rng.random() < 0.45:
                present = not present
                h += "W" if present else "D"
            h += ("T" if rng.random() < 0.25 else "") + "R"
        hists.append(h)
    lines = ["fshist\t%s\t%s\t%d\t%d\t%d\t%d" % ((hx(src), h) + q) for h in hists]
    out = vlib.run_harness("rt", lines, env_extra={"RT_QUIET": "1"})
    snippet, fallback = out[0].split(" ")[0], out[1].split(" ")[0]
    if snippet == fallback or "PANIC" in (snippet, fallback):
        raise vlib.CheckError("presence stream: the one-step baselines are not a snippet and a fallback: %s / %s" % (snippet[:60], fallback[:60]))
    cases, impl, problems = [], [], {}
    for h, line in zip(hists, out):
        got = line.split(" ") if line else []
        states, present = [], False
        for o in h:
            if o == "W":
                present = True
            elif o == "D":
                present = False
            elif o == "R":
                states.append(present)
        why = None
        if len(got) != len(states):
            why = "history %s produced %d reports for %d failures" % (h, len(got), len(states))
        seen_text = False
        for i, (g, pres) in enumerate(zip(got, states)):
            if why:
                break
            if g == "PANIC":
                why = "history %s: formatting report %d panicked" % (h, i + 1)
            elif pres and g != snippet:
                why = ("history %s (W = the source file is readable, D = it is not, R = a failure in it is reported, T = on another thread): report %d is made "
                       "while the file is readable but differs from the report of the same failure alone%s"
                       % (h, i + 1, " (it is the fallback listing: an earlier failure, made while the file could not be read, is remembered)" if g == fallback else ""))
            elif not pres and g != fallback and not (seen_text and g == snippet):
                why = "history %s: report %d, made while the file cannot be read, is neither the fallback listing nor the snippet of the cached text" % (h, i + 1)
            if pres:
                seen_text = True
        cases.append(h)
        impl.append(",".join("S" if g == snippet else "F" if g == fallback else "?" for g in got))
        problems[h] = why
    # the same histories through the extracted model (Model/SharedT.v reports_from: theorems c17_report_while_readable_ignores_the_history
    # and c17_report_while_unreadable are about it)
    want = vlib.run_model(["presence\t" + h for h in cases])
    return vlib.correspond(res, "source-file-presence-histories", cases, impl, want, lambda c: c,
                           lambda c, a: "D" in c and "W" in c, lambda c, a: problems[c], samples=2)


# -------------------------------------------------------------------- run ---

def known_corpus():
    return [json.load(open(os.path.join(vlib.VERIF, "corpus", f)))
            for f in sorted(os.listdir(os.path.join(vlib.VERIF, "corpus"))) if f.startswith("C17_")]


def run(res):
    res.trusted += ["Coq 8.16.1 kernel (coqc)", "extraction to OCaml (ExtrOcamlBasic only), ocaml/conv.ml, ocaml/main.ml",
                    "harness/rt and the cfg-guarded cache event log / plain_output_flag hook in error.rs",
                    "std::sync::RwLock, thread_local!, std::fs::read_to_string, std::io::IsTerminal and the OS scheduler: the model's atomic "
                    "steps are the lock-protected regions of cached_source; that the real regions are atomic is std's guarantee, not proved",
                    "annotate-snippets (rendering is a function of source, spans, labels and the styled flag)"]
    res.assumptions += ["source files do not change while assertions are failing (the property's 'determined by the source text')",
                        "guards are created with PlainOutputGuard::new() and dropped at most once each",
                        "PARTIAL: the theorems are about the modelled atomic steps; real interleavings are sampled under barrier-synchronised contention "
                        "and each observed trace is replayed through the extracted transition system"]
    vlib.build_coq()
    ths, rep = vlib.check_props("C17")
    res.obligations += ths
    res.discharged += ths
    res.coverage["print_assumptions"] = rep
    # regenerated facts (tools/repofacts.py): what the runtime crate reads from its environment and the state it keeps
    # between assertions must be what Model/Shared.v has (Props/C17f.v); a failure is reported at the end unless one of
    # the streams below exhibits a failing input first
    facts_error = None
    name_f = "Props/C17f.v against the facts regenerated from /repo (environment reads, shared state)"
    res.obligations.append(name_f)
    try:
        vlib.build_fact_dependents([])
        ths_f, rep_f = vlib.check_props("C17f")
        res.obligations += ths_f
        res.discharged += ths_f + [name_f]
    except vlib.CheckError as e:
        facts_error = str(e)
    vlib.build_model_runner()
    ok, out = vlib.build_harness("rt")
    if not ok:
        raise vlib.CheckError("harness rt does not build against /repo: " + out[-1500:])

    # 1. guard histories (regression corpus first)
    name = "correspondence:PlainOutputGuard(flag after every history of new/drop)"
    res.obligations.append(name)
    cases = ["guard\t" + v["ops"] for v in known_corpus() if "ops" in v] + guard_cases(res.tier, res.seed)
    impl = vlib.run_harness("rt", cases)
    model = vlib.run_model(cases)
    st1 = vlib.correspond(res, "guard", cases, impl, model, lambda c: {"ops": c.split("\t")[1]},
                          lambda c, a: "N" in c.split("\t")[1][1:] and ("D" in c or "F" in c), guard_oracle)
    if st1["disagreements"] == 0 and st1["oracle_failures"] == 0:
        res.discharged.append(name)

    # 2. contention on the source cache
    name = "correspondence:cached_source(every observed trace is a run of the transition system; each report equals the one produced alone)"
    res.obligations.append(name)
    cfg_lines = contend_configs(res.tier, res.seed)
    out, hung = vlib.run_harness_or_hang("rt", setup_files(), cfg_lines, env_extra={"RT_QUIET": "1"},
                                          timeout=90 if res.tier == "quick" else 900)
    if hung:
        f = hung.split("\t")
        res.violation("failing-input", "failing assertions never get their report (deadlock or hang while the report is formatted): %s round(s) of "
                      "threads failing in %s" % (f[1] if len(f) > 1 else "?", ", ".join(unhx(x).decode() for x in f[3:]) if len(f) > 3 else hung),
                      {"case_line": hung, "hang": True})
        return
    cases, impl, mreq, meta = [], [], [], []
    races = 0
    for cl, o in zip(cfg_lines, out):
        f = cl.split("\t")
        mode, files = f[1], [unhx(x).decode() for x in f[3:]]
        body, alone_s = o.split(" | alone=")
        alone = [unhx(x).decode("utf-8") for x in alone_s.split(",")]
        for ri, r in enumerate(body.split(" | ")):
            same, evs = parse_round(r)
            evs = reorder(evs)
            case = "%s %s round=%d" % (mode, ",".join(files), ri)
            cases.append(case + " #" + str(len(cases)))
            impl.append(impl_events(evs))
            mreq.append(model_line(mode, files, evs))
            meta.append((mode, files, same, evs, alone))
            inserts = {}
            for (t, w, n, c) in evs:
                if w == "insert":
                    inserts[n] = inserts.get(n, 0) + 1
            if any(v > 1 for v in inserts.values()):
                races += 1
    model = [compact_model(m.split(" results=")[0]) for m in vlib.run_model(mreq)]
    idx = {c: i for i, c in enumerate(cases)}

    def c_oracle(case, a):
        return round_oracle(*meta[idx[case]])

    def c_nontrivial(case, a):
        # non-trivial: at least two threads raced to insert the same file (both missed, both read)
        ins = [n for (t, w, n, c) in meta[idx[case]][3] if w == "insert"]
        return len(ins) > len(set(ins))

    st2 = vlib.correspond(res, "cache-contention", cases, impl, model,
                          lambda c: c, c_nontrivial, c_oracle)
    if st2["disagreements"] == 0 and st2["oracle_failures"] == 0:
        res.discharged.append(name)

    # 2b. the same file!() string in different packages: history and concurrency
    name = "direct:reports of packages sharing a file!() string (history, concurrency)"
    res.obligations.append(name)
    st2b = crossdir_stream(res, res.tier, res.seed)
    if st2b["disagreements"] == 0 and st2b["oracle_failures"] == 0:
        res.discharged.append(name)

    name = "direct:reports over histories of the source file's readability (unreadable first, readable later, other threads)"
    res.obligations.append(name)
    st2c = presence_stream(res, res.tier, res.seed)
    if st2c["disagreements"] == 0 and st2c["oracle_failures"] == 0:
        res.discharged.append(name)

    # 3. renderer choice and 4. working directory
    name = "correspondence:renderer choice (guard, NO_COLOR, terminal) and working directory"
    res.obligations.append(name)
    st3 = colour_stream(res)
    st4 = cwd_stream(res)
    if all(s["disagreements"] == 0 and s["oracle_failures"] == 0 for s in (st3, st4)):
        res.discharged.append(name)
    name = "direct:the report does not depend on the environment variables of the running process"
    res.obligations.append(name)
    st5 = env_stream(res)
    if st5["disagreements"] == 0 and st5["oracle_failures"] == 0:
        res.discharged.append(name)

    if facts_error and not res.violations:
        import repofacts
        f = repofacts.facts()
        res.violation("no-failing-input-found", "Props/C17f.v no longer checks against the facts regenerated from /repo: the runtime crate's "
                      "environment reads are %s and its statics / thread-locals are %s (Model/Shared.v has the NO_COLOR / terminal inputs, the "
                      "plain-output counter and the source cache)" % (f["runtime_env"], f["runtime_state"]),
                      {"theorem_file": "coq/Props/C17f.v", "proof_error": facts_error[-600:]})
    res.coverage.update({
        "evaluations": len(cases) + st1["cases"] + st3["cases"] + st4["cases"],
        "distinct_nontrivial": st1["distinct_nontrivial"] + races,
        "rule": "guard: every well-bracketed history over {new, drop newest, drop oldest} up to length %s plus random longer ones; non-trivial = a nested "
                "guard with a drop. cache: barrier-synchronised rounds of 2-12 threads formatting failures in the same / different / missing files, cold and warm; "
                "non-trivial = a round in which two threads raced to insert the same file (%d of %d rounds). renderer: guard x NO_COLOR x pty/pipe; "
                "cwd: four working directories; environment: every variable named in the crates' sources and ~35 set by runners, shells and terminals, each given a decoy directory / 1 / empty" % ("6" if res.tier == "quick" else "9", races, len(cases)),
        "samples": st1["samples"][:2] + st2["samples"][:2],
        "rounds_with_insert_race": races,
    })


def replay(res, path):
    v = json.load(open(path))
    ok, out = vlib.build_harness("rt")
    if not ok:
        raise vlib.CheckError("harness rt does not build: " + out[-1500:])
    line = v.get("case_line") or v.get("first_disagreement", {}).get("case_line") or ("guard\t" + v["ops"] if "ops" in v else None)
    if v.get("stream") == "source-file-presence-histories":
        st = presence_stream(res, "quick", 1)
        bad = st["oracle_failures"] or st["disagreements"]
        print("presence histories re-run:", "violation" if bad else "property holds on these inputs")
        return 1 if bad else 0
    if v.get("hang"):
        out, hung = vlib.run_harness_or_hang("rt", setup_files(), [line], env_extra={"RT_QUIET": "1"}, timeout=30)
        print("the case", "never finishes (violation)" if hung else "finishes: property holds on this input")
        return 1 if hung else 0
    if line and line.startswith("guard"):
        impl = vlib.run_harness("rt", [line])
        why = guard_oracle(line, impl[0])
        print("impl:", impl[0], "->", why or "property holds on this input")
        return 1 if why else 0
    print("replay of contention rounds re-runs the stream")
    run(res)
    return res.finish()
