"""theorem_table.py — regenerate the table of DESIGN.md 9.5 from coq/Props/*.v (development helper)."""
import os
import re

V = os.path.dirname(os.path.dirname(os.path.abspath(__file__)))
rows = []
for f in sorted(os.listdir(os.path.join(V, "coq", "Props"))):
    if not f.endswith(".v"):
        continue
    s = open(os.path.join(V, "coq", "Props", f)).read()
    ths = re.findall(r"^Theorem (\w+)", s, re.M)
    oth = re.findall(r"^(?:Lemma|Example) (\w+)", s, re.M)
    rows.append("| `Props/%s` | %s | %s |" % (f, ", ".join("`%s`" % t for t in ths), ", ".join("`%s`" % t for t in oth) or "—"))
d = open(os.path.join(V, "DESIGN.md")).read()
head = "| file | theorems | refutation witnesses and non-vacuity examples |\n|---|---|---|\n"
i = d.index(head) + len(head)
j = d.index("\n\n", i)
open(os.path.join(V, "DESIGN.md"), "w").write(d[:i] + "\n".join(rows) + d[j:])
print(len(rows), "files,", sum(r.count("`c") for r in rows), "names")
