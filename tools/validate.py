"""validate.py — validate MANIFEST.json and every evidence file against the given schemas (run with python3-vt)."""
import json, glob, sys
import jsonschema
ms = json.load(open('/root/.vp/MANIFEST.schema.json')); es = json.load(open('/root/.vp/EVIDENCE.schema.json'))
jsonschema.validate(json.load(open('/verif/MANIFEST.json')), ms); print('manifest ok')
for p in sorted(glob.glob('/verif/evidence/*.json')):
    e = json.load(open(p))
    try:
        jsonschema.validate(e, es)
        c = e['coverage']
        flag = '' if c.get('obligations') == c.get('discharged') else '  !! discharged != obligations'
        print(p, 'ok', e['tier'], c.get('obligations'), c.get('discharged'), flag)
    except Exception as ex:
        print(p, 'INVALID', str(ex)[:300])
