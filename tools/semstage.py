"""semstage.py — the end-to-end semantic stage: generated well-typed triples compiled with
the real macro by the real rustc and run; the extracted specification (frontier) and the
extracted execution of the model's expansion evaluated on the same triples."""
import random

import e2e
import maclib
import semgen
import vlib
from vlib import unhx


def parse_result(s):
    if s == "stuck":
        return None
    parts = s.split(";")
    out = []
    for x in parts[1:]:
        disp, act, exp = x.split("|")
        out.append((unhx(disp).decode("utf-8", "replace"), unhx(act).decode("utf-8", "replace"),
                    None if exp == "none" else unhx(exp).decode("utf-8", "replace")))
    return out


def parse_sem_line(line):
    f = dict(x.split(":", 1) if ":" in x else x.split("=", 1) for x in line.split(" "))
    tr = {}
    if f.get("T", "-") != "-":
        tr = {k: (int(v) if k != "order" else ([] if v == "-" else v.split("."))) for k, v in (kv.split("=") for kv in f["T"].split(","))}
    return {"frontier": parse_result(f["F"]), "exec": parse_result(f["X"]), "trace": tr, "pat_ok": line.endswith("ok=1")}


LAST_REJECTED = []      # the cases of the last run_cases that rustc rejects (a well-typed generated assertion that does not compile)


class RejectedAssertion(vlib.CheckError):
    """a generated, well-typed assertion that the compiler rejects"""
    def __init__(self, case, stderr):
        vlib.CheckError.__init__(self, "a generated well-typed assertion does not compile: assert_struct!(v, %s) with v: %s\n%s"
                                 % (case.get("program_pattern", case["pattern"]), case["type"], stderr))
        self.case, self.stderr = case, stderr


def relayout(text, rng):
    """The same tokens spread over several lines: a line break (and indentation) after some commas and opening delimiters,
    never inside a string / char literal.  Reports must not depend on the layout; entries then sit on different lines, in an
    order that need not be the source order (a missing map key is reported on the `#{` above the values that failed before it)."""
    out = []
    i, n, depth = 0, len(text), 0
    while i < n:
        ch = text[i]
        if ch == '"' or (ch == "r" and text[i:i + 2] in ('r"', "r#") and (i == 0 or not (text[i - 1].isalnum() or text[i - 1] == "_"))):
            # string literal (plain or raw): copy verbatim
            if ch == "r":
                j = i + 1
                h = 0
                while j < n and text[j] == "#":
                    h += 1
                    j += 1
                if j < n and text[j] == '"':
                    end = text.find('"' + "#" * h, j + 1)
                    end = n if end < 0 else end + 1 + h
                    out.append(text[i:end])
                    i = end
                    continue
                out.append(ch)
                i += 1
                continue
            j = i + 1
            while j < n and text[j] != '"':
                j += 2 if text[j] == "\\" else 1
            out.append(text[i:j + 1])
            i = j + 1
            continue
        if ch == "'":
            # char literal or lifetime: copy up to the closing quote when it is a char literal
            m = None
            if i + 2 < n and text[i + 1] == "\\":
                j = text.find("'", i + 2)
                m = j
            elif i + 2 < n and text[i + 2] == "'":
                m = i + 2
            if m is not None and m > 0:
                out.append(text[i:m + 1])
                i = m + 1
                continue
        if ch in "([{":
            depth += 1
            out.append(ch)
            i += 1
            if i < n and text[i] not in ")]}" and rng.random() < 0.35:
                out.append("\n" + "    " * depth)
            continue
        if ch in ")]}":
            depth = max(0, depth - 1)
        if ch == ",":
            out.append(ch)
            i += 1
            if rng.random() < 0.55:
                out.append("\n" + "    " * depth)
            continue
        out.append(ch)
        i += 1
    return "".join(out)


def run_cases(cases, tag="sem", per_program=120):
    """cases: list of dicts from semgen.gen_case.  Adds 'real' (verdict, pushes), 'model' (frontier, exec, trace)."""
    progs = []
    for b in range(0, len(cases), per_program):
        body = []
        for i, c in enumerate(cases[b:b + per_program]):
            # every other case is written over several lines (the verdict, the entries and the rendered message may not
            # depend on the layout)
            lrng = random.Random((b + i) * 2654435761 % (1 << 32))
            ptext = relayout(c["pattern"], lrng) if ((b + i) % 2 == 1 or c.get("multiline")) else c["pattern"]
            c["program_pattern"] = ptext
            body.append("    run_case(\"%d\", || { %s let v: %s = %s; assert_struct!(v, %s); });"
                        % (b + i, semgen.CALLER_LETS, c["type"], c["value_rust"], ptext))
        progs.append(e2e.PRELUDE + semgen.DECLS + "fn main() {\n    std::panic::set_hook(Box::new(|_| {}));\n"
                     "    let _plain = assert_struct::__macro_support::PlainOutputGuard::new();\n" + "\n".join(body) + "\n}\n")
    out = e2e.compile_many(progs, run=True, tag=tag)
    del LAST_REJECTED[:]
    for k, o in enumerate(out):
        if not o["compiled"]:
            # which assertion is it?  every case of the program on its own (the generator's programs all compile on the tree the
            # generator was developed against: an assertion that no longer compiles is a finding, not a crash of the check).  The
            # rejected ones are set aside (LAST_REJECTED) and the rest of the program is compiled and run again.
            group = cases[k * per_program:(k + 1) * per_program]
            singles = [e2e.PRELUDE + semgen.DECLS + "fn main() {\n    run_case(\"0\", || { %s let v: %s = %s; assert_struct!(v, %s); });\n}\n"
                       % (semgen.CALLER_LETS, c["type"], c["value_rust"], c.get("program_pattern", c["pattern"])) for c in group]
            so = e2e.compile_many(singles, run=False, tag=tag + "_single")
            e2e.cleanup(tag + "_single")
            keep = []
            for i, (c, r) in enumerate(zip(group, so)):
                if not r["compiled"]:
                    c["rejected"] = r["stderr"][-1500:]
                    LAST_REJECTED.append(c)
                else:
                    keep.append((k * per_program + i, c))
            if len(keep) == len(group):
                raise vlib.CheckError("generated program %d does not compile (generator or macro problem):\n%s"
                                      % (k, o["stderr"][-3000:]))
            body = ["    run_case(\"%d\", || { %s let v: %s = %s; assert_struct!(v, %s); });"
                    % (idx, semgen.CALLER_LETS, c["type"], c["value_rust"], c.get("program_pattern", c["pattern"])) for idx, c in keep]
            prog = (e2e.PRELUDE + semgen.DECLS + "fn main() {\n    std::panic::set_hook(Box::new(|_| {}));\n"
                    "    let _plain = assert_struct::__macro_support::PlainOutputGuard::new();\n" + "\n".join(body) + "\n}\n")
            o = e2e.compile_many([prog], run=True, tag=tag + "_rest")[0]
            e2e.cleanup(tag + "_rest")
            if not o["compiled"]:
                raise vlib.CheckError("generated program %d does not compile even without the assertions rustc rejects one by one:\n%s"
                                      % (k, o["stderr"][-3000:]))
        res = e2e.parse_case_lines(o.get("stdout", ""))
        for i, c in enumerate(cases[k * per_program:(k + 1) * per_program]):
            c["real"] = res.get(str(k * per_program + i))
    if LAST_REJECTED:
        cases[:] = [c for c in cases if "rejected" not in c]
    model_for(cases)
    return cases


def model_for(cases):
    """fills c["model"] (specification frontier, execution of the model's expansion, trace) for every case"""
    # model side: the real parser's tree for the same invocation text
    inv = ["v, " + c["pattern"] for c in cases]
    mac = maclib.run_mac(inv, mode="parse")
    req = []
    for c, m in zip(cases, mac):
        f = m.split("\t")
        if f[0] != "ok":
            raise vlib.CheckError("the real parser rejects a generated pattern: %s -> %s" % (c["pattern"], m[:200]))
        req.append("sem\t%s\t%s\t%s\t%s\t%s" % (semgen.caller_sexp(), semgen.UNITS_SEXP, c["value_model"], f[1], f[2]))
    mod = vlib.run_model(req)
    for c, l in zip(cases, mod):
        c["model"] = parse_sem_line(l)
    return cases


def real_entries(c):
    return [(p["node"], p["actual"], p["expected"]) for p in c["real"]["pushes"]]


def gen_cases(seed, n, closures=True):
    rng = random.Random(seed * 7 + 101)
    return [semgen.gen_case(rng, closures=closures) for _ in range(n)]
