"""semprops.py — shared driver of the semantic properties C01, C02, C03, C05: Coq theorems
+ expander correspondence (token-exact) + end-to-end differential of real runs against
the extracted specification and the extracted execution of the model's expansion."""
import json

import e2e
import expstage
import maclib
import semgen
import semstage
import vlib

WITNESS_C01 = {
    "id": "C01-ident-binding",
    "what": "an identifier or zero-argument call written as a value (`age: expected_age`, `age: forty_two()`) parses as a "
            "unit-variant pattern and expands to matches!(v, ident), a binding that always matches: "
            "S { age: expected_age, .. } with expected_age = 31 passes on age 30",
    "decls": "#[derive(Debug)] struct S { age: i32 }",
    "body": "let expected_age = 31; let s = S { age: 30 }; assert_struct!(s, S { age: expected_age, .. });",
    "expect_real": "pass",
}


def n_cases(tier):
    return 480 if tier == "quick" else 12000


def stage(res):
    def compute():
        cases = semstage.gen_cases(res.seed, n_cases(res.tier))
        out = []
        for b in range(0, len(cases), 1920):
            out += semstage.run_cases(cases[b:b + 1920], tag="sem%d" % (b // 1920))
            e2e.cleanup("sem%d" % (b // 1920))
        return out
    vlib.build_model_runner()
    ok, out = maclib.build_mac()
    if not ok:
        raise vlib.CheckError("harness mac does not build against /repo (broken correspondence): " + out[-1500:])
    import prop_c10
    # plus the compiled set-pattern stream of C10 (arbitrary match matrices, wildcard pressure, sets of sets)
    return vlib.cached("sem", [res.seed, res.tier], compute) + prop_c10.macro_cases(res.seed, 240 if res.tier == "quick" else 6000)


def exp_stage(res):
    def compute():
        recs = expstage.run_stage(res, res.tier, res.seed)
        for r in recs:
            r.node = None          # not picklable-friendly / not needed here
        return [(r.text, r.status, r.tokens == r.model, maclib.first_diff(r.tokens, r.model) if r.status == "ok" and r.tokens != r.model else None,
                 len(r.tokens.split(" ")) if r.tokens else 0) for r in recs]
    return vlib.cached("expeq", [res.seed, res.tier], compute)


def common(res, pid):
    res.trusted += ["Coq 8.16.1 kernel (coqc)", "extraction to OCaml (ExtrOcamlBasic only), ocaml/*.ml",
                    "Model/Sem.v: the meaning given to the generated code is a model of rustc's semantics for the templates "
                    "(match on a reference with default binding modes, matches!, auto-ref method calls, as_slice, len/get) — "
                    "compared with real compiled runs on every check, not proved",
                    "Model/Values.v: user expressions are interpreted only in a small sub-language (integer/bool/string literals, "
                    "caller variables, `|x| x OP n` closures, `^lit$` regexes); numbers are mathematical integers, f64 with integral value, or NaN; "
                    "slice-like values that are not Vecs are `views` (slice::Iter)",
                    "harness/mac (real parser gives the tree the model consumes), harness/e2e + rustc, tools/semgen.py"]
    res.assumptions += ["user PartialEq/PartialOrd/Debug/Like impls and closures are pure and deterministic",
                        "floats: f64 values with integral value and NaN only (Values.v VFloat); operands are float literals with integral value"]
    vlib.build_coq()
    ths, rep = vlib.check_props(pid)
    if pid == "C01":
        # the same statements from the invocation's tokens (parser + expander + semantics composed)
        ths2, rep2 = vlib.check_props("C01e")
        ths = ths + ths2
        rep = {"closed_under_global_context": rep["closed_under_global_context"] + rep2["closed_under_global_context"], "axioms": rep["axioms"] + rep2["axioms"]}
    res.obligations += ths
    res.discharged += ths
    res.coverage["print_assumptions"] = rep
    # (a) expander correspondence
    name_a = "correspondence:expander(token-exact expansion)"
    res.obligations.append(name_a)
    eq = exp_stage(res)
    bad = [x for x in eq if x[1] == "ok" and not x[2]]
    res.streams["expander"] = {"invocations": len(eq), "accepted": sum(1 for x in eq if x[1] == "ok"),
                               "token_disagreements": len(bad), "tokens_compared": sum(x[4] for x in eq)}
    # (c) semantic stage
    cases = stage(res)
    res._rejected = list(semstage.LAST_REJECTED)
    if res._rejected and pid == "C02":
        # C02: a value that satisfies (or not) a well-formed, well-typed pattern must give a verdict
        for c in res._rejected[:2]:
            res.violation("failing-input", rejected_text(c), rejected_payload(c))
    name_c = "correspondence:semantics(real run == exec(expand) == frontier)"
    res.obligations.append(name_c)
    sem_dis = []
    kinds = {}
    verd = {"pass": 0, "fail": 0}
    for c in cases:
        for k, n in c["kinds"].items():
            kinds[k] = kinds.get(k, 0) + n
        if c["real"] is None:
            raise vlib.CheckError("a generated case produced no result line: " + c["pattern"][:200])
        verd[c["real"]["verdict"]] += 1
        re_ = semstage.real_entries(c)
        if c["model"]["exec"] != re_ or c["model"]["frontier"] != c["model"]["exec"]:
            sem_dis.append(c)
    res.streams["semantics"] = {"cases": len(cases), "real_pass": verd["pass"], "real_fail": verd["fail"],
                                "disagreements": len(sem_dis), "forms": kinds,
                                "multi_failure_cases": sum(1 for c in cases if len(c["real"]["pushes"]) >= 2)}
    return cases, bad, sem_dis, name_a, name_c


def rejected_text(c):
    return ("a well-typed assertion of the generated corpus is rejected by the compiler (it compiles on the tree the generator was validated on): "
            "assert_struct!(v, %s) with v: %s = %s" % (c.get("program_pattern", c["pattern"]), c["type"], c["value_rust"]))


def rejected_payload(c):
    return {"rejected_assertion": True, "type": c["type"], "value": c["value_rust"], "pattern": c.get("program_pattern", c["pattern"]), "rustc": c["rejected"]}


def describe(c):
    return {"type": c["type"], "value": c["value_rust"], "pattern": c["pattern"],
            "real": {"verdict": c["real"]["verdict"], "entries": semstage.real_entries(c)},
            "spec_frontier": c["model"]["frontier"], "model_exec": c["model"]["exec"]}


def finish(res, pid, cases, bad, sem_dis, name_a, name_c, failing, nontrivial, rule, samples):
    rej = getattr(res, "_rejected", [])
    if rej and pid != "C02" and not failing:
        # for the other properties of this stage a rejected assertion is a case they could not judge, not a failing input of theirs
        res.violation("no-failing-input-found", rejected_text(rej[0]), rejected_payload(rej[0]))
    res.streams.setdefault("semantics", {})["assertions_rejected_by_rustc"] = len(rej)
    if bad and not failing:
        res.violation("no-failing-input-found",
                      "correspondence expander no longer checks: the real expansion differs from the model's on %d invocations" % len(bad),
                      {"first_disagreement": {"invocation": bad[0][0], "difference": bad[0][3]}})
    if sem_dis and not failing:
        res.violation("no-failing-input-found",
                      "correspondence semantics no longer checks: real run, model execution and specification disagree on %d triples "
                      "(theorem c01_exec_is_spec is about the model; the model no longer describes the code)" % len(sem_dis),
                      {"first_disagreement": describe(sem_dis[0])})
    if not bad:
        res.discharged.append(name_a)
    if not sem_dis:
        res.discharged.append(name_c)
    res.coverage.update({"evaluations": len(cases), "distinct_nontrivial": nontrivial, "rule": rule, "samples": samples})


def run_witness(w):
    src = e2e.PRELUDE + w["decls"] + "\nfn main() { std::panic::set_hook(Box::new(|_| {})); run_case(\"w\", || { %s }); }\n" % w["body"]
    out = e2e.compile_many([src], run=True, tag="wit")[0]
    e2e.cleanup("wit")
    if not out["compiled"]:
        return "does-not-compile"
    return e2e.parse_case_lines(out.get("stdout", "")).get("w", {}).get("verdict")


def replay_case(path):
    v = json.load(open(path))
    if "like_case" in v:
        import likestream
        return likestream.replay(v)
    c = v.get("case") or v.get("first_disagreement")
    if not c or "pattern" not in c:
        print("replay file holds no triple")
        return 1
    case = {"type": c["type"], "value_rust": c["value"], "pattern": c["pattern"], "kinds": {}, "value_model": v.get("value_model", "")}
    body = "%s let v: %s = %s; assert_struct!(v, %s);" % (semgen.CALLER_LETS, c["type"], c["value"], c["pattern"])
    src = e2e.PRELUDE + semgen.DECLS + "fn main() { std::panic::set_hook(Box::new(|_| {})); run_case(\"r\", || { %s }); }\n" % body
    out = e2e.compile_many([src], run=True, tag="replay")[0]
    e2e.cleanup("replay")
    r = e2e.parse_case_lines(out.get("stdout", "")).get("r") if out["compiled"] else None
    print("real:", r)
    print("recorded spec frontier:", c.get("spec_frontier"))
    if r is None:
        return 1
    ents = [[p["node"], p["actual"], p["expected"]] for p in r["pushes"]]
    spec = c.get("spec_frontier")
    same = spec is not None and [list(x) for x in spec] == ents
    print("agrees with the specification" if same else "differs from the specification")
    return 0 if same else 1
