#!/bin/bash
# verify_seed.sh <worktree> — confirm a seeded change: (1) the repository's test suite passes with it,
# (2) its demonstration fails with it, (3) the demonstration passes without it.
# Expects <worktree>/SEED/patch.diff and <worktree>/SEED/demo.rs; the demo is run as assert-struct/tests/seed_demo.rs.
set -u
W="$1"
export CARGO_NET_OFFLINE=true
cd "$W" || exit 2
git checkout -q -- . 2>/dev/null
rm -f assert-struct/tests/seed_demo.rs
git apply SEED/patch.diff || { echo "RESULT patch-does-not-apply"; exit 1; }
S=$(cargo test --workspace --no-fail-fast --offline 2>&1 | grep -E "^test result" | awk '{p+=$4; f+=$6} END {print p" "f}')
echo "suite-with-change: passed/failed = $S"
cp SEED/demo.rs assert-struct/tests/seed_demo.rs
D1=$(cargo test -p assert-struct --test seed_demo --offline 2>&1 | grep -E "^test result|^error(\[|:)|aborted|SIGABRT" | sort -r | head -3 | tr '\n' ' ')
echo "demo-with-change: $D1"
git checkout -q -- . 
D2=$(cargo test -p assert-struct --test seed_demo --offline 2>&1 | grep -E "^test result|^error(\[|:)|aborted|SIGABRT" | sort -r | head -3 | tr '\n' ' ')
echo "demo-without-change: $D2"
git apply SEED/patch.diff
echo "RESULT done"
