"""C10 — set patterns succeed exactly when a one-to-one assignment exists."""
import itertools
import random

import vlib


def line_of(n, rest, rows):
    return "\t".join(["setmatch", str(n), "1" if rest else "0", str(len(rows))] +
                     [("".join("1" if b else "0" for b in r) or "-") for r in rows])


def parse_case(line):
    f = line.split("\t")
    n, rest, k = int(f[1]), f[2] == "1", int(f[3])
    rows = [[c == "1" for c in r] if r != "-" else [] for r in f[4:4 + k]]
    return n, rest, rows


def exists_assignment(n, rows):
    # independent of the Coq model: plain enumeration of injective assignments (small cases), augmenting paths (large ones)
    if n > 5:
        owner = {}

        def place(p, seen):
            for e in range(n):
                if rows[p][e] and e not in seen:
                    seen.add(e)
                    if e not in owner or place(owner[e], seen):
                        owner[e] = p
                        return True
            return False
        return all(place(p, set()) for p in range(len(rows)))
    return exists_by_enumeration(n, rows)


def exists_by_enumeration(n, rows):
    for f in itertools.permutations(range(n), len(rows)):
        if all(rows[p][e] for p, e in enumerate(f)):
            return True
    return False


def expected_pass(n, rest, rows):
    k = len(rows)
    return (k <= n if rest else k == n) and exists_assignment(n, rows)


_ORACLE_CALLS = [0]


def oracle(line, impl):
    n, rest, rows = parse_case(line)
    want = expected_pass(n, rest, rows)
    _ORACLE_CALLS[0] += 1
    if 5 < n <= 8 and len(rows) <= n and _ORACLE_CALLS[0] % 40 == 0:
        # the two oracles (augmenting paths, plain enumeration) checked against each other on a sample of the mid-size cases
        if exists_assignment(n, rows) != exists_by_enumeration(n, rows):
            raise vlib.CheckError("the augmenting-path oracle and plain enumeration disagree on %s" % line)
    got = impl.startswith("pass")
    if impl.startswith("MULTI"):
        return "set_match pushed more than one entry"
    if want != got:
        return "set_match %s but a one-to-one assignment %s (n=%d rest=%s rows=%s)" % (
            "passed" if got else "failed", "exists" if want else "does not exist / length rule fails", n, rest, rows)
    return None


def gen_cases(tier, seed):
    rng = random.Random(seed)
    cases = []
    maxdim = 3 if tier == "quick" else 4
    # exhaustive: every matrix up to maxdim x maxdim, both rest settings
    for n in range(0, maxdim + 1):
        for k in range(0, maxdim + 1):
            for bits in itertools.product([False, True], repeat=n * k):
                rows = [list(bits[i * n:(i + 1) * n]) for i in range(k)]
                for rest in (False, True):
                    cases.append(line_of(n, rest, rows))
    exhaustive = len(cases)
    # random larger matrices, biased towards ones where backtracking matters
    count = 3000 if tier == "quick" else 60000
    top = 6 if tier == "quick" else 7
    for _ in range(count):
        n = rng.randint(2, top)
        k = rng.randint(max(1, n - 2), n + (1 if rng.random() < 0.1 else 0))
        dens = rng.choice([0.2, 0.35, 0.5, 0.7])
        rows = [[rng.random() < dens for _ in range(n)] for _ in range(k)]
        if rng.random() < 0.5:
            # plant a hidden assignment so that many cases pass only after backtracking
            perm = rng.sample(range(n), min(k, n))
            for p, e in enumerate(perm):
                rows[p][e] = True
        cases.append(line_of(n, rng.random() < 0.5, rows))
    # interval families: the elements are a shuffled 0..n-1, every pattern an interval of values (what `#(0..=3, 1..=2, 4..=5, 4..=5, ..)`
    # is), with repeated and nested intervals, as many patterns as elements: the structure in which a search that orders its patterns
    # dynamically, memoises dead ends or prunes by counting goes wrong while random matrices of the same size almost never do.
    # Half of them have an assignment by construction (interval i is grown around the value of a hidden permutation)
    for _ in range(30000 if tier == "quick" else 400000):
        n = rng.choice([5, 6, 6, 7, 7, 8, 9])
        elems = list(range(n))
        rng.shuffle(elems)
        k = n if rng.random() < 0.8 else n - 1
        ivs = []
        hidden = rng.sample(range(n), n)
        planted = rng.random() < 0.6
        for p in range(k):
            if planted:
                lo = hidden[p] - rng.choice([0, 0, 1, 1, 2, 3])
                hi = hidden[p] + rng.choice([0, 0, 1, 1, 2, 3])
            else:
                lo = rng.randrange(n)
                hi = lo + rng.choice([0, 1, 1, 2, 2, 3])
            ivs.append((lo, hi))
        if rng.random() < 0.5 and k >= 2:
            ivs[rng.randrange(k)] = ivs[rng.randrange(k)]                 # two identical patterns
        rng.shuffle(ivs)
        rows = [[lo <= e <= hi for e in elems] for lo, hi in ivs]
        cases.append(line_of(n, k < n, rows))
    # large collections, few patterns, sparse rows: the sizes at which a machine word, a small-vector or an index type of the
    # bookkeeping runs out (around 8, 16, 32, 64, 128, 256 elements), with the few matching elements placed so that they
    # coincide modulo those sizes
    sizes = [15, 16, 17, 31, 32, 33, 63, 64, 65, 66, 70, 96, 127, 128, 129, 130, 200, 255, 256, 257, 300]
    for _ in range(260 if tier == "quick" else 4000):
        n = rng.choice(sizes)
        k = rng.randint(1, 4)
        m = rng.choice([8, 16, 32, 64, 128, 256])
        base = rng.randrange(min(m, n))
        cong = [e for e in range(n) if e % m == base]            # positions that coincide modulo m
        rows = []
        for _ in range(k):
            row = [False] * n
            pool = cong if (cong and rng.random() < 0.7) else list(range(n))
            for e in rng.sample(pool, min(len(pool), rng.randint(1, 3))):
                row[e] = True
            rows.append(row)
        cases.append(line_of(n, True, rows))
    for n in ([33, 65] if tier == "quick" else [33, 65, 70, 129]):
        # exact sets that large: a planted permutation with one or two candidates per pattern
        perm = rng.sample(range(n), n)
        rows = []
        for p in range(n):
            row = [False] * n
            row[perm[p]] = True
            if rng.random() < 0.5:
                row[perm[(p + 1) % n]] = True
            rows.append(row)
        cases.append(line_of(n, False, rows))
    return cases, exhaustive


def run(res):
    res.trusted += ["Coq 8.16.1 kernel (coqc)", "extraction to OCaml (ExtrOcamlBasic only) and ocaml/conv.ml, ocaml/main.ml",
                    "harness/rt (drives the real __macro_support::set_match with recording closures)",
                    "tools/prop_c10.py (generator, brute-force oracle)"]
    res.assumptions += ["predicates are deterministic functions of the element index (the macro's closures are, for pure user code)",
                        "Vec/usize behave as lists/naturals (no overflow for collection sizes that fit in memory)"]
    vlib.build_coq()
    ths, rep = vlib.check_props("C10")
    res.obligations += ths
    res.discharged += ths
    res.coverage["print_assumptions"] = rep
    vlib.build_model_runner()
    ok, out = vlib.build_harness("rt")
    if not ok:
        # the support function's signature changed: the direct tie is broken.  Fall back to the
        # public surface (the real macro through rustc) and search there (DESIGN.md 4.1).
        return fallback(res, out)
    cases, exhaustive = gen_cases(res.tier, res.seed)
    impl = vlib.run_harness("rt", cases)
    model = vlib.run_model_sharded(cases)      # set_match commands are independent of each other
    res.obligations.append("correspondence:set_match(verdict, pushed entry, order of predicate calls)")

    def describe(c):
        n, rest, rows = parse_case(c)
        return {"n_elements": n, "rest": rest, "matrix": ["".join("1" if b else "0" for b in r) for r in rows]}

    def nontrivial(c, a):
        # non-trivial: the length rule passes and the search made at least one call that was answered `false`
        n, rest, rows = parse_case(c)
        calls = a.split("calls=")[1] if "calls=" in a else ""
        if not calls:
            return False
        for pe in calls.split(","):
            p, e = pe.split(":")
            if not rows[int(p)][int(e)]:
                return True
        return False

    st = vlib.correspond(res, "set_match", cases, impl, model, describe, nontrivial, oracle)
    if "BRUTEFORCE-DISAGREES" in "\n".join(model):
        raise vlib.CheckError("extracted set_match and extracted brute_force disagree (contradicts c10_brute_force_agrees)")
    if st["disagreements"] == 0 and st["oracle_failures"] == 0:
        res.discharged.append("correspondence:set_match(verdict, pushed entry, order of predicate calls)")
    # the same property one level up: set patterns through the real macro (predicate wiring, `_` and `..` handling)
    name_m = "direct:set patterns through the real macro pass iff an assignment exists"
    res.obligations.append(name_m)
    mcases, mfailing = macro_level(res, 240 if res.tier == "quick" else 6000)
    if not mfailing:
        res.discharged.append(name_m)
    name_s = "direct:a set pattern passes iff its patterns can be assigned to distinct elements on which they pass alone (real macro, element types outside the model)"
    res.obligations.append(name_s)
    if not self_consistency(res, 160 if res.tier == "quick" else 3000):
        res.discharged.append(name_s)
    passes = sum(1 for a in impl if a.startswith("pass"))
    res.coverage.update({
        "evaluations": len(cases), "distinct_nontrivial": st["distinct_nontrivial"],
        "rule": "every boolean matrix up to %dx%d with both rest settings (exhaustive: %d cases) plus seeded random matrices up to 7x7 "
                "with planted assignments; non-trivial = the search received at least one `false` answer (so order/backtracking matters); plus %d set "
                "patterns written through the real macro (arbitrary match matrices, wildcard pressure, with and without `..`), compiled and run"
                % ((3, 3, exhaustive, len(mcases)) if res.tier == "quick" else (4, 4, exhaustive, len(mcases))),
        "samples": st["samples"], "exhaustive_part": exhaustive, "impl_pass": passes, "impl_fail": len(cases) - passes,
    })


def macro_cases(seed, n, build_error=""):
    """n set patterns (semgen.set_stress_case) compiled with the real macro and run, with the extracted specification and model
    execution evaluated on the same triples; cached; also part of the shared semantic corpus of C01, C02, C03 and C05"""
    import random
    import e2e
    import maclib
    import semgen
    import semstage
    vlib.build_model_runner()
    okm, outm = maclib.build_mac()
    if not okm:
        raise vlib.CheckError("harness mac does not build against /repo: " + (build_error or outm)[-800:])
    rng = random.Random(seed * 17 + 10)

    def compute():
        cs = [semgen.set_stress_case(rng) for _ in range(n)]
        try:
            return semstage.run_cases(cs, tag="c10ml")
        finally:
            e2e.cleanup("c10ml")
    return vlib.cached("c10macro", [seed, n], compute)


def macro_level(res, n, build_error=""):
    """set patterns written through the real macro (compiled by rustc, run): the assertion passes iff the extracted
    specification (Spec.v: existence of a one-to-one assignment, by brute force, plus the length rule) says so"""
    cases = macro_cases(res.seed, n, build_error)
    failing = 0
    for c in cases:
        spec = c["model"]["frontier"]           # brute-force existence of an assignment (Spec.v), extracted
        if spec is None or c["real"] is None:
            continue
        if (spec == []) != (c["real"]["verdict"] == "pass"):
            failing += 1
            if failing <= 3:
                res.violation("failing-input", "set pattern %s on %s: the assertion %s but a one-to-one assignment %s"
                              % (c["pattern"], c["value_rust"], "passed" if c["real"]["verdict"] == "pass" else "failed",
                                 "does not exist" if spec != [] else "exists"),
                              {"type": c["type"], "value": c["value_rust"], "pattern": c["pattern"], "value_model": c["value_model"],
                               "rt_build_error": build_error[-600:]})
    res.streams["macro_level_sets"] = {"cases": len(cases), "failing": failing,
                                       "real_pass": sum(1 for c in cases if c["real"] and c["real"]["verdict"] == "pass"),
                                       "with_wildcard_and_rest": sum(1 for c in cases if "_" in c["pattern"].split("#(")[1] and ".." in c["pattern"])}
    return cases, failing


# ---- the statement itself, on element types the model does not have: a set passes iff its patterns can be assigned to distinct
# elements that each match — "match" being the verdict of the SAME pattern on the SAME element asserted alone.  Element types on
# which one pattern accepts elements another pattern tells apart: a user type seen through AsRef<str>, floats with signed zeros
# and NaN, options, tuples.
SELF_DECLS = r"""
#[derive(Debug, Clone, PartialEq)] struct Label { name: String, weight: i32 }
impl AsRef<str> for Label { fn as_ref(&self) -> &str { &self.name } }
fn lb(n: &str, w: i32) -> Label { Label { name: n.to_string(), weight: w } }
"""
SELF_TYPES = {
    "Label": (["lb(\"core\", 9)", "lb(\"core\", 1)", "lb(\"edge\", 9)", "lb(\"edge\", 2)"],
              ["\"core\"", "\"edge\"", "_ { weight: > 5, .. }", "_ { weight: 1, .. }", "_ { name: \"core\", .. }", "|cl_l: &Label| cl_l.weight % 2 == 1",
               "Label { name: \"edge\", .. }", "_"]),
    "f64": (["0.0", "-0.0", "1.0", "f64::NAN", "2.5"],
            ["0.0", "1.0", "> 0.5", "<= 0.0", "|cl_x: &f64| cl_x.is_sign_positive()", "|cl_x: &f64| cl_x.is_nan()", "..=0.0", "!= 1.0", "_"]),
    "Option<i32>": (["Some(1)", "Some(2)", "None", "Some(-1)"], ["Some(1)", "Some(> 0)", "None", "Some(_)", "|cl_o: &Option<i32>| cl_o.is_some()", "_"]),
    "(i32, String)": (["(1, \"a\".to_string())", "(1, \"b\".to_string())", "(2, \"a\".to_string())"],
                      ["(1, _)", "(_, \"a\")", "(> 1, _)", "(1, \"b\")", "(0: 1, 1: =~ r\"^a\")", "_"]),
    # elements that are collections themselves: nested sets, slices and maps as element patterns, among them patterns that list only
    # wildcards (they still state a minimum or exact length) and patterns that accept everything
    "Vec<i32>": (["vec![]", "vec![1]", "vec![1, 2]", "vec![2, 2, 3]", "vec![1]"],
                 ["#(_, ..)", "#(_, _, ..)", "[_, ..]", "[]", "[..]", "#(..)", "#(1)", "#(1, ..)", "[_]", "#(_, _)", "[.., 3]", "#(2, 2, ..)", "_"]),
    "(i32, Vec<String>)": (["(1, vec![\"a\".to_string(), \"a\".to_string()])", "(2, vec![\"a\".to_string()])", "(1, vec![])", "(2, vec![\"b\".to_string(), \"a\".to_string()])"],
                           ["(_, #(_, _, ..))", "(1, _)", "(_, #(_, ..))", "(2, #(\"a\"))", "(_, [])", "(_, #(\"a\", ..))", "(_, [..])", "_"]),
    "BTreeMap<String, i32>": (["BTreeMap::new()", "BTreeMap::from([(\"a\".to_string(), 1)])", "BTreeMap::from([(\"a\".to_string(), 2), (\"b\".to_string(), 1)])"],
                              ["#{ .. }", "#{}", "#{ \"a\": _, .. }", "#{ \"a\": 1 }", "#{ \"a\": _, \"b\": _ }", "#{ \"b\": _, .. }", "_"]),
    # bytes: the same value has several spellings (byte literal, decimal, hex, escape)
    "u8": (["b'a'", "b'b'", "b'b'", "b'\\n'"], ["b'a'", "97", "0x61", "b'\\x61'", "b'b'", "98", "b'\\n'", "0x0A", "10u8", "> 97", "_"]),
    "i32": (["1", "2", "3", "2"], ["1", "2", "> 1", "1..=2", "|cl_x: &i32| cl_x % 2 == 0", "!= 2", "_"]),
}


def brute_force(matrix, n, rest):
    """patterns (rows) to distinct elements (columns)"""
    k = len(matrix)
    if (k > n) or (not rest and k != n):
        return False

    def go(i, used):
        if i == k:
            return True
        return any(matrix[i][j] and j not in used and go(i + 1, used | {j}) for j in range(n))
    return go(0, frozenset())


def is_literal_pattern(p):
    return bool(p) and (p[0].isdigit() or p[0] == '"' or (p[0] == "-" and p[1:2].isdigit()))


def greedy_orders(matrix, pats, n):
    """the verdicts of some plausible but wrong searches (first fit without undoing, in several orders of the patterns)"""
    k = len(matrix)
    orders = [list(range(k)), list(reversed(range(k))),
              sorted(range(k), key=lambda i: (not is_literal_pattern(pats[i]), i)),                 # literal patterns first
              sorted(range(k), key=lambda i: (sum(matrix[i]), i)),                                  # most constrained first
              sorted(range(k), key=lambda i: (-sum(matrix[i]), i))]
    out = []
    for order in orders:
        for cols in (list(range(n)), list(reversed(range(n)))):
            used, ok = set(), True
            for i in order:
                fit = next((jj for jj in cols if matrix[i][jj] and jj not in used), None)
                if fit is None:
                    ok = False
                    break
                used.add(fit)
            out.append(ok)
    return out


def self_consistency(res, n_cases):
    """Phase 1: the verdict of every pattern of a pool on every element of a pool, each asserted alone (one program).  Phase 2:
    set patterns over these pools chosen so that the search is hard: an assignment exists but some first-fit search (written order,
    reversed, literal patterns first, most or least constrained first, elements forwards or backwards) finds none, or no assignment
    exists although every pattern has a candidate; plus random ones.  The set must pass iff an assignment exists."""
    import random
    import e2e
    rng = random.Random(res.seed * 31 + 10)
    types = sorted(SELF_TYPES)
    body = []
    for ti, ty in enumerate(types):
        evals, epats = SELF_TYPES[ty]
        body.append("    { let es: Vec<%s> = vec![%s];" % (ty, ", ".join(evals)))
        for i, p in enumerate(epats):
            for jj in range(len(evals)):
                body.append("      run_case(\"m_%d_%d_%d\", std::panic::AssertUnwindSafe(|| { assert_struct!(&es[%d], %s); }));" % (ti, i, jj, jj, p))
        body.append("    }")
    o = e2e.compile_many([e2e.PRELUDE + SELF_DECLS + "fn main() { std::panic::set_hook(Box::new(|_| {}));\n" + "\n".join(body) + "\n}\n"], run=True, tag="c10pairs")[0]
    e2e.cleanup("c10pairs")
    if not o["compiled"]:
        raise vlib.CheckError("the pattern x element program of the set self-consistency stream does not compile: " + o["stderr"][-1500:])
    pairs = e2e.parse_case_lines(o.get("stdout", ""))
    table = {ty: [[pairs["m_%d_%d_%d" % (ti, i, jj)]["verdict"] == "pass" for jj in range(len(SELF_TYPES[ty][0]))] for i in range(len(SELF_TYPES[ty][1]))]
             for ti, ty in enumerate(types)}
    hard, easy = [], []
    for _ in range(60 * n_cases):
        ty = rng.choice(types)
        evals, epats = SELF_TYPES[ty]
        n = rng.randint(1, 4)
        ei = [rng.randrange(len(evals)) for _ in range(n)]
        rest = rng.random() < 0.4
        k = rng.randint(1, n) if rest else (n if rng.random() < 0.85 else rng.randint(1, 4))
        pi = [rng.randrange(len(epats)) for _ in range(k)]
        matrix = [[table[ty][i][jj] for jj in ei] for i in pi]
        want = brute_force(matrix, n, rest)
        pats = [epats[i] for i in pi]
        length_ok = (k <= n) if rest else (k == n)
        greedy = greedy_orders(matrix, pats, n) if length_ok else []
        case = (ty, [evals[jj] for jj in ei], pats, rest, matrix, want)
        if length_ok and ((want and not all(greedy)) or (not want and all(any(r) for r in matrix))):
            hard.append(case)
        else:
            easy.append(case)
    seen = set()
    cases = []
    for c in hard + easy:
        key = (c[0], tuple(c[1]), tuple(c[2]), c[3])
        if key in seen:
            continue
        seen.add(key)
        cases.append(c)
        if len(cases) >= n_cases and len([x for x in cases if x in hard]) >= 0:
            break
    n_hard = sum(1 for c in cases if c in hard[:len(cases)])
    blocks = []
    for ci, (ty, elems, pats, rest, matrix, want) in enumerate(cases):
        blocks.append("    { let es: Vec<%s> = vec![%s]; run_case(\"s_%d\", std::panic::AssertUnwindSafe(|| { assert_struct!(es, #(%s%s)); })); }"
                      % (ty, ", ".join(elems), ci, ", ".join(pats), ", .." if rest else ""))
    per = 60
    progs = [e2e.PRELUDE + SELF_DECLS + "fn main() { std::panic::set_hook(Box::new(|_| {}));\n" + "\n".join(blocks[b:b + per]) + "\n}\n" for b in range(0, len(blocks), per)]
    out = e2e.compile_many(progs, run=True, tag="c10self")
    e2e.cleanup("c10self")
    results = {}
    for o in out:
        if not o["compiled"]:
            raise vlib.CheckError("a set self-consistency program does not compile: " + o["stderr"][-1500:])
        results.update(e2e.parse_case_lines(o.get("stdout", "")))
    failing = 0
    for ci, (ty, elems, pats, rest, matrix, want) in enumerate(cases):
        got = results["s_%d" % ci]["verdict"] == "pass"
        if want != got:
            failing += 1
            if failing <= 3:
                res.violation("failing-input", "set pattern #(%s%s) on vec![%s] (%s): the assertion %s but, going by the verdict of each pattern on each "
                              "element asserted alone, a one-to-one assignment %s" % (", ".join(pats), ", .." if rest else "", ", ".join(elems), ty,
                                                                                       "passed" if got else "failed", "exists" if want else "does not exist"),
                              {"self_consistency": True, "type": ty, "elements": elems, "patterns": pats, "rest": rest,
                               "matrix_pattern_by_element": ["".join("1" if b else "0" for b in r) for r in matrix]})
    res.streams["set-vs-element-verdicts"] = {"cases": len(cases), "hard_for_a_first_fit_search": n_hard, "failing": failing,
                                              "pattern_element_pairs_asserted_alone": sum(len(SELF_TYPES[t][0]) * len(SELF_TYPES[t][1]) for t in types),
                                              "element_types": types}
    return failing


def fallback(res, build_error):
    name_s = "direct:a set pattern passes iff its patterns can be assigned to distinct elements on which they pass alone (real macro, element types outside the model)"
    res.obligations.append(name_s)
    sfail = self_consistency(res, 400 if res.tier == "quick" else 3000)
    if sfail:
        return
    res.discharged.append(name_s)
    cases, failing = macro_level(res, 600 if res.tier == "quick" else 6000, build_error)
    res.obligations.append("correspondence:set_match(verdict, pushed entry, order of predicate calls)")
    res.streams["fallback_macro_level"] = {"cases": len(cases), "failing": failing}
    res.coverage.update({"evaluations": len(cases), "distinct_nontrivial": len({c["pattern"] + c["value_rust"] for c in cases}),
                         "rule": "fallback: harness rt no longer builds; set patterns with arbitrary match matrices compiled with the real macro",
                         "samples": [{"pattern": c["pattern"], "value": c["value_rust"]} for c in cases[:3]]})
    if not failing:
        res.violation("no-failing-input-found",
                      "correspondence set_match no longer checks: harness rt does not build against /repo (the support function changed shape)",
                      {"build_error": build_error[-1500:]})


def replay(res, path):
    import json
    v = json.load(open(path))
    if v.get("self_consistency"):
        import e2e
        ty, elems, pats, rest = v["type"], v["elements"], v["patterns"], v["rest"]
        body = ["    { let es: Vec<%s> = vec![%s];" % (ty, ", ".join(elems))]
        for i, p in enumerate(pats):
            for j in range(len(elems)):
                body.append("      run_case(\"m_%d_%d\", std::panic::AssertUnwindSafe(|| { assert_struct!(&es[%d], %s); }));" % (i, j, j, p))
        body.append("      run_case(\"s\", std::panic::AssertUnwindSafe(|| { assert_struct!(es, #(%s%s)); })); }" % (", ".join(pats), ", .." if rest else ""))
        o = e2e.compile_many([e2e.PRELUDE + SELF_DECLS + "fn main() { std::panic::set_hook(Box::new(|_| {}));\n" + "\n".join(body) + "\n}\n"], run=True, tag="c10r")[0]
        e2e.cleanup("c10r")
        r = e2e.parse_case_lines(o.get("stdout", ""))
        matrix = [[r["m_%d_%d" % (i, j)]["verdict"] == "pass" for j in range(len(elems))] for i in range(len(pats))]
        want, got = brute_force(matrix, len(elems), rest), r["s"]["verdict"] == "pass"
        print("set:", "pass" if got else "fail", "assignment:", "exists" if want else "none", "->", "violation" if want != got else "property holds on this input")
        return 1 if want != got else 0
    if "pattern" in v:
        import e2e
        import maclib
        import semstage
        vlib.build_model_runner()
        maclib.build_mac()
        try:
            c = semstage.run_cases([{"type": v["type"], "value_rust": v["value"], "value_model": v["value_model"], "pattern": v["pattern"], "kinds": {}}], tag="c10r")[0]
        finally:
            e2e.cleanup("c10r")
        bad = (c["model"]["frontier"] == []) != (c["real"]["verdict"] == "pass")
        print("real:", c["real"]["verdict"], "specification:", "match" if c["model"]["frontier"] == [] else "no match", "->", "violation" if bad else "property holds on this input")
        return 1 if bad else 0
    line = v.get("case_line") or v.get("first_disagreement", {}).get("case_line")
    ok, out = vlib.build_harness("rt")
    if not ok:
        raise vlib.CheckError("harness rt does not build: " + out[-1500:])
    impl = vlib.run_harness("rt", [line])
    why = oracle(line, impl[0])
    print("impl:", impl[0], "->", why or "property holds on this input")
    return 1 if why else 0
