"""C10 — set patterns succeed exactly when a one-to-one assignment exists."""
import itertools
import random

import vlib


def line_of(n, rest, rows):
    return "\t".join(["setmatch", str(n), "1" if rest else "0", str(len(rows))] +
                     [("".join("1" if b else "0" for b in r) or "-") for r in rows])


def parse_case(line):
    f = line.split("\t")
    n, rest, k = int(f[1]), f[2] == "1", int(f[3])
    rows = [[c == "1" for c in r] if r != "-" else [] for r in f[4:4 + k]]
    return n, rest, rows


def exists_assignment(n, rows):
    # independent of the Coq model: plain enumeration of injective assignments
    for f in itertools.permutations(range(n), len(rows)):
        if all(rows[p][e] for p, e in enumerate(f)):
            return True
    return False


def expected_pass(n, rest, rows):
    k = len(rows)
    return (k <= n if rest else k == n) and exists_assignment(n, rows)


def oracle(line, impl):
    n, rest, rows = parse_case(line)
    want = expected_pass(n, rest, rows)
    got = impl.startswith("pass")
    if impl.startswith("MULTI"):
        return "set_match pushed more than one entry"
    if want != got:
        return "set_match %s but a one-to-one assignment %s (n=%d rest=%s rows=%s)" % (
            "passed" if got else "failed", "exists" if want else "does not exist / length rule fails", n, rest, rows)
    return None


def gen_cases(tier, seed):
    rng = random.Random(seed)
    cases = []
    maxdim = 3 if tier == "quick" else 4
    # exhaustive: every matrix up to maxdim x maxdim, both rest settings
    for n in range(0, maxdim + 1):
        for k in range(0, maxdim + 1):
            for bits in itertools.product([False, True], repeat=n * k):
                rows = [list(bits[i * n:(i + 1) * n]) for i in range(k)]
                for rest in (False, True):
                    cases.append(line_of(n, rest, rows))
    exhaustive = len(cases)
    # random larger matrices, biased towards ones where backtracking matters
    count = 3000 if tier == "quick" else 60000
    top = 6 if tier == "quick" else 7
    for _ in range(count):
        n = rng.randint(2, top)
        k = rng.randint(max(1, n - 2), n + (1 if rng.random() < 0.1 else 0))
        dens = rng.choice([0.2, 0.35, 0.5, 0.7])
        rows = [[rng.random() < dens for _ in range(n)] for _ in range(k)]
        if rng.random() < 0.5:
            # plant a hidden assignment so that many cases pass only after backtracking
            perm = rng.sample(range(n), min(k, n))
            for p, e in enumerate(perm):
                rows[p][e] = True
        cases.append(line_of(n, rng.random() < 0.5, rows))
    return cases, exhaustive


def run(res):
    res.trusted += ["Coq 8.16.1 kernel (coqc)", "extraction to OCaml (ExtrOcamlBasic only) and ocaml/conv.ml, ocaml/main.ml",
                    "harness/rt (drives the real __macro_support::set_match with recording closures)",
                    "tools/prop_c10.py (generator, brute-force oracle)"]
    res.assumptions += ["predicates are deterministic functions of the element index (the macro's closures are, for pure user code)",
                        "Vec/usize behave as lists/naturals (no overflow for collection sizes that fit in memory)"]
    vlib.build_coq()
    ths, rep = vlib.check_props("C10")
    res.obligations += ths
    res.discharged += ths
    res.coverage["print_assumptions"] = rep
    vlib.build_model_runner()
    ok, out = vlib.build_harness("rt")
    if not ok:
        # the support function's signature changed: the direct tie is broken.  Fall back to the
        # public surface (the real macro through rustc) and search there (DESIGN.md 4.1).
        return fallback(res, out)
    cases, exhaustive = gen_cases(res.tier, res.seed)
    impl = vlib.run_harness("rt", cases)
    model = vlib.run_model(cases)
    res.obligations.append("correspondence:set_match(verdict, pushed entry, order of predicate calls)")

    def describe(c):
        n, rest, rows = parse_case(c)
        return {"n_elements": n, "rest": rest, "matrix": ["".join("1" if b else "0" for b in r) for r in rows]}

    def nontrivial(c, a):
        # non-trivial: the length rule passes and the search made at least one call that was answered `false`
        n, rest, rows = parse_case(c)
        calls = a.split("calls=")[1] if "calls=" in a else ""
        if not calls:
            return False
        for pe in calls.split(","):
            p, e = pe.split(":")
            if not rows[int(p)][int(e)]:
                return True
        return False

    st = vlib.correspond(res, "set_match", cases, impl, model, describe, nontrivial, oracle)
    if "BRUTEFORCE-DISAGREES" in "\n".join(model):
        raise vlib.CheckError("extracted set_match and extracted brute_force disagree (contradicts c10_brute_force_agrees)")
    if st["disagreements"] == 0 and st["oracle_failures"] == 0:
        res.discharged.append("correspondence:set_match(verdict, pushed entry, order of predicate calls)")
    # the same property one level up: set patterns through the real macro (predicate wiring, `_` and `..` handling)
    name_m = "direct:set patterns through the real macro pass iff an assignment exists"
    res.obligations.append(name_m)
    mcases, mfailing = macro_level(res, 240 if res.tier == "quick" else 6000)
    if not mfailing:
        res.discharged.append(name_m)
    passes = sum(1 for a in impl if a.startswith("pass"))
    res.coverage.update({
        "evaluations": len(cases), "distinct_nontrivial": st["distinct_nontrivial"],
        "rule": "every boolean matrix up to %dx%d with both rest settings (exhaustive: %d cases) plus seeded random matrices up to 7x7 "
                "with planted assignments; non-trivial = the search received at least one `false` answer (so order/backtracking matters); plus %d set "
                "patterns written through the real macro (arbitrary match matrices, wildcard pressure, with and without `..`), compiled and run"
                % ((3, 3, exhaustive, len(mcases)) if res.tier == "quick" else (4, 4, exhaustive, len(mcases))),
        "samples": st["samples"], "exhaustive_part": exhaustive, "impl_pass": passes, "impl_fail": len(cases) - passes,
    })


def macro_cases(seed, n, build_error=""):
    """n set patterns (semgen.set_stress_case) compiled with the real macro and run, with the extracted specification and model
    execution evaluated on the same triples; cached; also part of the shared semantic corpus of C01, C02, C03 and C05"""
    import random
    import e2e
    import maclib
    import semgen
    import semstage
    vlib.build_model_runner()
    okm, outm = maclib.build_mac()
    if not okm:
        raise vlib.CheckError("harness mac does not build against /repo: " + (build_error or outm)[-800:])
    rng = random.Random(seed * 17 + 10)

    def compute():
        cs = [semgen.set_stress_case(rng) for _ in range(n)]
        try:
            return semstage.run_cases(cs, tag="c10ml")
        finally:
            e2e.cleanup("c10ml")
    return vlib.cached("c10macro", [seed, n], compute)


def macro_level(res, n, build_error=""):
    """set patterns written through the real macro (compiled by rustc, run): the assertion passes iff the extracted
    specification (Spec.v: existence of a one-to-one assignment, by brute force, plus the length rule) says so"""
    cases = macro_cases(res.seed, n, build_error)
    failing = 0
    for c in cases:
        spec = c["model"]["frontier"]           # brute-force existence of an assignment (Spec.v), extracted
        if spec is None or c["real"] is None:
            continue
        if (spec == []) != (c["real"]["verdict"] == "pass"):
            failing += 1
            if failing <= 3:
                res.violation("failing-input", "set pattern %s on %s: the assertion %s but a one-to-one assignment %s"
                              % (c["pattern"], c["value_rust"], "passed" if c["real"]["verdict"] == "pass" else "failed",
                                 "does not exist" if spec != [] else "exists"),
                              {"type": c["type"], "value": c["value_rust"], "pattern": c["pattern"], "value_model": c["value_model"],
                               "rt_build_error": build_error[-600:]})
    res.streams["macro_level_sets"] = {"cases": len(cases), "failing": failing,
                                       "real_pass": sum(1 for c in cases if c["real"] and c["real"]["verdict"] == "pass"),
                                       "with_wildcard_and_rest": sum(1 for c in cases if "_" in c["pattern"].split("#(")[1] and ".." in c["pattern"])}
    return cases, failing


def fallback(res, build_error):
    cases, failing = macro_level(res, 600 if res.tier == "quick" else 6000, build_error)
    res.obligations.append("correspondence:set_match(verdict, pushed entry, order of predicate calls)")
    res.streams["fallback_macro_level"] = {"cases": len(cases), "failing": failing}
    res.coverage.update({"evaluations": len(cases), "distinct_nontrivial": len({c["pattern"] + c["value_rust"] for c in cases}),
                         "rule": "fallback: harness rt no longer builds; set patterns with arbitrary match matrices compiled with the real macro",
                         "samples": [{"pattern": c["pattern"], "value": c["value_rust"]} for c in cases[:3]]})
    if not failing:
        res.violation("no-failing-input-found",
                      "correspondence set_match no longer checks: harness rt does not build against /repo (the support function changed shape)",
                      {"build_error": build_error[-1500:]})


def replay(res, path):
    import json
    v = json.load(open(path))
    if "pattern" in v:
        import e2e
        import maclib
        import semstage
        vlib.build_model_runner()
        maclib.build_mac()
        try:
            c = semstage.run_cases([{"type": v["type"], "value_rust": v["value"], "value_model": v["value_model"], "pattern": v["pattern"], "kinds": {}}], tag="c10r")[0]
        finally:
            e2e.cleanup("c10r")
        bad = (c["model"]["frontier"] == []) != (c["real"]["verdict"] == "pass")
        print("real:", c["real"]["verdict"], "specification:", "match" if c["model"]["frontier"] == [] else "no match", "->", "violation" if bad else "property holds on this input")
        return 1 if bad else 0
    line = v.get("case_line") or v.get("first_disagreement", {}).get("case_line")
    ok, out = vlib.build_harness("rt")
    if not ok:
        raise vlib.CheckError("harness rt does not build: " + out[-1500:])
    impl = vlib.run_harness("rt", [line])
    why = oracle(line, impl[0])
    print("impl:", impl[0], "->", why or "property holds on this input")
    return 1 if why else 0
