"""mspan.py — reports with several entries, in any order, formatted once: the span handed to the
renderer for every entry (through the cfg-guarded span log) against the model, which computes
each entry's span on its own.  Shared by C04 (the span is the entry's own text) and C06 (one
located entry per mismatch, no panic)."""
import random

import textgen
import vlib
from vlib import hx, unhx


def gen(tier, seed):
    rng = random.Random(seed * 577 + 11)
    cases = []
    for _ in range(400 if tier == "quick" else 8000):
        text = textgen.rand_text(rng, max_lines=8)
        if rng.random() < 0.15:
            text = textgen.BOM + text          # a file saved with a byte-order mark: not part of what the compiler numbers
        seen = textgen.strip_bom(text)
        n = len(seen)
        if n == 0:
            continue
        k = rng.randint(2, 6)
        quads = []
        for _ in range(k):
            r = rng.random()
            if r < 0.8:
                i = rng.randrange(0, n)
                j = rng.randint(i + 1, min(n, i + 5)) if i + 1 <= n else i
                quads.append((list(textgen.linecol(seen, i)) + list(textgen.linecol(seen, j)), i, j))
            elif r < 0.9 and quads:
                quads.append(quads[rng.randrange(len(quads))])          # two entries on one sub-pattern
            else:
                quads.append(([rng.randint(0, 9), rng.randint(0, 12), rng.randint(0, 9), rng.randint(0, 12)], None, None))
        order = rng.random()
        if order < 0.3:
            quads.sort(key=lambda q: q[0])
        elif order < 0.5:
            quads.sort(key=lambda q: q[0], reverse=True)
        line = "\t".join(["mspan", hx(text), str(k)] + [str(x) for q in quads for x in q[0]] +
                         ["#" + ",".join("%s-%s" % (q[1], q[2]) for q in quads)])
        cases.append(line)
    return cases


def parse(line):
    f = line.split("\t")
    text = unhx(f[1]).decode("utf-8")
    k = int(f[2])
    quads = [[int(x) for x in f[3 + 4 * i:7 + 4 * i]] for i in range(k)]
    truth = [tuple(None if y == "None" else int(y) for y in x.split("-")) for x in f[3 + 4 * k][1:].split(",")]
    return text, quads, truth


def spans_of(impl):
    f = impl.split()
    if len(f) < 2 or f[0] != "spans":
        return None
    if f[1] in ("PANIC",) or f[1].startswith("hdr="):
        return []
    return [tuple(int(v) for v in x.split(":")) for x in f[1].split(",") if x]


def oracle_c04(line, impl):
    text, quads, truth = parse(line)
    sp = spans_of(impl)
    if sp is None or len(sp) != len(quads):
        return None          # C06's concern
    for k, ((s, e), (i, j)) in enumerate(zip(sp, truth)):
        if i is None or not (i < j):
            continue
        ws, we = textgen.file_offset(text, i), textgen.file_offset(text, j)
        if (s, e) != (ws, we):
            return ("entry %d of %d (written at characters %d..%d = bytes %d..%d, recorded as line/col %s) is marked at bytes %d..%d: `%s` instead of `%s`"
                    % (k + 1, len(quads), i, j, ws, we, quads[k], s, e,
                       text.encode("utf-8")[s:e].decode("utf-8", "replace"), textgen.strip_bom(text)[i:j]))
    return None


def oracle_c06(line, impl):
    text, quads, truth = parse(line)
    if "PANIC" in impl:
        return "formatting a report with %d entries panicked (inside the panic machinery this aborts the process)" % len(quads)
    sp = spans_of(impl)
    if sp is None:
        return "unrecognised harness output: " + impl
    if len(sp) != len(quads):
        return "%d entries but %d annotations were handed to the renderer" % (len(quads), len(sp))
    if "hdr=1" not in impl or ("lbls=%d" % len(quads)) not in impl:
        return "rendered report lacks the header or some entry's label: " + impl.split(" ", 2)[-1]
    for (s, e) in sp:
        if not s < e:
            return "empty or inverted span %d..%d" % (s, e)
        if not textgen.is_boundary(text, s) or not textgen.is_boundary(text, e):
            return "span %d..%d is not on character boundaries of the source" % (s, e)
    return None


def run_stream(res, oracle, name):
    cases = gen(res.tier, res.seed)
    impl = vlib.run_harness("rt", cases, env_extra={"RT_QUIET": "1"})
    model = vlib.run_model(cases)

    def describe(c):
        text, quads, truth = parse(c)
        return {"source": text, "entries_line_col": quads}

    def nontrivial(c, a):
        text, quads, truth = parse(c)
        return quads != sorted(quads) and any(ord(ch) > 127 for ch in text)

    return vlib.correspond(res, name, cases, impl, model, describe, nontrivial, oracle)
