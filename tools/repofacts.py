"""repofacts.py — regenerate coq/gen/RepoFacts.v from /repo: the feature tables of the two
crates, the dependency edge between them, and the inventory of `#[cfg(feature = "regex")]`
gates in both crates' sources.  Run on every check that depends on these facts; the
dependent Coq files are then re-checked by coqc."""
import os
import re
import tomllib

import vlib


def coq_str(s):
    return '"%s"' % s.replace('"', '""')


def coq_list(xs):
    return "[" + "; ".join(xs) + "]"


def gates(root):
    """every #[cfg(feature = "regex")] attribute (not in comments/doc comments) with the item or statement it guards"""
    out = []
    for path in sorted(vlib.walk(root, (".rs",))):
        lines = open(path).read().split("\n")
        for i, l in enumerate(lines):
            st = l.strip()
            if st.startswith("//"):
                continue
            if re.search(r'#\[cfg\(feature\s*=\s*"regex"\)\]', st):
                j = i + 1
                while j < len(lines) and (lines[j].strip().startswith("//") or lines[j].strip().startswith("#[") or not lines[j].strip()):
                    j += 1
                guarded = lines[j].strip() if j < len(lines) else ""
                out.append((os.path.relpath(path, vlib.REPO), re.sub(r"\s+", " ", guarded)[:80]))
            elif re.search(r'cfg\s*\(\s*(not\s*\()?\s*feature', st) and "regex" in st:
                out.append((os.path.relpath(path, vlib.REPO), "OTHER-FORM " + re.sub(r"\s+", " ", st)[:80]))
    return out


def strip_hooks(text):
    """source text without comments and without the items guarded by #[cfg(assert_struct_verif)] (the verification hooks)"""
    text = re.sub(r"//[^\n]*", "", text)
    text = re.sub(r"/\*.*?\*/", "", text, flags=re.S)
    out = []
    i = 0
    pat = re.compile(r"#\[cfg\(assert_struct_verif\)\]")
    while True:
        m = pat.search(text, i)
        if not m:
            out.append(text[i:])
            break
        out.append(text[i:m.start()])
        # skip the guarded item: up to the matching close of its first `{`, or to the first `;` if that comes first
        j = m.end()
        semi = text.find(";", j)
        brace = text.find("{", j)
        if brace == -1 or (semi != -1 and semi < brace):
            i = (semi + 1) if semi != -1 else len(text)
            continue
        depth, k = 1, brace + 1
        while k < len(text) and depth:
            depth += {"{": 1, "}": -1}.get(text[k], 0)
            k += 1
        i = k
    return "".join(out)


def runtime_observations(root):
    """what the runtime crate reads from its process environment, and the state it keeps between assertions:
    (file, description) in source order.  The transition systems of Model/Shared.v have exactly this state."""
    env, state = [], []
    for path in sorted(vlib.walk(root, (".rs",))):
        rel = os.path.relpath(path, vlib.REPO)
        text = strip_hooks(open(path).read())
        for m in re.finditer(r"\benv\s*::\s*(var_os|vars_os|var|vars|current_dir|current_exe|args_os|args|temp_dir|set_var|remove_var|home_dir|set_current_dir)\s*\(\s*([^)]*)\)", text):
            arg = m.group(2).strip()
            lit = re.fullmatch(r'"([^"]*)"', arg)
            env.append((rel, "%s %s" % (m.group(1), lit.group(1) if lit else ("<dynamic>" if arg else "")) if (lit or arg) else m.group(1)))
        for m in re.finditer(r"\b(?:option_env|env)\s*!\s*\(\s*\"([^\"]*)\"", text):
            env.append((rel, "compile-time env! %s" % m.group(1)))
        for m in re.finditer(r"\bis_terminal\s*\(([^)]*)\)", text):
            env.append((rel, "is_terminal " + re.sub(r"\s+", "", m.group(1))))
        # process-wide and per-thread state
        tl_spans = []
        for m in re.finditer(r"thread_local\s*!\s*\{", text):
            depth, k = 1, m.end()
            while k < len(text) and depth:
                depth += {"{": 1, "}": -1}.get(text[k], 0)
                k += 1
            tl_spans.append((m.end(), k))
            for n in re.finditer(r"\bstatic\s+(?:mut\s+)?(\w+)\s*:", text[m.end():k]):
                state.append((rel, "thread_local " + n.group(1)))
        for m in re.finditer(r"\bstatic\s+(mut\s+)?(\w+)\s*:", text):
            if any(a <= m.start() < b for a, b in tl_spans):
                continue
            state.append((rel, ("static mut " if m.group(1) else "static ") + m.group(2)))
    return env, state


def strip_quote_templates(text):
    """source text without the bodies of quote! / quote_spanned! / format! string templates: what remains is the code that runs
    when the macro runs (the bodies are generated code)"""
    out, i = [], 0
    pat = re.compile(r"\b(quote_spanned|quote)\s*!\s*([\{\(\[])")
    closers = {"{": "}", "(": ")", "[": "]"}
    while True:
        m = pat.search(text, i)
        if not m:
            out.append(text[i:])
            break
        out.append(text[i:m.start()])
        o, c = m.group(2), closers[m.group(2)]
        depth, k = 1, m.end()
        while k < len(text) and depth:
            if text[k] == o:
                depth += 1
            elif text[k] == c:
                depth -= 1
            k += 1
        out.append(" QUOTE_TEMPLATE ")
        i = k
    return "".join(out)


PANIC_CONSTRUCTS = [
    ("unwrap", r"\.\s*unwrap\s*\(\s*\)"), ("expect", r"\.\s*expect\s*\("), ("panic!", r"\bpanic\s*!"), ("unreachable!", r"\bunreachable\s*!"),
    ("unimplemented!", r"\b(?:unimplemented|todo)\s*!"), ("assert!", r"\b(?:debug_)?assert(?:_eq|_ne)?\s*!"),
    ("Ident::new", r"\bIdent\s*::\s*new\s*\("), ("format_ident!", r"\bformat_ident\s*!"), ("LitInt::new", r"\bLit(?:Int|Float)\s*::\s*new\s*\("),
    ("Index::from", r"\bIndex\s*::\s*from\s*\("), ("Literal::", r"\bLiteral\s*::\s*\w+\s*\("),
    ("slice-range", r"[\w\)\]]\s*\[[^\[\]\n]*\.\.[^\[\]\n]*\]"), ("index", r"[\w\)\]]\[\s*[\w\.\(\)\+\- ]+\s*\](?!\s*=>)"),
    ("split_at / remove", r"\.\s*(?:split_at|split_off|remove|swap_remove|drain|truncate_at)\s*\("), ("usize-subtraction", r"\b\w+(?:\.len\(\))?\s-\s(?:\w+|1)\b"),
    ("from_str_radix / char::from", r"\b(?:from_str_radix|from_u32|from_digit)\s*\("),
]


def panic_capable_sites(root, strip_templates):
    """(file, construct, the line squeezed) for every construct that can panic (or overflow) when it is reached, in source order;
    comments, doc comments, string literal contents, the verification hooks and (for the macro crate) quote! templates excluded"""
    sites = []
    for path in sorted(vlib.walk(root, (".rs",))):
        rel = os.path.relpath(path, vlib.REPO)
        text = strip_hooks(open(path).read())
        if strip_templates:
            text = strip_quote_templates(text)
        # blank out string literal contents and attributes
        text = re.sub(r'"(?:[^"\\\n]|\\.)*"', '""', text)
        text = re.sub(r"#!?\[[^\]\n]*\]", "", text)
        text = re.sub(r"\bToken\s*!\s*\[[^\]]*\]", "TOKEN", text)
        text = re.sub(r"\b(?:vec|matches|write|writeln|format|println|eprintln)\s*!", lambda m: m.group(0).replace("!", "_MACRO"), text)
        for ln in text.split("\n"):
            st = ln.strip()
            if not st:
                continue
            for name, rx in PANIC_CONSTRUCTS:
                if re.search(rx, st):
                    sites.append((rel, name, re.sub(r"\s+", " ", st)[:90]))
    return sites


def span_sites(root):
    """(file, function, what) for every place of the macro crate's expander that decides which source span GENERATED tokens carry:
    each quote_spanned! with the span expression it is given, each bare Span::call_site() / mixed_site(), each format_ident! /
    Ident::new / Index::from (identifiers and indices made at the call site unless given a span).  In source order.  A type error in
    a generated token is reported where that token's span points (C20)."""
    sites = []
    for path in sorted(vlib.walk(root, (".rs",))):
        rel = os.path.relpath(path, vlib.REPO)
        if "/expand" not in rel:
            continue
        text = strip_hooks(open(path).read())
        text = re.sub(r"//[^\n]*", "", text)
        fn = "?"
        pos = 0
        rx = re.compile(r"\bfn\s+(\w+)|\bquote_spanned\s*!\s*[\{\(\[]\s*([^=]+?)\s*=>|\bSpan\s*::\s*(call_site|mixed_site)\s*\(\s*\)|\b(format_ident)\s*!\s*\(([^;]*?)\)\s*[;,\)]|"
                        r"\b(Ident\s*::\s*new|Index\s*::\s*from)\s*\(|\blet\s+(\w*span\w*)\s*=\s*([^;]+);")
        for m in rx.finditer(text):
            if m.group(1):
                fn = m.group(1)
            elif m.group(2):
                sites.append((rel, fn, "quote_spanned " + re.sub(r"\s+", " ", m.group(2))))
            elif m.group(3):
                sites.append((rel, fn, "Span::" + m.group(3)))
            elif m.group(4):
                args = re.sub(r"\s+", " ", m.group(5))
                sites.append((rel, fn, "format_ident" + (" span=" + args.split("span")[1].strip(" =") if "span" in args else " (call site)")))
            elif m.group(6):
                sites.append((rel, fn, re.sub(r"\s+", "", m.group(6))))
            elif m.group(7):
                sites.append((rel, fn, "let %s = %s" % (m.group(7), re.sub(r"\s+", " ", m.group(8))[:80])))
    return sites


def features(manifest):
    t = manifest.get("features", {})
    return [(k, list(v)) for k, v in t.items()]


def facts():
    rt = tomllib.load(open(os.path.join(vlib.REPO, "assert-struct", "Cargo.toml"), "rb"))
    mc = tomllib.load(open(os.path.join(vlib.REPO, "assert-struct-macros", "Cargo.toml"), "rb"))
    edge = rt.get("dependencies", {}).get("assert-struct-macros", {})
    if isinstance(edge, str):
        edge = {"version": edge}
    return {
        "runtime_features": features(rt), "macro_features": features(mc),
        "edge_default": bool(edge.get("default-features", edge.get("default_features", True))),
        "edge_features": list(edge.get("features", [])),
        "runtime_gates": gates(os.path.join(vlib.REPO, "assert-struct", "src")),
        "macro_gates": gates(os.path.join(vlib.REPO, "assert-struct-macros", "src")),
        "runtime_env": runtime_observations(os.path.join(vlib.REPO, "assert-struct", "src"))[0],
        "runtime_state": runtime_observations(os.path.join(vlib.REPO, "assert-struct", "src"))[1],
        "macro_panic_sites": panic_capable_sites(os.path.join(vlib.REPO, "assert-struct-macros", "src"), True),
        "runtime_panic_sites": panic_capable_sites(os.path.join(vlib.REPO, "assert-struct", "src", "error.rs") if False else os.path.join(vlib.REPO, "assert-struct", "src"), False),
        "macro_span_sites": span_sites(os.path.join(vlib.REPO, "assert-struct-macros", "src")),
        "runtime_regex_optional": bool(rt.get("dependencies", {}).get("regex", {}).get("optional", False))
        if isinstance(rt.get("dependencies", {}).get("regex"), dict) else False,
    }


def write(f=None):
    f = f or facts()

    def table(t):
        return coq_list(["(%s, %s)" % (coq_str(k), coq_list([coq_str(x) for x in v])) for k, v in t])

    def tlist(g):
        return coq_list(["(%s, %s, %s)" % (coq_str(a), coq_str(b), coq_str(c)) for a, b, c in g])

    def glist(g):
        return coq_list(["(%s, %s)" % (coq_str(p), coq_str(x)) for p, x in g])
    text = """(* RepoFacts.v — GENERATED by tools/repofacts.py from /repo's Cargo.toml files and sources; do not edit. *)
From ASModel Require Import Base Features.
Local Open Scope string_scope.

Definition repo_wiring : wiring :=
  {| w_runtime := %s;
     w_macros := %s;
     w_edge_default := %s;
     w_edge_features := %s |}.

(* every #[cfg(feature = "regex")] in assert-struct/src: (file, first line of what it guards) *)
Definition runtime_gates : list (string * string) := %s.

(* every #[cfg(feature = "regex")] in assert-struct-macros/src *)
Definition macro_gates : list (string * string) := %s.

(* everything assert-struct/src reads from the environment of the running process (hooks excluded) *)
Definition runtime_env_reads : list (string * string) := %s.

(* every `static` and `thread_local!` of assert-struct/src (hooks excluded): the state that survives an assertion *)
Definition runtime_shared_state : list (string * string) := %s.

(* every construct of assert-struct-macros/src that can panic when it is reached while the macro runs (quote! templates, which are
   generated code, comments, hooks excluded): (file, construct, line) *)
Definition macro_panic_sites : list (string * string * string) := %s.

(* the same for assert-struct/src (the run-time support: report formatting, source lookup, set matching, Like impls) *)
Definition runtime_panic_sites : list (string * string * string) := %s.

(* every place of the expander that decides which source span generated tokens carry: (file, function, what) *)
Definition macro_span_sites : list (string * string * string) := %s.
""" % (table(f["runtime_features"]), table(f["macro_features"]), "true" if f["edge_default"] else "false",
       coq_list([coq_str(x) for x in f["edge_features"]]), glist(f["runtime_gates"]), glist(f["macro_gates"]),
       glist(f["runtime_env"]), glist(f["runtime_state"]), tlist(f["macro_panic_sites"]), tlist(f["runtime_panic_sites"]), tlist(f["macro_span_sites"]))
    path = os.path.join(vlib.COQ, "gen", "RepoFacts.v")
    os.makedirs(os.path.dirname(path), exist_ok=True)
    if not os.path.exists(path) or open(path).read() != text:
        open(path, "w").write(text)
    return f


if __name__ == "__main__":
    import json
    print(json.dumps(write(), indent=1))
