"""semgen.py — typed generator for the end-to-end semantic differential (C01, C02, C03,
C05, C08): well-typed (type, value, pattern) triples over a fixed family of
declarations, with boundary twins (a pattern on and just across each boundary of the
actual value).  Everything derives from the random.Random passed in."""
from vlib import hx

DECLS = r'''
#[derive(Debug, Clone, PartialEq)] struct Leaf { n: i32, s: String, flag: bool }
#[derive(Debug, Clone, PartialEq)] enum Kind { Unit, Other, Tup(i32, String), Rec { a: i32, b: String } }
use Kind::*;
#[derive(Debug, Clone, PartialEq)] struct Mid { leaf: Leaf, kind: Kind, opt: Option<i32>, bx: Box<i32>, xs: Vec<i32>, pair: (i32, String), m: BTreeMap<String, i32>, names: Vec<String>, bb: Box<Box<i32>>, ol: Option<Leaf> }
#[derive(Debug, Clone, PartialEq)] struct FL { x: f64, y: f64 }
#[derive(Debug, Clone, PartialEq)] struct Inner { id: i32, name: String, n: i32 }
#[derive(Debug, Clone, PartialEq)] struct Outer { id: i32, inner: Inner, name: String, n: i32, also: Option<Inner> }
#[derive(Debug, Clone, PartialEq)] struct Holder { o: Outer, k: i32, os: Vec<Outer> }
#[derive(Debug, Clone, PartialEq)] struct Top { mid: Mid, mids: Vec<Mid>, res: Result<i32, String>, t3: (i32, Kind, Leaf), mm: BTreeMap<String, Leaf>, count: i32 }
'''

CALLER = [("lim", "i32", 5), ("word", "String", "hello"), ("pat", "&str", "^h"), ("key", "String", "b")]
CALLER_LETS = "let lim: i32 = 5; let word: String = \"hello\".to_string(); let pat: &str = \"^h\"; let key: String = \"b\".to_string();"
WORDS = ["hello", "help", "world", "a b", "x", "", "hi there", "Hello"]
# values whose Debug form differs from their Display form (quotes, backslashes, control characters) or is not ASCII;
# they appear as VALUES only: string-literal patterns with escapes are outside the model's literal parser
TRICKY = ['say "hi"', 'C:\\dir', 'a\nb', 'tab\there', 'é日', 'q"', '\\', 'a  b', '  lead', 'trail  ', 'x   y  z']


def rust_str(w):
    return '"%s"' % w.replace("\\", "\\\\").replace('"', '\\"').replace("\n", "\\n").replace("\t", "\\t")
KEYS = ["a", "b", "c"]


# ------------------------------------------------------------------ types ---

class T:
    pass


class I32(T):
    rust = "i32"


class USize(I32):
    """the result of len(): no negative literals, no i32 caller variable"""
    rust = "usize"


class Str(T):
    rust = "String"


class Bool(T):
    rust = "bool"


class Opt(T):
    def __init__(self, t):
        self.t = t
        self.rust = "Option<%s>" % t.rust


class Res(T):
    def __init__(self, t, e):
        self.t, self.e = t, e
        self.rust = "Result<%s, %s>" % (t.rust, e.rust)


class Bx(T):
    def __init__(self, t):
        self.t = t
        self.rust = "Box<%s>" % t.rust


class Vec(T):
    def __init__(self, t):
        self.t = t
        self.rust = "Vec<%s>" % t.rust


class Tup(T):
    def __init__(self, ts):
        self.ts = ts
        self.rust = "(%s)" % ", ".join(t.rust for t in ts)


class MapT(T):
    def __init__(self, t):
        self.t = t
        self.rust = "BTreeMap<String, %s>" % t.rust


class Struct(T):
    def __init__(self, name, fields):
        self.name, self.fields, self.rust = name, fields, name


class Enum(T):
    def __init__(self, name, variants):
        # variants: (name, "unit" | "tuple" | "struct", payload types / fields)
        self.name, self.variants, self.rust = name, variants, name


LEAF = Struct("Leaf", [("n", I32()), ("s", Str()), ("flag", Bool())])
KIND = Enum("Kind", [("Unit", "unit", []), ("Other", "unit", []), ("Tup", "tuple", [I32(), Str()]),
                     ("Rec", "struct", [("a", I32()), ("b", Str())])])
MID = Struct("Mid", [("leaf", LEAF), ("kind", KIND), ("opt", Opt(I32())), ("bx", Bx(I32())), ("xs", Vec(I32())),
                     ("pair", Tup([I32(), Str()])), ("m", MapT(I32())), ("names", Vec(Str())), ("bb", Bx(Bx(I32()))),
                     ("ol", Opt(LEAF))])
TOP = Struct("Top", [("mid", MID), ("mids", Vec(MID)), ("res", Res(I32(), Str())), ("t3", Tup([I32(), KIND, LEAF])),
                     ("mm", MapT(LEAF)), ("count", I32())])
INNER = Struct("Inner", [("id", I32()), ("name", Str()), ("n", I32())])
OUTER = Struct("Outer", [("id", I32()), ("inner", INNER), ("name", Str()), ("n", I32()), ("also", Opt(INNER))])
HOLDER = Struct("Holder", [("o", OUTER), ("k", I32()), ("os", Vec(OUTER))])
ROOTS = [HOLDER, HOLDER, Opt(OUTER), Vec(KIND), Opt(KIND), Res(KIND, Str()), Tup([Opt(KIND), I32()]), Vec(Opt(KIND)), OUTER, OUTER, TOP, MID, LEAF, KIND, Vec(I32()), Opt(LEAF), Tup([I32(), Str()]), MapT(I32()), Vec(LEAF), I32(), Str(),
         Opt(I32()), Vec(Str()), Res(I32(), Str()), Vec(Opt(I32())), Tup([KIND, Vec(I32())])]


# ----------------------------------------------------------------- values ---
# a value is (rust expression text, model s-expression text, python value)

def gen_value(rng, t, depth=0):
    if isinstance(t, I32):
        z = rng.randint(-3, 12)
        return (str(z) if z >= 0 else "(%d)" % z, "(int %d)" % z, z)
    if isinstance(t, Str):
        w = rng.choice(TRICKY) if rng.random() < 0.2 else rng.choice(WORDS)
        return ("%s.to_string()" % rust_str(w), "(str %s)" % hx(w), w)
    if isinstance(t, Bool):
        b = rng.random() < 0.5
        return ("true" if b else "false", "(bool %d)" % b, b)
    if isinstance(t, Opt):
        if rng.random() < 0.3:
            return ("None", "(variant %s)" % hx("None"), None)
        r, m, p = gen_value(rng, t.t, depth + 1)
        return ("Some(%s)" % r, "(variant %s %s)" % (hx("Some"), m), ("Some", p))
    if isinstance(t, Res):
        if rng.random() < 0.5:
            r, m, p = gen_value(rng, t.t, depth + 1)
            return ("Ok(%s)" % r, "(variant %s %s)" % (hx("Ok"), m), ("Ok", p))
        r, m, p = gen_value(rng, t.e, depth + 1)
        return ("Err(%s)" % r, "(variant %s %s)" % (hx("Err"), m), ("Err", p))
    if isinstance(t, Bx):
        r, m, p = gen_value(rng, t.t, depth + 1)
        return ("Box::new(%s)" % r, "(box %s)" % m, ("box", p))
    if isinstance(t, Vec):
        n = rng.randint(0, 3 if depth < 2 else 2)
        vs = [gen_value(rng, t.t, depth + 1) for _ in range(n)]
        return ("vec![%s]" % ", ".join(v[0] for v in vs), "(vec %s)" % " ".join(v[1] for v in vs), [v[2] for v in vs])
    if isinstance(t, Tup):
        vs = [gen_value(rng, x, depth + 1) for x in t.ts]
        return ("(%s)" % ", ".join(v[0] for v in vs), "(tuple %s)" % " ".join(v[1] for v in vs), tuple(v[2] for v in vs))
    if isinstance(t, MapT):
        keys = sorted(rng.sample(KEYS, rng.randint(0, 3)))
        vs = [(k, gen_value(rng, t.t, depth + 1)) for k in keys]
        return ("BTreeMap::from([%s])" % ", ".join("(\"%s\".to_string(), %s)" % (k, v[0]) for k, v in vs),
                "(map %s)" % " ".join("((str %s) %s)" % (hx(k), v[1]) for k, v in vs), {k: v[2] for k, v in vs})
    if isinstance(t, Struct):
        vs = [(f, gen_value(rng, ft, depth + 1)) for f, ft in t.fields]
        return ("%s { %s }" % (t.name, ", ".join("%s: %s" % (f, v[0]) for f, v in vs)),
                "(struct %s %s)" % (hx(t.name), " ".join("(%s %s)" % (hx(f), v[1]) for f, v in vs)),
                {f: v[2] for f, v in vs})
    if isinstance(t, Enum):
        vn, kind, payload = rng.choice(t.variants)
        if kind == "unit":
            return ("%s::%s" % (t.name, vn), "(variant %s)" % hx(vn), (vn,))
        if kind == "tuple":
            vs = [gen_value(rng, x, depth + 1) for x in payload]
            return ("%s::%s(%s)" % (t.name, vn, ", ".join(v[0] for v in vs)),
                    "(variant %s %s)" % (hx(vn), " ".join(v[1] for v in vs)), (vn,) + tuple(v[2] for v in vs))
        vs = [(f, gen_value(rng, ft, depth + 1)) for f, ft in payload]
        return ("%s::%s { %s }" % (t.name, vn, ", ".join("%s: %s" % (f, v[0]) for f, v in vs)),
                "(struct %s %s)" % (hx(vn), " ".join("(%s %s)" % (hx(f), v[1]) for f, v in vs)),
                (vn, {f: v[2] for f, v in vs}))
    raise ValueError(t)


# --------------------------------------------------------------- patterns ---

class Gen:
    """Pattern generator; `hit` is the probability that a leaf is written to match."""

    def __init__(self, rng, hit=0.75, closures=True):
        self.rng = rng
        self.hit = hit
        self.closures = closures
        self.kinds = {}

    def note(self, k):
        self.kinds[k] = self.kinds.get(k, 0) + 1

    def ilit(self, z):
        return str(z) if z >= 0 else "-%d" % -z

    def pat(self, t, pv, depth, nested=True):
        r = self.pat0(t, pv, depth, nested)
        if isinstance(t, USize) and "-" in r:
            return str(pv) if self.rng.random() < self.hit else str(pv + 1)
        return r

    def pat0(self, t, pv, depth, nested=True):
        rng = self.rng
        if depth > 5 or rng.random() < 0.06:
            self.note("wild")
            return "_"
        hit = rng.random() < self.hit
        if isinstance(t, I32):
            z = pv
            forms = ["lit", "eq", "ne", "lt", "le", "gt", "ge", "range_from", "range_to"]
            if not isinstance(t, USize):
                forms += ["var", "range", "range_incl"]
                if self.closures and nested:
                    forms.append("closure")
            elif z >= 2:
                forms += ["range", "range_incl"]
            f = rng.choice(forms)
            self.note("i32:" + f)
            d = rng.choice([1, 1, 2])
            if isinstance(t, USize):
                d = 1
                if z == 0 and f in ("eq", "le", "gt", "range_to") and not hit:
                    f = "lit"
            if f == "lit":
                return self.ilit(z if hit else z + d)
            if f == "eq":
                return "== " + self.ilit(z if hit else z - d)
            if f == "ne":
                return "!= " + self.ilit(z + d if hit else z)
            if f == "lt":
                return "< " + self.ilit(z + 1 if hit else z)            # boundary: z < z+1, not z < z
            if f == "le":
                return "<= " + self.ilit(z if hit else z - 1)           # boundary: equality
            if f == "gt":
                return "> " + self.ilit(z - 1 if hit else z)
            if f == "ge":
                return ">= " + self.ilit(z if hit else z + 1)
            if f == "range":
                return ("%s..%s" % (self.ilit(z - d), self.ilit(z + 1))) if hit else ("%s..%s" % (self.ilit(z - d), self.ilit(z)))
            if f == "range_incl":
                return ("%s..=%s" % (self.ilit(z - d), self.ilit(z))) if hit else ("%s..=%s" % (self.ilit(z - d - 1), self.ilit(z - 1)))
            if f == "range_from":
                return ("%s.." % self.ilit(z)) if hit else ("%s.." % self.ilit(z + 1))
            if f == "range_to":
                return ("..=%s" % self.ilit(z)) if hit else ("..%s" % self.ilit(z))
            if f == "var":
                return rng.choice(["== lim", "<= lim", "> lim", "!= lim"])
            if f == "closure":
                k = z - 1 if hit else z
                return "|cl_x| *cl_x > %s" % self.ilit(k)
        if isinstance(t, Str):
            w = pv
            f = rng.choice(["lit", "eq", "ne", "regex", "regex_end", "like", "eqvar"])
            if w in TRICKY:
                # only literals without escapes are written: `lit`/`eq` can only miss, `ne` can only hit
                f = rng.choice(["lit", "lit", "eq", "ne", "eqvar"])
                hit = f == "ne"
                self.note("str-tricky:" + f)
            self.note("str:" + f)
            other = rng.choice([x for x in WORDS if x != w])
            if f == "lit":
                return "\"%s\"" % (w if hit else other)
            if f == "eq":
                return "== \"%s\"" % (w if hit else other)
            if f == "ne":
                return "!= \"%s\"" % (other if hit else w)
            if f == "regex":
                pre = w[:2] if hit else "zq"
                return "=~ r\"^%s\"" % pre
            if f == "regex_end":
                return "=~ r\"%s$\"" % (w[-2:] if hit else "zq")
            if f == "like":
                return "=~ pat"
            if f == "eqvar":
                return rng.choice(["== word", "!= word"])
        if isinstance(t, Bool):
            self.note("bool")
            b = pv if hit else not pv
            return rng.choice(["%s", "== %s"]) % ("true" if b else "false")
        if isinstance(t, Opt):
            self.note("option")
            if pv is None:
                return "None" if hit else "Some(%s)" % self.pat_any(t.t, depth + 1)
            if not hit and rng.random() < 0.5:
                return "None"
            return "Some(%s)" % self.pat(t.t, pv[1], depth + 1)
        if isinstance(t, Res):
            self.note("result")
            tag, inner = pv
            if not hit and rng.random() < 0.5:
                tag2 = "Err" if tag == "Ok" else "Ok"
                return "%s(%s)" % (tag2, self.pat_any(t.e if tag2 == "Err" else t.t, depth + 1))
            return "%s(%s)" % (tag, self.pat(t.t if tag == "Ok" else t.e, inner, depth + 1))
        if isinstance(t, Bx):
            self.note("box-wild")
            return "_"                      # a Box is only looked into through `*field`
        if isinstance(t, Vec):
            return self.vec_pat(t, pv, depth, hit)
        if isinstance(t, Tup):
            self.note("tuple")
            parts = []
            for i, (x, v) in enumerate(zip(t.ts, pv)):
                sub = self.pat(x, v, depth + 1)
                if rng.random() < 0.25 and sub != "_":
                    parts.append("%d: %s" % (i, sub))
                else:
                    parts.append(sub)
            return "(%s)" % ", ".join(parts)
        if isinstance(t, MapT):
            return self.map_pat(t, pv, depth, hit)
        if isinstance(t, Struct):
            return self.struct_pat(t, pv, depth, t.name)
        if isinstance(t, Enum):
            return self.enum_pat(t, pv, depth, hit)
        raise ValueError(t)

    def pat_any(self, t, depth):
        """a pattern for a type without a value at hand (inside a non-matching variant)"""
        v = gen_value(self.rng, t, 3)[2]
        saved, self.no_index = getattr(self, "no_index", False), True     # indices of a made-up value may not exist in the real one
        try:
            return self.pat(t, v, depth + 1)
        finally:
            self.no_index = saved

    def vec_pat(self, t, pv, depth, hit):
        rng = self.rng
        n = len(pv)
        f = rng.choice(["exact", "exact", "rest_end", "rest_start", "rest_mid", "set", "set_rest", "only_rest"])
        if isinstance(t.t, Bx):
            f = "only_rest"
        self.note("vec:" + f)
        sub = lambda i: self.pat(t.t, pv[i], depth + 1)     # noqa: E731
        if f == "exact":
            if hit or n == 0:
                return "[%s]" % ", ".join(sub(i) for i in range(n))
            k = n - 1 if rng.random() < 0.5 else n + 1            # wrong length
            items = [sub(i) for i in range(min(k, n))] + [self.pat_any(t.t, depth) for _ in range(max(0, k - n))]
            return "[%s]" % ", ".join(items)
        if f == "only_rest":
            return "[..]"
        if f == "rest_end":
            k = rng.randint(0, n) if hit else n + 1
            items = [sub(i) for i in range(min(k, n))] + [self.pat_any(t.t, depth) for _ in range(max(0, k - n))]
            return "[%s]" % ", ".join(items + [".."])
        if f == "rest_start":
            k = rng.randint(0, n) if hit else n + 1
            items = [sub(n - min(k, n) + i) for i in range(min(k, n))] + [self.pat_any(t.t, depth) for _ in range(max(0, k - n))]
            return "[%s]" % ", ".join([".."] + items)
        if f == "rest_mid":
            a = rng.randint(0, n)
            b = rng.randint(0, n - a) if hit else n - a + 1
            front = [sub(i) for i in range(a)]
            back = [sub(n - min(b, n - a) + i) for i in range(min(b, n - a))] + [self.pat_any(t.t, depth) for _ in range(max(0, b - (n - a)))]
            return "[%s]" % ", ".join(front + [".."] + back)
        if f in ("set", "set_rest"):
            # every pattern of a set is tried against every element: an index that exists in one
            # element need not exist in another (a panic, not an assertion outcome)
            saved, self.no_index = getattr(self, "no_index", False), True
            try:
                return self.set_pat(t, pv, depth, hit, f, sub)
            finally:
                self.no_index = saved
        raise ValueError(f)

    def set_pat(self, t, pv, depth, hit, f, sub):
        rng = self.rng
        n = len(pv)
        if True:
            order = list(range(n))
            rng.shuffle(order)
            if f == "set_rest":
                order = order[:rng.randint(0, n)]
            items = [sub(i) for i in order]
            if not hit and rng.random() < 0.5:
                items.append(self.pat_any(t.t, depth))
            items = [("_" if x.startswith("..") else x) for x in items]     # `#(..=3)` would read as the rest marker
            return "#(%s)" % ", ".join(items + ([".."] if f == "set_rest" else []))
        raise ValueError(f)

    def map_pat(self, t, pv, depth, hit):
        rng = self.rng
        self.note("map")
        keys = list(pv.keys())
        rest = rng.random() < 0.5
        chosen = keys if not rest else rng.sample(keys, rng.randint(0, len(keys)))
        rng.shuffle(chosen)
        items = ["\"%s\": %s" % (k, self.pat(t.t, pv[k], depth + 1)) for k in chosen]
        if not hit:
            missing = [k for k in KEYS if k not in pv]
            if missing and rng.random() < 0.6:
                if chosen and rng.random() < 0.5:
                    # a value that (most likely) fails BEFORE the missing key: two entries, the later one reported on the
                    # map's own `#{`, i.e. above the earlier one when the pattern is written over several lines
                    j = rng.randrange(len(chosen))
                    items[j] = "\"%s\": %s" % (chosen[j], self.pat_any(t.t, depth))
                items.append("\"%s\": %s" % (rng.choice(missing), self.pat_any(t.t, depth)))
            elif not rest and chosen:
                items.pop()                                     # wrong entry count
        if rest and "b" in pv and rng.random() < 0.2:
            items.append("key: %s" % self.pat(t.t, pv["b"], depth + 1))      # key from a caller variable
        return "#{ %s }" % ", ".join(items + ([".."] if rest else []))

    def field_entry(self, fname, ft, fv, depth):
        """one `ops: pattern` entry for a struct field of type ft with value fv"""
        rng = self.rng
        if isinstance(ft, Bx):
            stars, inner, iv = 1, ft.t, fv[1]
            while isinstance(inner, Bx):
                stars, inner, iv = stars + 1, inner.t, iv[1]
            self.note("op:deref%d" % stars)
            return "%s%s: %s" % ("*" * stars, fname, self.pat(inner, iv, depth + 1, nested=False))
        r = rng.random()
        if isinstance(ft, Vec) and r < 0.3:
            self.note("op:len")
            n = len(fv)
            return "%s.len(): %s" % (fname, self.pat(USize(), n, depth + 1, nested=False))
        if isinstance(ft, Vec) and 0.5 <= r < 0.6 and not isinstance(ft.t, Bx):
            # a slice-like value that is not a Vec: slice::Iter prints as Iter([..]) and matches as its slice
            self.note("op:iter")
            n = len(fv)
            hit = rng.random() < self.hit
            sub = lambda i: self.pat(ft.t, fv[i], depth + 1)     # noqa: E731
            f = rng.choice(["exact", "exact", "rest_end", "only_rest"])
            if f == "only_rest":
                return "%s.iter(): [..]" % fname
            if f == "exact":
                k = n if (hit or n == 0) else (n - 1 if rng.random() < 0.5 else n + 1)
                items = [sub(i) for i in range(min(k, n))] + [self.pat_any(ft.t, depth) for _ in range(max(0, k - n))]
                return "%s.iter(): [%s]" % (fname, ", ".join(items))
            k = rng.randint(0, n) if hit else n + 1
            items = [sub(i) for i in range(min(k, n))] + [self.pat_any(ft.t, depth) for _ in range(max(0, k - n))]
            return "%s.iter(): [%s]" % (fname, ", ".join(items + [".."]))
        if isinstance(ft, Vec) and r < 0.5 and fv and not isinstance(ft.t, Bx) and not getattr(self, "no_index", False):
            i = rng.randrange(len(fv))
            self.note("op:index")
            return "%s[%d]: %s" % (fname, i, self.pat(ft.t, fv[i], depth + 1, nested=False))
        if isinstance(ft, Struct) and r < 0.35:
            sf, sft = rng.choice([x for x in ft.fields if not isinstance(x[1], Bx)])
            self.note("op:nested")
            return "%s.%s: %s" % (fname, sf, self.pat(sft, fv[sf], depth + 1, nested=False))
        if isinstance(ft, Struct) and (0.35 <= r < 0.5 or (ft is OUTER and r < 0.7)):
            # a method path whose pattern is a wildcard struct (which may again contain method paths, followed by further fields):
            # every field of the inner pattern is read from the value of THIS path
            self.note("op:method-then-wstruct")
            return "%s.clone(): %s" % (fname, self.struct_pat(ft, fv, depth + 1, "_", force_wild=True))
        if isinstance(ft, Tup) and r < 0.35:
            i = rng.randrange(len(ft.ts))
            self.note("op:tuple-index")
            return "%s.%d: %s" % (fname, i, self.pat(ft.ts[i], fv[i], depth + 1, nested=False))
        if isinstance(ft, Opt) and r < 0.2:
            self.note("op:is_some")
            return "%s.is_some(): %s" % (fname, "true" if fv is not None else "false")
        if isinstance(ft, (MapT,)) and r < 0.25:
            self.note("op:maplen")
            return "%s.len(): %s" % (fname, self.ilit(len(fv)))
        return "%s: %s" % (fname, self.pat(ft, fv, depth + 1))

    def struct_pat(self, t, pv, depth, path, fields=None, allow_wild=True, force_wild=False):
        rng = self.rng
        fields = fields or t.fields
        wild = force_wild or (allow_wild and rng.random() < 0.2)
        rest = wild or rng.random() < 0.6
        names = [f for f, _ in fields]
        chosen = list(fields) if not rest else rng.sample(fields, rng.randint(0, len(fields)))
        if not wild:
            rng.shuffle(chosen)                       # any order
        wild_first = None
        if chosen and rng.random() < 0.2:
            dup = rng.choice(chosen)
            if rng.random() < 0.5:
                chosen.append(dup)                    # repeated field
            else:
                # the same field mentioned first as a bare `_`, then with a constraint (in either order of the two)
                wild_first = dup[0]
                chosen.insert(rng.randrange(len(chosen) + 1), (dup[0], None))
            self.note("struct:repeated-field")
        self.note("wstruct" if wild else ("struct_rest" if rest else "struct_exact"))
        items = []
        for f, ft in chosen:
            if ft is None:
                items.append("%s: _" % f)
                continue
            entry = self.field_entry(f, ft, pv[f], depth)
            if wild and entry.startswith("*"):
                entry = "%s: _" % f                   # known finding: `*` inside a wildcard struct (not generated here)
            items.append(entry)
        # decoys: a field g of struct type that has field names in common with this struct (Outer.inner: id, name, n).  After an entry
        # that goes INTO g (through a method path or a nested path), the same-named field of THIS struct is constrained with the value
        # the field has one level down: an expansion that reads the later field from the wrong place (the last path's result, a
        # stale temporary, a shadowed binding) passes where it must fail
        shared = [(g, gt, f, ft) for g, gt in fields if isinstance(gt, Struct) for f, ft in gt.fields
                  if (f, type(ft)) in [(x, type(y)) for x, y in fields] and isinstance(ft, (I32, Str)) and pv[g][f] != pv[f]
                  and not (isinstance(ft, Str) and (pv[g][f] not in WORDS))]
        if shared and rest and rng.random() < (0.9 if force_wild else 0.35):
            g, gt, f, ft = rng.choice(shared)
            self.note("struct:decoy-from-one-level-down")
            inner_entry = self.field_entry(rng.choice([x for x, _ in gt.fields]), dict(gt.fields)[rng.choice([x for x, _ in gt.fields])], None, depth) if False else None
            into = rng.choice(["%s.clone(): _ { %s: _, .. }" % (g, f), "%s.clone(): _ { %s.clone(): _, .. }" % (g, f),
                               "%s.%s.clone(): _" % (g, f), "%s.clone(): %s" % (g, self.struct_pat(gt, pv[g], depth + 1, "_", force_wild=True))])
            lit = self.ilit(pv[g][f]) if isinstance(ft, I32) else "\"%s\"" % pv[g][f]
            items = items + [into, "%s: %s%s" % (f, rng.choice(["", "== "]), lit)]
        return "%s { %s }" % ("_" if wild else path, ", ".join(items + ([".."] if rest else [])))

    def enum_pat(self, t, pv, depth, hit):
        rng = self.rng
        vn = pv[0]
        variants = {v[0]: v for v in t.variants}
        if not hit:
            vn = rng.choice([v for v in variants if v != pv[0]])
        name, kind, payload = variants[vn]
        self.note("enum:" + kind)
        path = "%s::%s" % (t.name, vn)
        if rng.random() < 0.3:
            # the variant named through its import (`use Kind::*`): a single-segment path
            path = vn
            self.note("enum:imported-name")
        same = vn == pv[0]
        if kind == "unit":
            return path
        if kind == "tuple":
            subs = [self.pat(x, pv[1 + i], depth + 1) if same else self.pat_any(x, depth) for i, x in enumerate(payload)]
            return "%s(%s)" % (path, ", ".join(subs))
        if rng.random() < 0.35:
            # a struct-variant pattern that constrains no field: only the variant itself is checked
            self.note("enum:struct-no-constraint")
            return rng.choice(["%s { .. }", "%s { a: _, .. }", "%s { b: _, a: _ }"]) % path
        if same:
            return self.struct_pat(t, pv[1], depth, path, fields=payload, allow_wild=False)
        fake = {f: gen_value(rng, ft, 3)[2] for f, ft in payload}
        return self.struct_pat(t, fake, depth, path, fields=payload, allow_wild=False)


def caller_sexp():
    out = []
    for name, ty, val in CALLER:
        out.append("(%s %s)" % (hx(name), "(int %d)" % val if isinstance(val, int) else "(str %s)" % hx(val)))
    return "(%s)" % " ".join(out)


UNITS_SEXP = "(%s %s %s)" % (hx("None"), hx("Unit"), hx("Other"))       # unit variants in scope by their bare name (None; Kind::* is imported)


def set_stress_case(rng):
    """a set pattern whose elements are written independently of the collection, so that the match
    matrix is arbitrary (several patterns competing for the same elements, wildcards, no match)"""
    if rng.random() < 0.12:
        # a set of sets: every probe of the outer search runs an inner search (searches nest); the inner sets are written
        # for the outer elements in another order than the elements come, with their own elements shuffled; half of the
        # cases have one inner set that matches no element
        no = rng.randint(2, 3)
        outer = [rng.sample(range(0, 9), rng.randint(1, 3)) for _ in range(no)]
        order = list(range(no))
        rng.shuffle(order)
        rest = rng.random() < 0.4
        chosen = order if not rest else order[:rng.randint(1, no)]
        inner_pats = []
        for i in chosen:
            el = outer[i][:]
            rng.shuffle(el)
            inner_pats.append([str(x) if rng.random() < 0.6 else "== %d" % x for x in el])
        if rng.random() < 0.5:
            j = rng.randrange(len(inner_pats))
            inner_pats[j][rng.randrange(len(inner_pats[j]))] = "99"
        pat = "#(%s)" % ", ".join(["#(%s)" % ", ".join(ip) for ip in inner_pats] + ([".."] if rest else []))
        vr = "vec![%s]" % ", ".join("vec![%s]" % ", ".join(str(x) for x in el) for el in outer)
        vm = "(vec %s)" % " ".join("(vec %s)" % " ".join("(int %d)" % x for x in el) for el in outer)
        return {"type": "Vec<Vec<i32>>", "value_rust": vr, "value_model": vm, "pattern": pat, "kinds": {"set-of-sets": 1}}
    n = rng.randint(1, 5)
    vals = [rng.randint(0, 5) for _ in range(n)]
    k = rng.randint(1, min(n + 1, 4))
    rest = rng.random() < 0.5
    pats = []
    if rng.random() < 0.15:
        # wildcard pressure: `_` claims an element like any other pattern, with and without `..`; the collection has one
        # element fewer than, as many as, or one more than the patterns, and the other patterns are satisfiable
        k = rng.randint(1, 4)
        nw = rng.randint(1, k)
        n = max(0, k + rng.choice([-1, -1, 0, 1]))
        vals = [rng.randint(0, 5) for _ in range(n)]
        own = rng.sample(vals, min(k - nw, n))
        pats = ["_"] * nw + [rng.choice(["== %d" % v, str(v), "> %d" % (v - 1)]) for v in own]
        pats += ["> -1"] * (k - len(pats))
        rng.shuffle(pats)
        k = 0
    elif rng.random() < 0.35:
        # matching by construction, in the order that is worst for a greedy or partially-undone search: 4-6 distinct
        # values; every pattern is given its own element, general patterns (matching many elements) are written
        # first, the specific ones (matching exactly one) last; the elements are shuffled
        n = rng.randint(4, 6)
        vals = rng.sample(range(0, 9), n)
        k = n if not rest else rng.randint(3, n)
        owners = rng.sample(vals, k)
        general, specific = [], []
        for v in owners:
            f = rng.random()
            if f < 0.45:
                specific.append(rng.choice(["== %d" % v, str(v), "%d..=%d" % (v, v)]))
            elif f < 0.75:
                general.append("> %d" % (min(vals) - 1) if rng.random() < 0.5 else "< %d" % (max(vals) + 1))
            elif f < 0.9:
                general.append("_")
            else:
                general.append(rng.choice([">= %d" % v, "<= %d" % v]))
        rng.shuffle(general)
        rng.shuffle(specific)
        pats = general + specific
        k = 0
    for _ in range(k):
        f = rng.random()
        if f < 0.15:
            pats.append("_")
        elif f < 0.45:
            pats.append(str(rng.choice(vals) if rng.random() < 0.7 else rng.randint(0, 6)))
        elif f < 0.7:
            pats.append("> %d" % rng.randint(-1, 5))
        elif f < 0.9:
            pats.append("< %d" % rng.randint(0, 6))
        else:
            pats.append("== %d" % rng.choice(vals))
    pat = "#(%s)" % ", ".join(pats + ([".."] if rest else []))
    vr = "vec![%s]" % ", ".join(str(v) for v in vals)
    vm = "(vec %s)" % " ".join("(int %d)" % v for v in vals)
    ty = "Vec<i32>"
    wrap = rng.random()
    if wrap < 0.25:
        pat, vr, vm, ty = "Some(%s)" % pat, "Some(%s)" % vr, "(variant %s %s)" % (hx("Some"), vm), "Option<Vec<i32>>"
    elif wrap < 0.5:
        pat, vr, vm, ty = "(%s, _)" % pat, "(%s, 1)" % vr, "(tuple %s (int 1))" % vm, "(Vec<i32>, i32)"
    return {"type": ty, "value_rust": vr, "value_model": vm, "pattern": pat, "kinds": {"set-stress": 1}}


def map_order_case(rng):
    """a map pattern whose report has entries out of source order: value patterns that fail, then keys that are missing (a
    missing key is reported on the map's own `#{`, written above the values), possibly a wrong entry count as well.  Always
    laid out over several lines (semstage.relayout), alone or beside failing siblings below it."""
    present = rng.sample(["a", "b", "c", "d"], rng.randint(1, 4))
    vals = {k: rng.randint(0, 9) for k in present}
    items = []
    allwild = rng.random() < 0.25          # an open map that only asks for the presence of keys
    for k in present:
        r = rng.random()
        if allwild:
            items.append('"%s": _' % k)
        elif r < 0.45:
            items.append('"%s": %d' % (k, vals[k] + rng.randint(1, 3)))          # fails
        elif r < 0.6:
            items.append('"%s": > %d' % (k, vals[k] + 5))                        # fails
        elif r < 0.8:
            items.append('"%s": %d' % (k, vals[k]))
        else:
            items.append('"%s": _' % k)
    for k in rng.sample(["x", "y", "z"], rng.randint(1, 2)):
        items.insert(rng.randint(1, len(items)) if rng.random() < 0.3 else len(items), '"%s": %s' % (k, "_" if allwild else rng.choice(["_", "1", "> 0"])))
    rest = allwild or rng.random() < 0.6
    pat = "#{ %s }" % ", ".join(items + ([".."] if rest else []))
    vr = "[%s].into_iter().collect::<HashMap<String, i32>>()" % ", ".join('("%s".to_string(), %d)' % (k, vals[k]) for k in present)
    vm = "(map %s)" % " ".join('((str %s) (int %d))' % (hx(k), vals[k]) for k in present) if present else "(map)"
    ty = "HashMap<String, i32>"
    wrap = rng.random()
    if wrap < 0.35:
        pat, vr, vm, ty = "(%s, %d)" % (pat, 7 if rng.random() < 0.5 else 8), "(%s, 7)" % vr, "(tuple %s (int 7))" % vm, "(HashMap<String, i32>, i32)"
    elif wrap < 0.55:
        pat, vr, vm, ty = "Some(%s)" % pat, "Some(%s)" % vr, "(variant %s %s)" % (hx("Some"), vm), "Option<HashMap<String, i32>>"
    elif wrap < 0.7:
        pat, vr, vm, ty = "[%s, ..]" % pat, "vec![%s]" % vr, "(vec %s)" % vm, "Vec<HashMap<String, i32>>"
    elif wrap < 0.8:
        pat, vr, vm, ty = "(0: %s, 1: _)" % pat, "(%s, 7)" % vr, "(tuple %s (int 7))" % vm, "(HashMap<String, i32>, i32)"
    return {"type": ty, "value_rust": vr, "value_model": vm, "pattern": pat, "kinds": {"map-order": 1, "map-order:all-wild": 1 if allwild else 0}, "multiline": True}


def float_case(rng):
    """comparison "by ordering" on a PARTIAL order: f64 values, a third of them NaN (incomparable with everything: every
    comparison but `!=` is false, no range contains it, no literal equals it), at the root and inside struct / Option / tuple /
    Vec; operands are float literals with integral values (what the model's literal reader covers)"""
    def val():
        if rng.random() < 0.35:
            return ("f64::NAN", "(nan)", None)
        z = rng.randint(-3, 9)
        return ("%d.0" % z if z >= 0 else "(%d.0)" % z, "(float %d)" % z, z)

    def lit(z):
        return "%d.0" % z

    def leaf(pz):
        k = (pz if pz is not None else rng.randint(-3, 9)) + rng.choice([-1, 0, 0, 1])
        r = rng.random()
        if r < 0.55:
            return "%s %s" % (rng.choice(["==", "!=", "<", "<=", ">", ">=", ">=", "<="]), lit(k))
        if r < 0.65:
            return lit(k)
        lo, hi = k - rng.randint(0, 2), k + rng.randint(0, 2)
        return rng.choice(["%s..=%s" % (lit(lo), lit(hi)), "%s..%s" % (lit(lo), lit(hi + 1)), "..=%s" % lit(hi), "%s.." % lit(lo), "..%s" % lit(hi)])
    shape = rng.choice(["root", "root", "struct", "struct", "opt", "tuple", "vec"])
    if shape == "root":
        vr, vm, pz = val()
        return {"type": "f64", "value_rust": vr, "value_model": vm, "pattern": leaf(pz), "kinds": {"float:root": 1}}
    if shape == "struct":
        (xr, xm, xz), (yr, ym, yz) = val(), val()
        pat = rng.choice(["FL { x: %s, y: %s }", "FL { y: %s, x: %s }", "FL { x: %s, .. }", "_ { x: %s, y: %s, .. }"])
        n = pat.count("%s")
        args = (leaf(xz), leaf(yz)) if pat.index("x:") < (pat.index("y:") if "y:" in pat else 10 ** 6) else (leaf(yz), leaf(xz))
        pat = pat % args[:n]
        return {"type": "FL", "value_rust": "FL { x: %s, y: %s }" % (xr, yr),
                "value_model": "(struct %s (%s %s) (%s %s))" % (hx("FL"), hx("x"), xm, hx("y"), ym), "pattern": pat, "kinds": {"float:struct": 1}}
    if shape == "opt":
        vr, vm, pz = val()
        return {"type": "Option<f64>", "value_rust": "Some(%s)" % vr, "value_model": "(variant %s %s)" % (hx("Some"), vm),
                "pattern": "Some(%s)" % leaf(pz), "kinds": {"float:option": 1}}
    if shape == "tuple":
        vr, vm, pz = val()
        return {"type": "(f64, i32)", "value_rust": "(%s, 7)" % vr, "value_model": "(tuple %s (int 7))" % vm,
                "pattern": "(%s, %d)" % (leaf(pz), rng.choice([7, 7, 8])), "kinds": {"float:tuple": 1}}
    vs = [val() for _ in range(rng.randint(1, 3))]
    pats = [leaf(v[2]) for v in vs]
    if rng.random() < 0.4:
        pats = pats[:1] + [".."]
    return {"type": "Vec<f64>", "value_rust": "vec![%s]" % ", ".join(v[0] for v in vs), "value_model": "(vec %s)" % " ".join(v[1] for v in vs),
            "pattern": "[%s]" % ", ".join(pats), "kinds": {"float:vec": 1}}


def variant_only_case(rng):
    """a pattern that checks nothing but WHICH variant a value is (no argument or field is constrained), named by its full path
    or by an imported single-segment name, at an element position (Some / Ok / slice element / tuple element / indexed element):
    the one thing such a pattern asserts must still be asserted"""
    vals = {"Unit": ("Kind::Unit", "(variant %s)" % hx("Unit")), "Other": ("Kind::Other", "(variant %s)" % hx("Other")),
            "Tup": ("Kind::Tup(3, \"x\".to_string())", "(variant %s (int 3) (str %s))" % (hx("Tup"), hx("x"))),
            "Rec": ("Kind::Rec { a: 3, b: \"x\".to_string() }", "(struct %s (%s (int 3)) (%s (str %s)))" % (hx("Rec"), hx("a"), hx("b"), hx("x")))}
    pats = {"Unit": ["%sUnit"], "Other": ["%sOther"], "Tup": ["%sTup(_, _)", "%sTup(..)" if False else "%sTup(_, _)"],
            "Rec": ["%sRec { .. }", "%sRec { a: _, .. }", "%sRec { a: _, b: _ }", "%sRec { }" if False else "%sRec { .. }"]}
    actual = rng.choice(list(vals))
    written = actual if rng.random() < 0.35 else rng.choice(list(vals))
    prefix = "" if rng.random() < 0.55 else "Kind::"
    pat = rng.choice(pats[written]) % prefix
    vr, vm = vals[actual]
    w = rng.choice(["some", "ok", "slice", "slice2", "tuple", "tuple_idx", "nested"])
    if w == "some":
        return {"type": "Option<Kind>", "value_rust": "Some(%s)" % vr, "value_model": "(variant %s %s)" % (hx("Some"), vm), "pattern": "Some(%s)" % pat, "kinds": {"variant-only": 1}}
    if w == "ok":
        return {"type": "Result<Kind, String>", "value_rust": "Ok(%s)" % vr, "value_model": "(variant %s %s)" % (hx("Ok"), vm), "pattern": "Ok(%s)" % pat, "kinds": {"variant-only": 1}}
    if w == "slice":
        return {"type": "Vec<Kind>", "value_rust": "vec![%s]" % vr, "value_model": "(vec %s)" % vm, "pattern": "[%s]" % pat, "kinds": {"variant-only": 1}}
    if w == "slice2":
        o = vals["Other"]
        return {"type": "Vec<Kind>", "value_rust": "vec![%s, %s]" % (o[0], vr), "value_model": "(vec %s %s)" % (o[1], vm), "pattern": "[Kind::Other, %s]" % pat, "kinds": {"variant-only": 1}}
    if w == "tuple":
        return {"type": "(Kind, i32)", "value_rust": "(%s, 7)" % vr, "value_model": "(tuple %s (int 7))" % vm, "pattern": "(%s, 7)" % pat, "kinds": {"variant-only": 1}}
    if w == "tuple_idx":
        return {"type": "(i32, Kind)", "value_rust": "(7, %s)" % vr, "value_model": "(tuple (int 7) %s)" % vm, "pattern": "(0: 7, 1: %s)" % pat, "kinds": {"variant-only": 1}}
    return {"type": "Option<Vec<(Kind, i32)>>", "value_rust": "Some(vec![(%s, 7)])" % vr, "value_model": "(variant %s (vec (tuple %s (int 7))))" % (hx("Some"), vm),
            "pattern": "Some([(%s, _)])" % pat, "kinds": {"variant-only": 1}}


def shape_only_case(rng):
    """a pattern that asserts nothing but the SHAPE of a collection (its length, or nothing at all): every sub-pattern a wildcard
    or none at all (`[]`, `[_]`, `[..]`, `#()`, `#(_, ..)`, `#{}`, `#{ .. }`, ...), on collections of 0..2 elements, at an element
    position.  The length such a pattern states must still be checked wherever it is written."""
    if rng.random() < 0.7:
        n = rng.randint(0, 2)
        ty, vr, vm = "Vec<i32>", "vec![%s]" % ", ".join(str(i + 1) for i in range(n)) if n else "Vec::<i32>::new()", \
            "(vec%s)" % "".join(" (int %d)" % (i + 1) for i in range(n))
        pat = rng.choice(["[]", "[]", "[_]", "[_, _]", "[..]", "[_, ..]", "[.., _]", "#()", "#()", "#(_)", "#(_, _)", "#(..)", "#(_, ..)"])
    else:
        n = rng.randint(0, 1)
        ty = "BTreeMap<String, i32>"
        vr = "BTreeMap::from([(\"a\".to_string(), 1)])" if n else "BTreeMap::<String, i32>::new()"
        vm = "(map ((str %s) (int 1)))" % hx("a") if n else "(map)"
        pat = rng.choice(["#{}", "#{}", "#{ .. }", "#{ \"a\": _ }", "#{ \"a\": _, .. }"])
    k = {"shape-only": 1}
    w = rng.choice(["some", "ok", "err", "slice", "slice2", "tuple", "tuple_idx", "nested", "field"])
    if w == "some":
        return {"type": "Option<%s>" % ty, "value_rust": "Some(%s)" % vr, "value_model": "(variant %s %s)" % (hx("Some"), vm), "pattern": "Some(%s)" % pat, "kinds": k}
    if w == "ok":
        return {"type": "Result<%s, String>" % ty, "value_rust": "Ok(%s)" % vr, "value_model": "(variant %s %s)" % (hx("Ok"), vm), "pattern": "Ok(%s)" % pat, "kinds": k}
    if w == "err":
        return {"type": "Result<i32, %s>" % ty, "value_rust": "Err(%s)" % vr, "value_model": "(variant %s %s)" % (hx("Err"), vm), "pattern": "Err(%s)" % pat, "kinds": k}
    if w == "slice":
        return {"type": "Vec<%s>" % ty, "value_rust": "vec![%s]" % vr, "value_model": "(vec %s)" % vm, "pattern": "[%s]" % pat, "kinds": k}
    if w == "slice2":
        return {"type": "Vec<%s>" % ty, "value_rust": "vec![%s, %s]" % (vr, vr), "value_model": "(vec %s %s)" % (vm, vm), "pattern": "[_, %s]" % pat, "kinds": k}
    if w == "tuple":
        return {"type": "(%s, i32)" % ty, "value_rust": "(%s, 7)" % vr, "value_model": "(tuple %s (int 7))" % vm, "pattern": "(%s, 7)" % pat, "kinds": k}
    if w == "tuple_idx":
        return {"type": "(i32, %s)" % ty, "value_rust": "(7, %s)" % vr, "value_model": "(tuple (int 7) %s)" % vm, "pattern": "(0: 7, 1: %s)" % pat, "kinds": k}
    if w == "field":
        return {"type": "(%s,)" % ty, "value_rust": "(%s,)" % vr, "value_model": "(tuple %s)" % vm, "pattern": "(%s,)" % pat, "kinds": k}
    return {"type": "Option<Vec<(%s, i32)>>" % ty, "value_rust": "Some(vec![(%s, 7)])" % vr, "value_model": "(variant %s (vec (tuple %s (int 7))))" % (hx("Some"), vm),
            "pattern": "Some([(%s, _)])" % pat, "kinds": k}


def gen_case(rng, hit=None, closures=True):
    """one triple: returns dict(type, value_rust, value_model, pattern, kinds)"""
    if rng.random() < 0.12:
        return set_stress_case(rng)
    if rng.random() < 0.06:
        return map_order_case(rng)
    if rng.random() < 0.07:
        return float_case(rng)
    if rng.random() < 0.06:
        return variant_only_case(rng)
    if rng.random() < 0.06:
        return shape_only_case(rng)
    t = rng.choice(ROOTS)
    vr, vm, pv = gen_value(rng, t)
    if hit is None and t is HOLDER and rng.random() < 0.6:
        hit = 1.0        # everything else matches: a decoy (see struct_pat) is then the only mismatch of the assertion
    g = Gen(rng, hit if hit is not None else rng.choice([1.0, 0.9, 0.75, 0.6, 0.5]), closures)
    pat = g.pat(t, pv, 0, nested=False)
    return {"type": t.rust, "value_rust": vr, "value_model": vm, "pattern": pat, "kinds": g.kinds}
