"""C19 — what a report says about the pattern is true."""
import json
import random
import re

import expstage
import labels
import maclib
import vlib
from vlib import unhx

FIXED = ["v, [1, .., 2]", "v, [..]", "v, [.., 9]", "v, [1, 2]", "v, [1]", "v, [_, ..]", "v, #(1, ..)", "v, #(1)",
         "v, == foo.bar", "v, S { xs: [1, 2, ..], .. }", "v, #{ \"a\": 1 }", "v, E::V(1)", "v, E::W",
         # punctuation that belongs to the written expression: the comma of a one-element tuple, trailing commas in calls / arrays / macros
         "v, == (5,)", "v, == Some((5,))", "v, != (9u8,)", "v, #{ (1,): 2, .. }", "v, < f((1,), [2,],)", "v, == vec![1, 2,]", "v, S { t: == (x,), .. }",
         "v, == None::<(u8,)>", "v, =~ mk((\"a\",))", "v, (7,)", "v, |cl_x| cl_x == (1,)",
         # a quote character that does not delimit an ordinary string (inside a raw string, as a char or byte literal, escaped, after
         # an escaped backslash, a lifetime's tick) followed by a string in which the spacing is part of what was written
         "v, == f('\"', \"a  b\")", "v, == r#\"say \"hi  there\"\"#", "v, != g(b'\"', \"x   y\")", "v, == (r\"\\\", \"a  b\")", "v, == ('\\'', \"a  b\")",
         "v, == (\"\\\\\", \"c  d\")", "v, == (b\"\\\"\", \"e  f\")", "v, == (\"\\\"\", \"g  h\")", "v, #{ f('\"', \"a  b\"): 1, .. }",
         "v, #{ r#\"k\"1\"#: == \"p  q\", .. }", "v, == h::<'static>(\"i  j\")", "v, S { a: == '\"', b: == \"k  l\", .. }",
         "v, == (r##\"a\"#b\"##, \"m  n\")", "v, =~ lk('\"', \"o  p\")", "v, == \"q\\\"  r\"", "v, == (\"s\\\\\", 't', \"u  v\")"]


def squeeze(s):
    """source text up to the spacing BETWEEN tokens (the stringified form of tokens puts spaces where the source has none);
    the contents of string and char literals are kept exactly: spacing inside a literal is part of what was written"""
    out = []
    i, n = 0, len(s)
    while i < n:
        ch = s[i]
        if ch == '"':
            j = i + 1
            while j < n and s[j] != '"':
                j += 2 if s[j] == "\\" else 1
            out.append(s[i:j + 1])
            i = j + 1
            continue
        if ch == "r" and s[i + 1:i + 2] in ('"', "#") and (i == 0 or not (s[i - 1].isalnum() or s[i - 1] == "_")):
            j = i + 1
            h = 0
            while j < n and s[j] == "#":
                h += 1
                j += 1
            if j < n and s[j] == '"':
                end = s.find('"' + "#" * h, j + 1)
                end = n if end < 0 else end + 1 + h
                out.append(s[i:end])
                i = end
                continue
        if ch == "'" and i + 2 < n and (s[i + 2] == "'" or s[i + 1] == "\\"):
            j = s.find("'", i + 2) if s[i + 1] == "\\" else i + 2
            if j > 0:
                out.append(s[i:j + 1])
                i = j + 1
                continue
        if not ch.isspace():
            out.append(ch)
        i += 1
    return "".join(out)


def node_claims(rec):
    """Oracle on the real expansion's node table vs the pattern as the generator wrote it:
    what the label will say about the expected side.  Returns problems."""
    rb = rec.readback
    if not rb.get("parse") or rec.node is None:
        return []
    tab, _ = expstage.static_table(rb)
    probs = []

    def go(node, nid):
        d = tab.get(nid)
        if d is None or expstage.kind_name(d) != expstage.KIND_MAP[node.kind]:
            return
        k = d["kind"]
        if node.kind == "slice":
            if k["rest"] != node.info["rest"]:
                probs.append("slice written %s `..` is recorded as %s" % ("with" if node.info["rest"] else "without",
                                                                           "partial" if k["rest"] else "exact"))
            if len(k["items"]) != node.info["nelems"]:
                probs.append("slice with %d written elements is recorded with %d items (`..` counted?)"
                             % (node.info["nelems"], len(k["items"])))
        if node.kind == "set":
            if k["rest"] != node.info["rest"]:
                probs.append("set pattern rest flag %s, written %s" % (k["rest"], node.info["rest"]))
            if len(k["items"]) != node.info["nelems"]:
                probs.append("set with %d written elements recorded with %d" % (node.info["nelems"], len(k["items"])))
        if node.kind == "map" and k["rest"] != node.info["rest"]:
            probs.append("map pattern rest flag %s, written %s" % (k["rest"], node.info["rest"]))
        if node.kind == "map" and len(k["entries"]) != len(node.info["entries"]):
            probs.append("map entry count %d, written %d" % (len(k["entries"]), len(node.info["entries"])))
        if node.kind == "map":
            for (wk, _), (rk, _) in zip(node.info["entries"], k["entries"]):
                if squeeze(unhx(rk).decode()) != squeeze(wk):
                    probs.append("map key recorded as %r, written %r" % (unhx(rk).decode(), wk))
        if node.kind == "cmp":
            if squeeze(unhx(k["value"]).decode()) != squeeze(node.info["operand"]):
                probs.append("comparison operand recorded as %r, written %r" % (unhx(k["value"]).decode(), node.info["operand"]))
            if node.info["op"] == "==":
                lit = maclib.hx('"' + unhx(k["value"]).decode().replace("\\", "\\\\").replace('"', '\\"') + '"')
                if ("L" + lit + "@cs") not in rec.tokens:
                    probs.append("the expected text pushed for `== %s` is not the written operand" % node.info["operand"])
        if node.kind in ("enum", "unit"):
            if squeeze(unhx(k["path"]).decode()) != squeeze(node.info["path"]):
                probs.append("variant path recorded as %r, written %r" % (unhx(k["path"]).decode(), node.info["path"]))
            if (k["args"] == "None") != (node.kind == "unit"):
                probs.append("variant %s: `(...)` shown iff arguments written is violated" % node.info["path"])
        for c, cid in zip(node.children(), expstage.child_ids(d)):
            go(c, cid)

    go(rec.node, rb["root"])
    return probs


def label_oracle(line, impl):
    """Independent re-statement of the wording rules for the expected side."""
    f = line.split("\t")
    if f[0] != "label":
        return None
    text = unhx(impl).decode("utf-8")
    spec = f[1].split(":")
    actual = unhx(f[2]).decode("utf-8")
    if not text.endswith(actual):
        return "label does not end with the actual-value text"
    if spec[0] == "slice":
        n, rest = int(spec[1]), spec[2] == "1"
        if rest and (re.search(r"\d+ element", text[:len(text) - len(actual)]) or "expected slice with" in text):
            return "partial slice pattern described with an element count: %r" % text
        if not rest and ("with %d element" % n) not in text:
            return "exact slice pattern of %d elements described as %r" % (n, text)
    if spec[0] == "set":
        if ("(exact)" in text[:len(text) - len(actual)]) != (spec[2] == "0"):
            return "set pattern exact/partial wording wrong: %r" % text
    if spec[0] == "cmp" and spec[1] == "eq" and f[3] != "none":
        if ("expected " + unhx(f[3]).decode("utf-8") + ",") not in text:
            return "`==` label does not show the expected text: %r" % text
    if spec[0] == "enum":
        path = unhx(spec[1]).decode()
        want = path + ("(...)" if spec[2] != "none" else "")
        if ("expected variant " + want + ",") not in text:
            return "variant label %r does not name %s" % (text, want)
    return None


def run(res):
    res.trusted += ["Coq 8.16.1 kernel (coqc)", "extraction to OCaml (ExtrOcamlBasic only), ocaml/*.ml",
                    "harness/mac (in-process parser+expander, proc-macro2 fallback), harness/rt (error_label through the cfg-guarded hook)",
                    "tools/patgen.py, tools/expstage.py, tools/labels.py"]
    res.assumptions += ["TokenStream::to_string() of a user expression is the written expression up to token spacing"]
    vlib.build_coq()
    ths, rep = vlib.check_props("C19")
    res.obligations += ths
    res.discharged += ths
    res.coverage["print_assumptions"] = rep
    # (1) node table + expected texts, through the real expander
    recs = expstage.run_stage(res, res.tier, res.seed, FIXED)
    name = "correspondence:expander(token-exact expansion, node table)"
    res.obligations.append(name)
    dis = expstage.correspondence(res, recs)
    failing = 0
    shapes = 0
    for r in recs:
        if r.status != "ok":
            continue
        if r.node is not None:
            shapes += sum(1 for n in r.node.walk() if n.kind in ("slice", "set", "map", "enum", "unit", "cmp"))
        probs = node_claims(r)
        if probs:
            failing += 1
            if failing <= 3:
                res.violation("failing-input", "the node table misdescribes the written pattern: " + "; ".join(probs[:3]),
                              {"invocation": r.text, "problems": probs[:10]})
    expstage.report_disagreement(res, name, dis, failing > 0)
    if not dis and not failing:
        res.discharged.append(name)
    # (2) label wording: real error_label vs model vs the wording rules
    ok, out = vlib.build_harness("rt")
    if not ok:
        raise vlib.CheckError("harness rt does not build: " + out[-1500:])
    rng = random.Random(res.seed * 31 + 19)
    cases = labels.label_cases(rng, 3 if res.tier == "quick" else 40)
    impl = vlib.run_harness("rt", cases)
    model = vlib.run_model(cases)
    name2 = "correspondence:error_label+Display for PatternNode"
    res.obligations.append(name2)
    st = vlib.correspond(res, "label", cases, impl, model,
                         lambda c: {"command": c.split("\t")[0], "kind": c.split("\t")[1],
                                    "fields": [unhx(x).decode() if x.startswith("x") else x for x in c.split("\t")[2:]]},
                         lambda c, a: c.split("\t")[1].split(":")[0] in ("slice", "set", "enum", "cmp", "map"), label_oracle)
    if st["disagreements"] == 0 and st["oracle_failures"] == 0:
        res.discharged.append(name2)
    res.coverage.update({
        "evaluations": len(recs) + len(cases), "distinct_nontrivial": st["distinct_nontrivial"] + min(shapes, len(recs)),
        "rule": "(1) shared pattern corpus (exhaustive depth 2 + random to depth 6) plus fixed slice/set/map shapes with `..` in every "
                "position: node table of the real expansion vs the written pattern (element counts without `..`, rest flags, "
                "variant paths, `==` operand text, map keys); (2) every node kind x item count 0..4 x rest x texts: real error_label == "
                "model == wording rules; non-trivial = shape-describing kinds (slice, set, map, variant, comparison)",
        "samples": st["samples"] + [{"invocation": r.text} for r in recs[:3]],
        "shape_nodes_checked": shapes,
    })


def replay(res, path):
    v = json.load(open(path))
    inv = v.get("invocation")
    if not inv:
        print("no invocation in replay file")
        return 1
    ok, out = maclib.build_mac()
    if not ok:
        raise vlib.CheckError(out[-1500:])
    print(maclib.run_mac([inv])[0][:300])
    return 0
