"""seed_save.py <worktree> <dir name under seeded/> <meta json string> — store a confirmed seeded change (development helper)."""
import json, os, shutil, sys
wt, name, meta = sys.argv[1], sys.argv[2], json.loads(sys.argv[3])
d = os.path.join("/verif/seeded", name)
os.makedirs(d, exist_ok=True)
shutil.copy(os.path.join(wt, "SEED", "patch.diff"), os.path.join(d, "patch.diff"))
shutil.copy(os.path.join(wt, "SEED", "demo.rs"), os.path.join(d, "demo.rs"))
if os.path.exists(os.path.join(wt, "SEED", "notes.md")):
    shutil.copy(os.path.join(wt, "SEED", "notes.md"), os.path.join(d, "notes_from_author.md"))
log = open(os.path.join(wt, "SEED", "verify.log")).read().splitlines() if os.path.exists(os.path.join(wt, "SEED", "verify.log")) else []
meta.setdefault("confirmed_by", "tools/verify_seed.sh in a scratch worktree: repository suite with the change, demo with and without the change")
meta["confirmation_output"] = log
meta.setdefault("demo", "place demo.rs at assert-struct/tests/seed_demo.rs; cargo test -p assert-struct --test seed_demo --offline")
meta.setdefault("checks_run", "tools/seed_try.sh patch.diff <ids> (git -C /repo apply; ./check <id>; git -C /repo checkout -- .)")
json.dump(meta, open(os.path.join(d, "meta.json"), "w"), indent=1, ensure_ascii=False)
print("saved", d)
