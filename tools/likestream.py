"""likestream.py — the built-in Like impls (String / &str against &str / String / Regex, assert-struct/src/lib.rs) compared
with the regex crate itself: `text.like(pattern)` must be exactly `Regex::new(pattern).is_match(text)`, and false for a
pattern that does not compile.  The oracle is compiled into harness/rt from the regex crate directly, not through the
crate under test.  Used by C01 (like => the matcher matched) and C02 (the matcher matched => like)."""
import random

import vlib

PATTERNS = [
    r"^al", r"ha$", r"^alpha$", r"alpha", r"l.h", r"^a.*a$", r"^$", r"", r"^\s", r"\s$", r"^\S+$", r"[A-Z]", r"^[a-z]+$",
    r"(?i)ALPHA", r"ALPHA", r"^\d+$", r"\d", r"^user\d+$", r"a|z", r"^(alpha|beta)$", r"^.{5}$", r"^.{0,3}$", r"\.", r".",
    r"^alpha\n", r"(?m)^beta$", r"^beta$", r"\bbeta\b", r"é", r"^\w+$", r"^[[:alpha:]]+$", r"\p{Greek}", r"^\p{L}+$",
    r"x*", r"x+", r"^(a+)+$", r"al{2,}", r"[^a]", r"^[^a]+$", r"\\", r"\$", r"^ alpha", r"alpha $", r"\x61", r"(?s)a.b", r"a.b",
    # do not compile: must never match
    r"(", r"[a-", r"*a", r"a{2,1}", r"(?P<n>a)(?P<n>b)", r"\p{NoSuchClass}", r"(?<", r"a)", r"\q",
]
TEXTS = ["alpha", "Alpha", "ALPHA", "alph", "alphaa", " alpha", "alpha ", "alpha\n", "alpha\nbeta", "beta", "", " ", "\n", "a", "z",
         "user12", "user", "12", "1", "a.b", "a\nb", "aXb", "élan", "αβγ", "alpha beta", "beta-1", "\\", "$", "(", "xx", "aaaa", "aaaab",
         "all", "al", "l"]


def cases(seed, tier):
    rng = random.Random(seed * 131 + 7)
    out = [(p, t) for p in PATTERNS for t in TEXTS]
    # history: the same questions again in an order with revisits (the answer may not depend on which patterns were
    # evaluated before on this thread): a working set of recently used patterns, revisited, extended and abandoned at random
    recent = []
    for _ in range(4000 if tier == "quick" else 40000):
        if recent and rng.random() < 0.55:
            p = rng.choice(recent[-3:] if rng.random() < 0.6 else recent)
        else:
            p = rng.choice(PATTERNS)
            recent.append(p)
            if len(recent) > 40:
                recent.pop(rng.randrange(len(recent)))
        out.append((p, rng.choice(TEXTS)))
    if tier != "quick":
        # random patterns over a small alphabet of regex atoms (many are invalid: both outcomes are exercised)
        atoms = ["a", "l", "p", "h", ".", "*", "+", "?", "^", "$", "(", ")", "[", "]", "|", "\\d", "\\s", "\\b", "{2}", "(?i)", "A", "-", " "]
        for _ in range(20000):
            p = "".join(rng.choice(atoms) for _ in range(rng.randint(1, 6)))
            out.append((p, rng.choice(TEXTS)))
    return out


def run(res, direction):
    """direction: 'sound' (C01: like => matcher matched) or 'complete' (C02: matcher matched => like).  Both compare all
    six impls; a disagreement in the other direction is reported as a broken correspondence by the other property."""
    ok, out = vlib.build_harness("rt")
    name = "direct:builtin-like-impls-equal-the-matcher"
    res.obligations.append(name)
    if not ok:
        res.violation("no-failing-input-found", "harness rt no longer builds against /repo: the built-in Like impls cannot be compared "
                      "with the regex crate", {"obligation": name, "build_error": out[-1500:]})
        return
    cs = cases(res.seed, res.tier)
    lines = vlib.run_harness("rt", ["like\t%s\t%s" % (vlib.hx(p), vlib.hx(t)) for p, t in cs], env_extra={"RT_QUIET": "1"})
    dist = {"match": 0, "nomatch": 0, "invalid": 0}
    failing = 0
    other = 0
    for idx, ((p, t), l) in enumerate(zip(cs, lines)):
        f = dict(x.split("=", 1) for x in l.split(" "))
        dist[f["oracle"]] += 1
        want = "1" if f["oracle"] == "match" else "0"
        expect_n = 4 if f["oracle"] == "invalid" else 6
        bad = [i for i, b in enumerate(f["impls"]) if b != want]
        if len(f["impls"]) != expect_n:
            bad = bad or [len(f["impls"])]
        if not bad:
            continue
        mine = (direction == "sound" and want == "0") or (direction == "complete" and want == "1")
        if not mine:
            other += 1
            continue
        failing += 1
        if failing <= 2:
            names = ["String~&str", "String~String", "&str~&str", "&str~String", "String~Regex", "&str~Regex"]
            res.violation("failing-input",
                          "built-in Like impl %s answers %s for text %r and pattern %r but the regex crate says %s"
                          % (", ".join(names[i] for i in bad if i < 6), "true" if want == "0" else "false", t, p, f["oracle"]),
                          {"like_case": {"pattern": p, "text": t}, "oracle": f["oracle"], "impls": f["impls"],
                           "history": [[a, b] for a, b in cs[:idx + 1]],
                           "note": "the answer may depend on the evaluations made before on the same thread: `history` is every (pattern, text) "
                                   "evaluated in this process up to and including the failing one; the replay runs all of them"})
    res.streams["builtin-like-impls"] = {"pairs": len(cs), "oracle": dist, "patterns": len({p for p, _ in cs}), "texts": len(TEXTS),
                                         "disagreements_this_direction": failing, "disagreements_other_direction": other}
    if not failing:
        res.discharged.append(name)


def replay(v):
    c = v["like_case"]
    ok, out = vlib.build_harness("rt")
    if not ok:
        print("harness rt does not build")
        return 1
    hist = v.get("history") or [[c["pattern"], c["text"]]]
    l = vlib.run_harness("rt", ["like\t%s\t%s" % (vlib.hx(a), vlib.hx(b)) for a, b in hist], env_extra={"RT_QUIET": "1"})[-1]
    f = dict(x.split("=", 1) for x in l.split(" "))
    want = "1" if f["oracle"] == "match" else "0"
    bad = any(b != want for b in f["impls"])
    print("replayed:", c, "->", l, "violation" if bad else "property holds on this input")
    return 1 if bad else 0
