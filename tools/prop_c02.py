"""C02 — a matching value never fails the assertion."""
import likestream
import userlike
import tempchains
import strlits
import usercmp
import semprops


def run(res):
    cases, bad, sem_dis, na, nc = semprops.common(res, "C02")
    failing = 0
    matching = 0
    for c in cases:
        if c["model"]["frontier"] == []:
            matching += 1
            if c["real"]["verdict"] != "pass":
                failing += 1
                if failing <= 3:
                    res.violation("failing-input", "the value satisfies the pattern but the assertion failed with %s"
                                  % (semprops.semstage.real_entries(c),), {"case": semprops.describe(c), "value_model": c["value_model"]})
    likestream.run(res, "complete")
    failing += userlike.run(res, "complete")
    failing += tempchains.run(res)
    failing += strlits.run(res)
    failing += usercmp.run(res)
    semprops.finish(res, "C02", cases, bad, sem_dis, na, nc, failing, matching,
                    "the shared semantic corpus (see C01); fields are listed in shuffled order, repeated, omitted under `..`; empty "
                    "collections, boundary values, sets needing backtracking; non-trivial = triples the specification says match",
                    [semprops.describe(c) for c in cases[2:4]])


def replay(res, path):
    import json
    if json.load(open(path)).get("usercmp_program"):
        return usercmp.replay(json.load(open(path)))
    if json.load(open(path)).get("strlit_program"):
        return strlits.replay(json.load(open(path)))
    if json.load(open(path)).get("temp_chain_program"):
        n = tempchains.run(res)
        print("chains through temporaries re-run:", "violation" if n else "property holds on these inputs")
        return 1 if n else 0
    if json.load(open(path)).get("user_like_program"):
        n = userlike.run(res, "complete")
        print("user-Like programs re-run:", "violation" if n else "property holds on these inputs")
        return 1 if n else 0
    return semprops.replay_case(path)
