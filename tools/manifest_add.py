"""manifest_add.py <id> <json-file> — add or replace one check entry in MANIFEST.json, drop the id from not_applicable,
refresh engines' serves_properties.  Development helper (not used by the checks)."""
import json
import sys

pid, path = sys.argv[1], sys.argv[2]
entry = json.load(open(path))
m = json.load(open("MANIFEST.json"))
base = {"property_id": pid, "quick_cmd": "./check %s --tier quick" % pid, "thorough_cmd": "./check %s --tier thorough" % pid,
        "evidence_file": "/verif/evidence/%s.json" % pid, "replay_cmd_template": "./check %s --replay {path}" % pid,
        "engine": "coq-model"}
base.update(entry)
m["checks"] = [c for c in m["checks"] if c["property_id"] != pid] + [base]
m["not_applicable"] = [n for n in m.get("not_applicable", []) if n["property_id"] != pid]
ids = [c["property_id"] for c in m["checks"]]
for e in m["engines"]:
    if e["name"] == "coq-model":
        e["serves_properties"] = ids
json.dump(m, open("MANIFEST.json", "w"), indent=1)
print("checks:", ids, "not_applicable:", [n["property_id"] for n in m["not_applicable"]])
