"""C08 — expressions are evaluated exactly once; Debug runs only on failure."""
import json

import e2e
import maclib
import semstage
import vlib
from vlib import hx

DECLS = r'''
use std::sync::atomic::{AtomicUsize, Ordering::SeqCst};
static ROOT: AtomicUsize = AtomicUsize::new(0);
static METH: AtomicUsize = AtomicUsize::new(0);
static OPER: AtomicUsize = AtomicUsize::new(0);
static DBG: AtomicUsize = AtomicUsize::new(0);
fn root<T>(v: T) -> T { ROOT.fetch_add(1, SeqCst); v }
fn op<T>(v: T) -> T { OPER.fetch_add(1, SeqCst); v }
/// an integer whose Debug impl counts its calls
#[derive(Clone, Copy, PartialEq, PartialOrd)] struct CD(i32);
impl std::fmt::Debug for CD { fn fmt(&self, f: &mut std::fmt::Formatter<'_>) -> std::fmt::Result { DBG.fetch_add(1, SeqCst); write!(f, "{}", self.0) } }
impl PartialEq<i32> for CD { fn eq(&self, o: &i32) -> bool { self.0 == *o } }
impl PartialOrd<i32> for CD { fn partial_cmp(&self, o: &i32) -> Option<std::cmp::Ordering> { self.0.partial_cmp(o) } }
#[derive(Debug)] struct H { v: i32 }
impl Clone for H { fn clone(&self) -> H { ev("clone", H { v: self.v }) } }
impl H { fn bump(&self) -> i32 { METH.fetch_add(1, SeqCst); ev("bump", self.v) } fn add(&self, k: i32) -> i32 { self.v + k }
  async fn abump(&self) -> i32 { METH.fetch_add(1, SeqCst); self.v } }
/// a minimal executor for the `.await` cells (the futures here are always ready)
fn block_on<F: std::future::Future>(f: F) -> F::Output {
    use std::task::{Context, Poll, RawWaker, RawWakerVTable, Waker};
    fn cl(_: *const ()) -> RawWaker { RawWaker::new(std::ptr::null(), &VT) } fn no(_: *const ()) {}
    static VT: RawWakerVTable = RawWakerVTable::new(cl, no, no, no);
    let w = unsafe { Waker::from_raw(RawWaker::new(std::ptr::null(), &VT)) };
    let mut f = Box::pin(f);
    loop { if let Poll::Ready(v) = f.as_mut().poll(&mut Context::from_waker(&w)) { return v; } }
}
thread_local! { static LOG: std::cell::RefCell<Vec<&'static str>> = std::cell::RefCell::new(Vec::new()); }
/// records WHEN an expression is evaluated: the order in which the tags are logged is the order of evaluation
fn ev<T>(tag: &'static str, v: T) -> T { LOG.with(|l| l.borrow_mut().push(tag)); v }
impl H { fn step(&self, tag: &'static str) -> i32 { ev(tag, self.v) } }
fn ordered<F: FnOnce() + std::panic::UnwindSafe>(id: &str, f: F) {
    LOG.with(|l| l.borrow_mut().clear());
    let r = std::panic::catch_unwind(f);
    println!("ord {} {} {}", id, if r.is_ok() { "pass" } else { "fail" }, LOG.with(|l| l.borrow().join(",")));
}
#[derive(Debug, Clone)] struct W { h: H, c: CD, n: i32, xs: Vec<CD>, oc: Option<CD>, m: BTreeMap<String, i32>, s: String }
#[derive(Debug, Clone)] struct P2 { a: i32, b: i32 }
const HI5: i32 = 5;
fn w() -> W { W { h: H { v: 5 }, c: CD(5), n: 5, xs: vec![CD(1), CD(2)], oc: Some(CD(5)), m: BTreeMap::from([("a".to_string(), 1), ("b".to_string(), 2)]), s: "hello".to_string() } }
fn counted<F: FnOnce() + std::panic::UnwindSafe>(id: &str, f: F) {
    ROOT.store(0, SeqCst); METH.store(0, SeqCst); DBG.store(0, SeqCst); OPER.store(0, SeqCst);
    let r = std::panic::catch_unwind(f);
    println!("cnt {} {} root={} meth={} dbg={} oper={}", id, if r.is_ok() { "pass" } else { "fail" }, ROOT.load(SeqCst), METH.load(SeqCst), DBG.load(SeqCst), OPER.load(SeqCst));
}
'''

W_MODEL = ("(struct %s (%s (int 5)) (%s (int 5)) (%s (int 5)) (%s (vec (int 1) (int 2))) (%s (variant %s (int 5))) "
           "(%s (map ((str %s) (int 1)) ((str %s) (int 2)))) (%s (str %s)))"
           % (hx("W"), hx("h"), hx("c"), hx("n"), hx("xs"), hx("oc"), hx("Some"), hx("m"), hx("a"), hx("b"), hx("s"), hx("hello")))

# (name, rust type, rust value, model value, pattern that passes, pattern that fails, class or None)
ROOT_CASES = [
    ("simple", "i32", "5", "(int 5)", "5", "6", None),
    ("eq", "i32", "5", "(int 5)", "== 5", "== 6", None),
    ("gt", "i32", "5", "(int 5)", "> 3", "> 7", None),
    ("range", "i32", "5", "(int 5)", "1..=5", "1..5", None),
    ("range_neg_bound", "i32", "5", "(int 5)", "-1..=5", "-1..5", None),
    ("range_neg_both", "i32", "-3", "(int -3)", "-5..=-1", "-2..=-1", None),
    ("range_from", "i32", "5", "(int 5)", "5..", "6..", None),
    ("range_to", "i32", "5", "(int 5)", "..=5", "..5", None),
    # bounds that are not literals (a constant, an associated constant): the model does not interpret them (NO_MODEL: the trace
    # predicted for them is the one of the literal range, which is what c08_root_eval_count says of every range pattern)
    ("range_const_hi", "i32", "5", "(int 5)", "1..=HI5", "1..HI5", None),
    ("range_assoc_const", "i32", "5", "(int 5)", "-1..=i32::MAX", "6..=i32::MAX", None),
    ("string", "String", "\"hello\".to_string()", "(str %s)" % hx("hello"), "\"hello\"", "\"x\"", None),
    ("regex", "String", "\"hello\".to_string()", "(str %s)" % hx("hello"), "=~ r\"^he\"", "=~ r\"^zz\"", None),
    ("closure", "i32", "5", "(int 5)", "|cl_x| cl_x > 3", "|cl_x| cl_x > 7", None),
    ("closure_counting_debug", "CD", "CD(5)", "(int 5)", "|cl_x| cl_x > 3", "|cl_x| cl_x > 7", None),
    ("eq_counting_debug", "CD", "CD(5)", "(int 5)", "== 5", "== 6", None),
    ("some", "Option<i32>", "Some(5)", "(variant %s (int 5))" % hx("Some"), "Some(5)", "Some(6)", None),
    ("variant_mismatch", "Option<i32>", "Some(5)", "(variant %s (int 5))" % hx("Some"), "Some(_)", "None", None),
    ("struct", "P2", "P2 { a: 1, b: 2 }", "(struct %s (%s (int 1)) (%s (int 2)))" % (hx("P2"), hx("a"), hx("b")), "P2 { a: 1, b: 2 }", "P2 { a: 1, b: 3 }", None),
    ("tuple", "(i32, i32)", "(1, 2)", "(tuple (int 1) (int 2))", "(1, 2)", "(1, 3)", None),
    ("slice", "Vec<i32>", "vec![1, 2]", "(vec (int 1) (int 2))", "[1, 2]", "[1, 3]", None),
    ("slice_len", "Vec<i32>", "vec![1, 2]", "(vec (int 1) (int 2))", "[1, ..]", "[1]", None),
    ("set", "Vec<i32>", "vec![1, 2]", "(vec (int 1) (int 2))", "#(2, 1)", "#(2, 3)", None),
    ("wildcard", "i32", "5", "(int 5)", "_", None, None),
    ("wstruct1", "P2", "P2 { a: 1, b: 2 }", "(struct %s (%s (int 1)) (%s (int 2)))" % (hx("P2"), hx("a"), hx("b")), "_ { a: 1, .. }", "_ { a: 2, .. }", "C08-wildcard-struct-multi-eval"),
    ("wstruct2", "P2", "P2 { a: 1, b: 2 }", "(struct %s (%s (int 1)) (%s (int 2)))" % (hx("P2"), hx("a"), hx("b")), "_ { a: 1, b: 2, .. }", "_ { a: 1, b: 3, .. }", "C08-wildcard-struct-multi-eval"),
    ("map", "BTreeMap<String, i32>", "BTreeMap::from([(\"a\".to_string(), 1), (\"b\".to_string(), 2)])",
     "(map ((str %s) (int 1)) ((str %s) (int 2)))" % (hx("a"), hx("b")), "#{ \"a\": 1, \"b\": 2 }", "#{ \"a\": 1, \"b\": 3 }", "C08-map-multi-eval"),
    ("map_rest", "BTreeMap<String, i32>", "BTreeMap::from([(\"a\".to_string(), 1), (\"b\".to_string(), 2)])",
     "(map ((str %s) (int 1)) ((str %s) (int 2)))" % (hx("a"), hx("b")), "#{ \"a\": 1, .. }", "#{ \"a\": 2, .. }", "C08-map-multi-eval"),
]
# patterns applied to `W` through the method chain h.bump() (METH) and to Debug-counting fields (DBG)
METHOD_CASES = [("simple", "5", "6"), ("eq", "== 5", "== 6"), ("gt", "> 3", "> 7"), ("range", "1..=5", "1..5"), ("closure", "|cl_x| cl_x > 3", "|cl_x| cl_x > 7"),
                ("range_const_hi", "1..=HI5", "1..HI5"), ("range_assoc_const", "-1..=i32::MAX", "6..=i32::MAX"),
                ("range_neg_bound", "-1..=5", "-1..5"), ("range_from", "5..", "6.."), ("range_to", "..=5", "..5"), ("ne", "!= 6", "!= 5"), ("le", "<= 5", "< 5")]
# (passing, failing, whether the failing entry formats a value with the counting Debug impl)
DEBUG_CASES = [("c: == 5", "c: == 6", True), ("c: > 3", "c: > 7", True), ("oc: Some(== 5)", "oc: Some(== 6)", True),
               ("oc: Some(_)", "oc: None", True), ("xs: [== 1, == 2]", "xs: [== 1, == 3]", True), ("xs: [== 1, ..]", "xs: [== 1]", True),
               ("xs.len(): 2", "xs.len(): 3", False), ("n: 5, c: >= 5", "n: 6, c: >= 5", False),
               ("c: |cl_x| *cl_x > 3", "c: |cl_x| *cl_x > 7", True), ("oc: Some(|cl_x| *cl_x > 3)", "oc: Some(|cl_x| *cl_x > 7)", True),
               ("xs: [|cl_x| *cl_x > 0, ..]", "xs: [|cl_x| *cl_x > 1, ..]", True), ("c: != 6", "c: != 5", True), ("c: <= 5", "c: < 5", True),
               ("xs[0]: == 1", "xs[0]: == 2", True), ("xs[1]: > 1", "xs[1]: > 2", True),
               # closure patterns over COMPUTED values (method result, index, both): the value is handed to the closure by value,
               # so nothing may format it before the closure has answered
               ("c.clone(): |cl_x| cl_x > 3", "c.clone(): |cl_x| cl_x > 7", True), ("xs[0]: |cl_x| cl_x > 0", "xs[0]: |cl_x| cl_x > 1", True),
               ("xs[1].clone(): |cl_x| cl_x > 1", "xs[1].clone(): |cl_x| cl_x > 2", True),
               ("c.clone(): == 5", "c.clone(): == 6", True)]

# user expressions written INSIDE a pattern, wrapped in the counting function op(..): (passing, failing, where the expression stands).
# An operand, a Like expression or a map key is evaluated exactly once on either path; an argument of a field-operation chain
# follows the chain (once on the passing path; the chain is evaluated again for the message on the failing path: recorded finding)
OPERAND_CASES = [("n: > op(3)", "n: > op(7)", "operand"), ("n: == op(5)", "n: == op(6)", "operand"), ("n: != op(6)", "n: != op(5)", "operand"),
                 ("n: <= op(5)", "n: < op(5)", "operand"), ("n: >= op(5)", "n: > op(5)", "operand"), ("oc: Some(== op(5))", "oc: Some(< op(5))", "operand"),
                 ("xs: [>= op(1), ..]", "xs: [> op(1), ..]", "operand"), ("c: > op(3)", "c: > op(7)", "operand"),
                 ("s: =~ op(\"^he\")", "s: =~ op(\"^zz\")", "like"), ("m: #{ op(\"a\".to_string()): 1, .. }", "m: #{ op(\"a\".to_string()): 2, .. }", "key"),
                 ("m: #{ op(\"a\".to_string()): 1, op(\"b\".to_string()): 2 }", "m: #{ op(\"a\".to_string()): 1, op(\"zz\".to_string()): 2 }", "keys2"),
                 ("h.add(op(1)): 6", "h.add(op(1)): 7", "chain-arg"), ("xs[op(0)]: == 1", "xs[op(0)]: == 2", "chain-arg"),
                 ("h.add(op(1)): > op(5)", "h.add(op(1)): > op(6)", "chain-arg+operand")]

# the same chain / operand written several times in ONE pattern: every written occurrence is evaluated on its own (a stateful call
# - a queue's pop, a channel's recv, a counter - gives each pattern its own result); passing path only (the failing path of a
# chain is the recorded finding).  (pattern, async?, expected calls of the counting method, expected evaluations of op(..))
REPEAT_CASES = [
    ("W { h.bump(): 5, h.bump(): > 3, .. }", False), ("_ { h.bump(): 5, h.bump(): 5, h.bump(): 1..=9, .. }", False),
    ("W { h.bump(): 5, n: 5, h.bump(): == 5, .. }", False), ("W { h.abump().await: 5, .. }", True),
    ("W { h.abump().await: 5, h.abump().await: > 3, .. }", True), ("_ { h.abump().await: 5, h.abump().await: 5, h.abump().await: 1..=9, .. }", True),
    ("W { h.abump().await: 5, n: 5, h.abump().await: |cl_x| cl_x > 3, .. }", True),
    ("W { n: > op(3), c: > op(3), .. }", False), ("W { n: == op(5), n: == op(5), .. }", False),
    ("W { h.add(op(1)): 6, h.add(op(1)): > 5, .. }", False), ("_ { h.add(op(1)): 6, h.add(op(1)): 6, .. }", False),
    ("W { xs[op(0)]: == 1, xs[op(0)]: < 2, .. }", False), ("W { m: #{ op(\"a\".to_string()): 1, op(\"a\".to_string()): > 0, .. }, .. }", False),
    ("W { s: =~ op(\"^he\"), s: =~ op(\"^he\"), .. }", False),
]

# WHEN the expressions written in one pattern are evaluated: each exactly once and in the order in which they are written (a chain
# before the pattern it is followed by) - with a stateful receiver (a cursor's next(), a queue's pop, a clock) the order decides
# which value each pattern tests, so a reordering changes "the value that was tested" while every counter still reads 1.
# Tags are logged by ev(tag, value) / H::step(tag); the expected log is the tags in the order they occur in the pattern text.
# (value expression, pattern, intended verdict)
ORDER_CASES = [
    ("w()", "W { h.step(\"t1\"): 5, n: == ev(\"t2\", 5), h.step(\"t3\"): > 3, .. }", "pass"),
    ("w()", "W { h.step(\"t1\"): 5, c: > ev(\"t2\", 3), h.step(\"t3\"): 5, c: < ev(\"t4\", 9), h.step(\"t5\"): 1..=9, .. }", "pass"),
    ("w()", "_ { h.step(\"t1\"): 5, n: == ev(\"t2\", 5), h.step(\"t3\"): 5, .. }", "pass"),
    ("w()", "W { h: H { v: == ev(\"t1\", 5) }, n: == ev(\"t2\", 5), h.step(\"t3\"): 5, h: H { v: <= ev(\"t4\", 5) }, .. }", "pass"),
    ("w()", "W { n: == ev(\"t1\", 5), s: =~ ev(\"t2\", \"^he\"), n: >= ev(\"t3\", 5), s.len(): == ev(\"t4\", 5), .. }", "pass"),
    ("w()", "W { xs[ev(\"t1\", 0)]: == ev(\"t2\", 1), n: == ev(\"t3\", 5), xs[ev(\"t4\", 1)]: == ev(\"t5\", 2), .. }", "pass"),
    ("w()", "W { xs: [== ev(\"t1\", 1), == ev(\"t2\", 2)], n: == ev(\"t3\", 5), xs: [.., < ev(\"t4\", 3)], .. }", "pass"),
    ("w()", "W { h.add(ev(\"t1\", 1)): 6, oc: Some(== ev(\"t2\", 5)), h.add(ev(\"t3\", 2)): == ev(\"t4\", 7), oc: Some(> ev(\"t5\", 1)), .. }", "pass"),
    ("(1, 2, 3)", "(== ev(\"t1\", 1), == ev(\"t2\", 2), == ev(\"t3\", 3))", "pass"),
    ("(w(), w())", "(W { h.step(\"t1\"): 5, .. }, W { n: == ev(\"t2\", 5), h.step(\"t3\"): 5, .. })", "pass"),
    ("Some(w())", "Some(W { h.step(\"t1\"): 5, n: == ev(\"t2\", 5), h.step(\"t3\"): 5, .. })", "pass"),
    ("P2 { a: 1, b: 2 }", "P2 { a: == ev(\"t1\", 1), b: == ev(\"t2\", 2), a: >= ev(\"t3\", 1), b: <= ev(\"t4\", 2) }", "pass"),
    # an operand that fails is still evaluated once and in its place (operands are not re-evaluated for the message)
    ("w()", "W { h.step(\"t1\"): 5, n: == ev(\"t2\", 6), h.step(\"t3\"): 5, .. }", "fail"),
    ("P2 { a: 1, b: 2 }", "P2 { a: == ev(\"t1\", 1), b: == ev(\"t2\", 3), a: > ev(\"t3\", 1), b: <= ev(\"t4\", 2) }", "fail"),
]

# the same question asked of the MODEL: chains made of the two methods the model knows on this value (`bump`, `clone`; both log their name in
# the real program).  The names the real program logs, the names in the trace of the model's execution (OrderP.mlist) and the names in the
# order they are written must be one and the same list - the per-instance tie of c08_struct_fields_evaluated_in_written_order to rustc
MODEL_ORDER_CASES = [
    "W { h.bump(): 5, n: 5, h.clone().bump(): 5, h.bump(): > 3, .. }", "_ { h.bump(): 5, h.clone().bump(): 1..=9, n: 5, h.bump(): == 5, .. }",
    "W { h.clone().clone().bump(): 5, h.bump(): 5, .. }", "W { n: 5, h.clone().bump(): 5, n: > 1, h.bump(): 5, h.clone().clone().bump(): 5, .. }",
    "W { h.bump(): 5, oc: Some(== 5), h.clone().bump(): |cl_x| cl_x == 5, .. }",
]

NO_MODEL = {"range_const_hi": "range", "range_assoc_const": "range"}

# patterns that assert nothing, at the root and after a chain: (id, body, which counter, expected count by the property)
ZERO_CASES = [
    ("zero_root_wstruct", "let v = w(); assert_struct!(root(v.clone()), _ { .. });", "root"),
    ("zero_root_map", "let v = w(); assert_struct!(root(v.m.clone()), #{ .. });", "root"),
    ("zero_chain_wild", "let v = w(); assert_struct!(v, W { h.bump(): _, .. });", "meth"),
    ("zero_chain_wild_in_wstruct", "let v = w(); assert_struct!(v, _ { h.bump(): _, .. });", "meth"),
    ("zero_chain_map", "let v = w(); assert_struct!(v, W { m.clone(): #{ .. }, h.bump(): _ { .. }, .. });", "meth"),
]

CLASS_TEXT = {
    "C08-accept-everything-patterns-evaluate-nothing": "a pattern that asserts nothing expands to no code, so what it is applied to is never evaluated: "
                                                       "`assert_struct!(next(), _ { .. })` / `#{ .. }` at the root and `h.bump(): _` after a chain evaluate 0 times",
    "C08-fail-path-double-eval": "on the failing path of a leaf or of a composite whose own shape fails, the value expression spliced into "
                                 "format!(\"{:?}\", ..) is evaluated a second time, and that second value is what the report shows: "
                                 "`assert_struct!(next(), > 5)` failing calls next() twice",
    "C08-wildcard-struct-multi-eval": "a wildcard struct pattern evaluates the asserted expression once per listed field: "
                                      "`assert_struct!(next(), _ { a: 1, b: 2, .. })` calls next() twice on the passing path",
    "C08-map-multi-eval": "a map pattern evaluates the asserted expression once for the length check and once per entry: "
                          "`assert_struct!(next(), #{ \"a\": 1, \"b\": 2 })` calls next() three times on the passing path",
}


def run(res):
    res.trusted += ["Coq 8.16.1 kernel (coqc)", "extraction to OCaml (ExtrOcamlBasic only), ocaml/*.ml",
                    "Model/Sem.v's event trace as a model of which generated expressions rustc evaluates, and when (compared with "
                    "call counters in compiled programs on every run)", "rustc; harness/mac; tools/prop_c08.py"]
    res.assumptions += ["set patterns are outside the property (their predicates probe elements repeatedly)",
                        "counters: asserted expression wrapped in a counting function, a counting method in the field-operation chain, a counting Debug impl"]
    vlib.build_coq()
    ths, rep = vlib.check_props("C08")
    res.obligations += ths
    res.discharged += ths
    res.coverage["print_assumptions"] = rep
    vlib.build_model_runner()
    ok, out = maclib.build_mac()
    if not ok:
        raise vlib.CheckError("harness mac does not build against /repo: " + out[-1500:])
    kf = {f["id"] for f in vlib.load_known_findings()["findings"]}
    # ---- build the cases
    cases = []
    for name, ty, vr, vm, pp, pf, cls in ROOT_CASES:
        for outcome, pat in (("pass", pp), ("fail", pf)):
            if pat is None:
                continue
            cases.append({"id": "root_%s_%s" % (name, outcome), "kind": name, "where": "root", "class": cls, "outcome": outcome,
                          "body": "let v: %s = %s; assert_struct!(root(v.clone()), %s);" % (ty, vr, pat),
                          "inv": "root(v.clone()), " + pat, "model_value": vm, "pattern": pat})
    for name, pp, pf in METHOD_CASES:
        for outcome, pat in (("pass", pp), ("fail", pf)):
            full = "W { h.bump(): %s, .. }" % pat
            cases.append({"id": "meth_%s_%s" % (name, outcome), "kind": name, "where": "after-method", "class": None, "outcome": outcome,
                          "body": "let v = w(); assert_struct!(v, %s);" % full, "inv": "v, " + full, "model_value": W_MODEL, "pattern": full})
    for pp, pf, fmt in DEBUG_CASES:
        for outcome, pat in (("pass", pp), ("fail", pf)):
            full = "W { %s, .. }" % pat
            cases.append({"id": "dbg_%d_%s" % (len(cases), outcome), "kind": pat, "where": "debug", "class": None, "outcome": outcome, "formats": fmt,
                          "body": "let v = w(); assert_struct!(root(v.clone()), %s);" % full, "inv": "root(v.clone()), " + full,
                          "model_value": W_MODEL, "pattern": full})
    oper_cases = []
    for pp, pf, where in OPERAND_CASES:
        for outcome, pat in (("pass", pp), ("fail", pf)):
            oper_cases.append({"id": "oper_%d_%s" % (len(oper_cases), outcome), "where": where, "outcome": outcome, "pattern": "W { %s, .. }" % pat,
                               "body": "let v = w(); assert_struct!(v, W { %s, .. });" % pat})
    zero_cases = [{"id": i, "body": b, "counter": k} for i, b, k in ZERO_CASES]
    rep_cases = []
    for pat, is_async in REPEAT_CASES:
        call = "assert_struct!(v, %s);" % pat
        rep_cases.append({"id": "rep_%d" % len(rep_cases), "pattern": pat, "outcome": "pass",
                          "body": "let v = w(); " + ("block_on(async { %s });" % call if is_async else call)})
    ord_cases = [{"id": "ord_%d" % i, "value": v, "pattern": p_, "outcome": o_, "body": "let v = %s; assert_struct!(v, %s);" % (v, p_)}
                 for i, (v, p_, o_) in enumerate(ORDER_CASES)]
    mord_cases = [{"id": "mord_%d" % i, "pattern": p_, "body": "let v = w(); assert_struct!(v, %s);" % p_} for i, p_ in enumerate(MODEL_ORDER_CASES)]
    src = (e2e.PRELUDE + DECLS + "fn main() { std::panic::set_hook(Box::new(|_| {}));\n" +
           "\n".join("    counted(\"%s\", || { %s });" % (c["id"], c["body"]) for c in cases + oper_cases + rep_cases + zero_cases) + "\n" +
           "\n".join("    ordered(\"%s\", || { %s });" % (c["id"], c["body"]) for c in ord_cases + mord_cases) + "\n}\n")
    out = e2e.compile_many([src], run=True, tag="c08")
    e2e.cleanup("c08")
    if not out[0]["compiled"]:
        raise vlib.CheckError("the counter program does not compile: " + out[0]["stderr"][-2500:])
    real = {}
    real_ord = {}
    for l in out[0].get("stdout", "").splitlines():
        if l.startswith("ord "):
            f = l.split(" ")
            real_ord[f[1]] = (f[2], [t for t in (f[3] if len(f) > 3 else "").split(",") if t])
        if l.startswith("cnt "):
            f = l.split(" ")
            real[f[1]] = {"verdict": f[2], **{k: int(v) for k, v in (x.split("=") for x in f[3:])}}
    # ---- model
    mac = maclib.run_mac([c["inv"] for c in cases], mode="parse")
    req = []
    for c, m in zip(cases, mac):
        f = m.split("\t")
        if f[0] != "ok":
            raise vlib.CheckError("the real parser rejects %s: %s" % (c["inv"], m[:200]))
        req.append("sem\t()\t(%s)\t%s\t%s\t%s" % (hx("None"), c["model_value"], f[1], f[2]))
    mod = [semstage.parse_sem_line(l) for l in vlib.run_model(req)]
    name = "correspondence:evaluation counts (real counters == trace of exec(expand))"
    res.obligations.append(name)
    failing = 0
    dis = 0
    known_seen = set()
    by_id = {c["id"]: m for c, m in zip(cases, mod)}
    for c, m in zip(cases, mod):
        r = real.get(c["id"])
        if m["exec"] is None and c["kind"] in NO_MODEL:
            # same template as the literal form of the same kind: its trace and verdict are the prediction
            twin = by_id[c["id"].replace(c["kind"], NO_MODEL[c["kind"]])]
            m = dict(twin)
        if r is None or m["exec"] is None:
            raise vlib.CheckError("no result for case %s (real %s, model %s)" % (c["id"], r, m["exec"]))
        c["real"], c["model"] = r, m["trace"]
        want_verdict = "pass" if m["exec"] == [] else "fail"
        if r["verdict"] != want_verdict or r["verdict"] != c["outcome"]:
            raise vlib.CheckError("case %s: verdict real %s, model %s, intended %s" % (c["id"], r["verdict"], want_verdict, c["outcome"]))
        # only `bump` is instrumented in the real program; only `root(..)`-wrapped expressions count root evaluations
        c["counts_differ"] = (c["where"] == "after-method" and r["meth"] != m["trace"]["method"]) or \
            (c["where"] != "after-method" and r["root"] != m["trace"]["root"])
        if c["counts_differ"]:
            dis += 1
        # the property itself
        if c["where"] in ("root", "debug"):
            n = r["root"]
            if n == 1:
                pass
            elif c["class"] is not None and n == m["trace"]["root"]:
                known_seen.add(c["class"])
            elif c["class"] is None and c["outcome"] == "fail" and n == 2 and m["trace"]["root"] == 2:
                known_seen.add("C08-fail-path-double-eval")
            else:
                failing += 1
                if failing <= 3:
                    res.violation("failing-input", "the asserted expression of `assert_struct!(root(..), %s)` is evaluated %d times on the "
                                  "%sing path (model: %d)" % (c["pattern"], n, c["outcome"], m["trace"]["root"]),
                                  {"program_body": c["body"], "real": r, "model_trace": m["trace"]})
        if c["where"] == "after-method":
            n = r["meth"]
            if n == 1:
                pass
            elif c["outcome"] == "fail" and n == 2 and m["trace"]["method"] == 2:
                known_seen.add("C08-fail-path-double-eval")
            else:
                failing += 1
                if failing <= 3:
                    res.violation("failing-input", "the method in `%s` is called %d times on the %sing path (model: %d)"
                                  % (c["pattern"], n, c["outcome"], m["trace"]["method"]),
                                  {"program_body": c["body"], "real": r, "model_trace": m["trace"]})
        if c["outcome"] == "pass" and r["dbg"] != 0:
            failing += 1
            if failing <= 3:
                res.violation("failing-input", "Debug formatting ran %d time(s) on the passing path of %s" % (r["dbg"], c["pattern"]),
                              {"program_body": c["body"], "real": r})
        if c["where"] == "debug" and c["outcome"] == "fail" and c.get("formats") and r["dbg"] == 0:
            failing += 1
            res.violation("failing-input", "a reported mismatch on a counting-Debug value formatted nothing: %s" % c["pattern"],
                          {"program_body": c["body"], "real": r})
    # user expressions inside the pattern
    oper_bad = 0
    for c in oper_cases:
        r = real.get(c["id"])
        if r is None or r["verdict"] != c["outcome"]:
            raise vlib.CheckError("operand case %s: %r (intended %s)" % (c["pattern"], r, c["outcome"]))
        n_ops = c["pattern"].count("op(")
        want = n_ops
        if c["outcome"] == "fail" and c["where"].startswith("chain-arg"):
            want = n_ops + 1                                   # the chain (and its argument) is evaluated again for the message
            if r["oper"] == want:
                known_seen.add("C08-fail-path-double-eval")
                continue
        if r["oper"] != (n_ops if not (c["outcome"] == "fail" and c["where"].startswith("chain-arg")) else want):
            oper_bad += 1
            failing += 1
            if oper_bad <= 3:
                res.violation("failing-input", "the user expression(s) wrapped in op(..) in `%s` are evaluated %d time(s) on the %sing path (written: %d)"
                              % (c["pattern"], r["oper"], c["outcome"], n_ops), {"program_body": c["body"], "real": r})
    res.streams["operands"] = {"cases": len(oper_cases), "failures": oper_bad}
    rep_bad = 0
    for c in rep_cases:
        r = real.get(c["id"])
        if r is None or r["verdict"] != "pass":
            raise vlib.CheckError("repeated-chain case %s: %r (intended pass)" % (c["pattern"], r))
        w_meth = c["pattern"].count("bump()")
        w_oper = c["pattern"].count("op(")
        if r["meth"] != w_meth or r["oper"] != w_oper:
            rep_bad += 1
            failing += 1
            if rep_bad <= 3:
                res.violation("failing-input", "`%s` writes the counting method %d time(s) and op(..) %d time(s); on the passing path they are "
                              "evaluated %d and %d time(s)" % (c["pattern"], w_meth, w_oper, r["meth"], r["oper"]), {"program_body": c["body"], "real": r})
    # evaluation order: the log of every ordered case is the tags in the order they are written
    import re as _re
    ord_bad = 0
    for c in ord_cases:
        r = real_ord.get(c["id"])
        if r is None or r[0] != c["outcome"]:
            raise vlib.CheckError("evaluation-order case `%s`: %r (intended %s)" % (c["pattern"], r, c["outcome"]))
        written = _re.findall(r'"(t\d+)"', c["pattern"])
        if r[1] != written:
            ord_bad += 1
            failing += 1
            if ord_bad <= 3:
                res.violation("failing-input", "`assert_struct!(%s, %s)` writes its chains and operands in the order %s; they are evaluated in the order %s "
                              "(with a stateful receiver each pattern then tests another value than the one written before it)"
                              % (c["value"], c["pattern"], " ".join(written), " ".join(r[1])), {"program_body": c["body"], "evaluated": r[1], "written": written})
    # ... and the model's own order on the chains it can express
    mmac2 = maclib.run_mac(["v, " + c["pattern"] for c in mord_cases], mode="parse")
    mreq2 = []
    for c, m_ in zip(mord_cases, mmac2):
        f_ = m_.split("\t")
        if f_[0] != "ok":
            raise vlib.CheckError("the real parser rejects %s: %s" % (c["pattern"], m_[:200]))
        mreq2.append("sem\t()\t(%s)\t%s\t%s\t%s" % (hx("None"), W_MODEL, f_[1], f_[2]))
    mord_dis = 0
    for c, l_ in zip(mord_cases, vlib.run_model(mreq2)):
        m_ = semstage.parse_sem_line(l_)
        r_ = real_ord.get(c["id"])
        written = _re.findall(r"\b(bump|clone)\(\)", c["pattern"])
        model_order = m_["trace"].get("order") if m_["exec"] == [] else None
        if r_ is None or r_[0] != "pass":
            raise vlib.CheckError("model-order case `%s`: %r (intended pass)" % (c["pattern"], r_))
        if r_[1] != written:
            ord_bad += 1
            failing += 1
            res.violation("failing-input", "`assert_struct!(w(), %s)` writes the calls %s; they are evaluated in the order %s" % (c["pattern"], " ".join(written), " ".join(r_[1])),
                          {"program_body": c["body"], "evaluated": r_[1], "written": written})
        elif model_order != written:
            mord_dis += 1
            dis += 1
    res.streams["evaluation-order(model)"] = {"cases": len(mord_cases), "model_disagreements": mord_dis}
    res.streams["evaluation-order"] = {"cases": len(ord_cases), "failures": ord_bad, "failing_path_cases": sum(1 for c in ord_cases if c["outcome"] == "fail")}
    # patterns that assert nothing: what they are applied to must still be evaluated once (recorded finding when it is 0 times)
    zero_bad = 0
    for c in zero_cases:
        r = real.get(c["id"])
        if r is None or r["verdict"] != "pass":
            raise vlib.CheckError("accept-everything case %s: %r (intended pass)" % (c["id"], r))
        n = r[c["counter"]]
        if n == 1:
            continue
        if n == 0:
            known_seen.add("C08-accept-everything-patterns-evaluate-nothing")
            continue
        zero_bad += 1
        failing += 1
        res.violation("failing-input", "`%s`: what a pattern that asserts nothing is applied to is evaluated %d times" % (c["body"], n), {"program_body": c["body"], "real": r})
    res.streams["accept-everything-patterns"] = {"cases": len(zero_cases), "evaluated_zero_times": sum(1 for c in zero_cases if real[c["id"]][c["counter"]] == 0), "failures": zero_bad}
    # the model's trace for the repeated chains it can express (the synchronous counting method, no op(..) wrapper): exec(expand)
    # must count what the real counters count
    mrep = [c for c in rep_cases if "abump" not in c["pattern"] and "op(" not in c["pattern"]]
    mmac = maclib.run_mac(["v, " + c["pattern"] for c in mrep], mode="parse")
    mreq = []
    for c, m in zip(mrep, mmac):
        f = m.split("\t")
        if f[0] != "ok":
            raise vlib.CheckError("the real parser rejects %s: %s" % (c["pattern"], m[:200]))
        mreq.append("sem\t()\t(%s)\t%s\t%s\t%s" % (hx("None"), W_MODEL, f[1], f[2]))
    rep_model_dis = 0
    for c, l in zip(mrep, vlib.run_model(mreq)):
        m = semstage.parse_sem_line(l)
        if m["exec"] is None or m["trace"]["method"] != real[c["id"]]["meth"] or (m["exec"] == []) != (real[c["id"]]["verdict"] == "pass"):
            rep_model_dis += 1
            dis += 1
    res.streams["repeated-chains"] = {"cases": len(rep_cases), "failures": rep_bad, "compared_with_the_model_trace": len(mrep), "model_disagreements": rep_model_dis}
    for cls in sorted(known_seen):
        if cls in kf:
            res.known.append(CLASS_TEXT[cls])
        else:
            failing += 1
            res.violation("failing-input", CLASS_TEXT[cls], {"class": cls})
    if dis and not failing:
        bad = [c for c in cases if c["counts_differ"]][0]
        res.violation("no-failing-input-found", "correspondence evaluation counts no longer checks: real counters differ from the model's "
                      "trace on %d cases" % dis, {"first_disagreement": {"program_body": bad["body"], "real": bad["real"], "model_trace": bad["model"]}})
    if not dis and not failing:
        res.discharged.append(name)
    # how often each value expression occurs in the generated code is fixed by the token-exact correspondence
    # (c08_count_formula is about the model's expansion; the real one must be that expansion)
    import expstage
    name_x = "correspondence:expander(token-exact: occurrences of every value expression)"
    res.obligations.append(name_x)
    xrecs = expstage.run_stage(res, "quick", res.seed)
    xdis = [r for r in xrecs if r.status == "ok" and r.tokens != r.model]
    res.streams["expander"] = {"invocations": len(xrecs), "token_disagreements": len(xdis)}
    if xdis and not failing and not dis:
        res.violation("no-failing-input-found", "correspondence expander no longer checks: the real expansion differs from the model's on %d invocations "
                      "(the evaluation-count theorems are about the model's expansion)" % len(xdis),
                      {"first_disagreement": {"invocation": xdis[0].text, "difference": expstage.maclib.first_diff(xdis[0].tokens, xdis[0].model)}})
    if not xdis:
        res.discharged.append(name_x)
    res.streams["counts"] = {"cases": len(cases), "disagreements_with_model": dis, "property_failures": failing,
                             "known_classes_reproduced": sorted(known_seen)}
    res.coverage.update({
        "evaluations": len(cases), "distinct_nontrivial": sum(1 for c in cases if c["outcome"] == "fail" or c["class"]),
        "rule": "every pattern kind at the root (asserted expression wrapped in a counting function), the leaf kinds after a counting "
                "method in the field-operation chain, and comparisons / variants / slices over values with a counting Debug impl; each on "
                "the passing and on the failing path; counters compared with the event trace of the model's execution and with the "
                "property (exactly once; Debug only when reported); non-trivial = failing-path cases and known-class cases",
        "samples": [{"case": c["id"], "pattern": c["pattern"], "real": c["real"], "model_trace": c["model"]} for c in cases[:2] + cases[-2:]],
    })


def replay(res, path):
    v = json.load(open(path))
    body = v.get("program_body") or v.get("first_disagreement", {}).get("program_body")
    src = e2e.PRELUDE + DECLS + "fn main() { std::panic::set_hook(Box::new(|_| {})); counted(\"r\", || { %s }); ordered(\"r\", || { %s }); }\n" % (body, body)
    out = e2e.compile_many([src], run=True, tag="c08r")
    e2e.cleanup("c08r")
    print(out[0].get("stdout", out[0]["stderr"][-500:]))
    return 0
