"""C16 — disabling the regex feature removes only regex matching."""
import json
import re

import e2e
import maclib
import repofacts
import semgen
import semstage
import vlib
from vlib import hx

USER_DECLS = r'''
struct Even;
impl assert_struct::Like<Even> for i32 { fn like(&self, _: &Even) -> bool { self % 2 == 0 } }
struct Prefix(&'static str);
impl assert_struct::Like<Prefix> for String { fn like(&self, p: &Prefix) -> bool { self.starts_with(p.0) } }
trait MkPrefix { fn prefix(self) -> Prefix; }
impl MkPrefix for &'static str { fn prefix(self) -> Prefix { Prefix(self) } }
struct Len(usize);
impl assert_struct::Like<Len> for String { fn like(&self, n: &Len) -> bool { self.len() == n.0 } }
trait MkLen { fn l(self) -> Len; }
impl MkLen for usize { fn l(self) -> Len { Len(self) } }
fn even() -> Even { Even }
#[derive(Debug)] struct U { n: i32, s: String, o: Option<i32>, v: Vec<i32> }
fn u() -> U { U { n: 4, s: "hello".to_string(), o: Some(7), v: vec![2, 3] } }
'''
# assertions that rely on a USER Like impl: must compile and behave identically in both configurations
USER_LIKE = ["U { n: =~ Even, .. }", "U { s: =~ Prefix(\"he\"), .. }", "U { s: =~ Prefix(\"zz\"), .. }", "U { o: Some(=~ Even), .. }",
             "U { v: [=~ Even, ..], .. }", "U { v: [_, =~ Even], .. }", "U { n: =~ Even, s: =~ Prefix(\"x\"), o: Some(> 9), .. }",
             "_ { n: =~ Even, .. }", "U { v: #(=~ Even, 3), .. }", "U { v.len(): 2, n: =~ Even, .. }",
             # operands of every expression shape: beginning with a string literal, a call, a block, a reference, parenthesised
             "U { s: =~ \"he\".prefix(), .. }", "U { s: =~ \"zz\".prefix(), .. }", "U { s: =~ \"hello\".len().l(), .. }", "U { s: =~ (\"he\").prefix(), .. }",
             "U { n: =~ even(), .. }", "U { n: =~ { Even }, .. }", "U { s: =~ Prefix(&\"hello\"[..2]), .. }", "U { s: =~ r\"he\".prefix(), .. }"]
# assertions over user Like impls whose ACCEPTANCE is not obvious (the pattern expression is a reference, a box, an Rc; the value a &str, a
# Cow, a reference to a String; several Like impls on one value type, so that inference cannot pick the only one): whatever rustc says of
# each - accepted or rejected - it must say in BOTH configurations, with the same verdict: no regex literal is involved anywhere
AGREE_DECLS = r'''
use std::borrow::Cow; use std::rc::Rc;
impl assert_struct::Like<Prefix> for &str { fn like(&self, p: &Prefix) -> bool { self.starts_with(p.0) } }
impl assert_struct::Like<Len> for &str { fn like(&self, n: &Len) -> bool { self.len() == n.0 } }
#[derive(Debug)] struct V2 { s: String, r: &'static str, c: Cow<'static, str>, rs: &'static String, n: i32, o: Option<String> }
fn v2() -> V2 { V2 { s: "hello".to_string(), r: "hello", c: Cow::Borrowed("hello"), rs: Box::leak(Box::new("hello".to_string())), n: 4, o: Some("hello".to_string()) } }
fn by_ref(p: &Prefix, l: &Len, e: &Even) -> (bool, bool) { let v = v2(); let _ = (p, l, e); (true, true) }
'''
AGREE = ["V2 { s: =~ &Prefix(\"he\"), .. }", "V2 { s: =~ &Len(5), .. }", "V2 { s: =~ pref, .. }", "V2 { s: =~ *pref, .. }", "V2 { s: =~ &&Prefix(\"he\"), .. }",
         "V2 { s: =~ Box::new(Prefix(\"he\")), .. }", "V2 { s: =~ Rc::new(Len(5)), .. }", "V2 { r: =~ Prefix(\"he\"), .. }", "V2 { r: =~ &Prefix(\"he\"), .. }",
         "V2 { r: =~ lenr, .. }", "V2 { c: =~ Prefix(\"he\"), .. }", "V2 { c: =~ &Len(5), .. }", "V2 { rs: =~ Prefix(\"he\"), .. }", "V2 { rs: =~ pref, .. }",
         "V2 { n: =~ &Even, .. }", "V2 { n: =~ evr, .. }", "V2 { o: Some(=~ pref), .. }", "V2 { o: Some(=~ &Len(4)), .. }", "V2 { s.as_str(): =~ pref, .. }",
         "V2 { s.clone(): =~ &Prefix(\"zz\"), .. }", "_ { s: =~ lenr, .. }", "V2 { s: =~ &&Len(5), .. }", "V2 { o: Some(=~ Box::new(Prefix(\"he\"))), .. }", "V2 { rs: =~ &Len(5), .. }"]
# (patterns of type String / &str are NOT in this list: the library's own Like<String> / Like<&str> impls for strings compile their operand as a
# regex, and are part of what the feature provides)
# regex literals in every position: must be rejected at compile time without the feature
REGEX_LIT = ["U { s: =~ r\"^he\", .. }", "U { s: =~ \"^he\", .. }", "_ { s: =~ r\"lo$\", .. }", "U { n: 4, s: =~ r\"x\", .. }",
             "U { o: Some(7), s: =~ r\"^h\", v: [2, 3], .. }"]
REGEX_LIT_OTHER = [("Option<String>", "Some(\"abc\".to_string())", "Some(=~ r\"^a\")"), ("Vec<String>", "vec![\"abc\".to_string()]", "[=~ r\"c$\"]"),
                   ("(i32, String)", "(1, \"abc\".to_string())", "(1, =~ r\"b\")"), ("String", "\"abc\".to_string()", "=~ r\"^abc$\""),
                   ("Vec<String>", "vec![\"abc\".to_string()]", "#(=~ r\"b\")")]


# a user type with its own Like<&str> (and, where the feature exists, Like<Regex>): with the feature off the literal form must
# still be a compile error, not a call of the user's Like<&str> with the literal (another meaning); the same assertion with the
# pattern in a variable is the control (user Like impls keep working)
TAG_DECLS = r'''
#[derive(Debug)] struct Tag(String);
impl assert_struct::Like<&str> for Tag { fn like(&self, p: &&str) -> bool { self.0.contains(*p) } }
#[derive(Debug)] struct TT { t: Tag, n: i32 }
fn tt() -> TT { TT { t: Tag("a.c".to_string()), n: 1 } }
'''
TAG_DECLS_ON = TAG_DECLS + r'''
impl assert_struct::Like<assert_struct::__macro_support::Regex> for Tag {
    fn like(&self, p: &assert_struct::__macro_support::Regex) -> bool { p.is_match(&self.0) }
}
'''
TAG_LIT = ["TT { t: =~ \"a.c\", .. }", "TT { t: =~ r\"x|a\", n: 1 }", "_ { t: =~ \"c$\", .. }"]
TAG_CONTROL = ["TT { t: =~ tagpat, .. }"]


def tag_program(pattern, on):
    return program(["    run_case(\"r\", || { let tagpat = \"a.c\"; let v = tt(); assert_struct!(v, %s); });" % pattern], TAG_DECLS_ON if on else TAG_DECLS)


def program(bodies, decls=""):
    return (e2e.PRELUDE + semgen.DECLS + decls + "fn main() {\n    std::panic::set_hook(Box::new(|_| {}));\n"
            "    let _plain = assert_struct::__macro_support::PlainOutputGuard::new();\n" + "\n".join(bodies) + "\n}\n")


def case_lines(stdout):
    return {l.split(" ")[1]: l for l in stdout.splitlines() if l.startswith("case ")}


def run(res):
    res.trusted += ["Coq 8.16.1 kernel (coqc)", "extraction to OCaml (ExtrOcamlBasic only), ocaml/*.ml",
                    "tools/repofacts.py (translator: Cargo.toml feature tables, the dependency edge, the cfg(feature = \"regex\") inventory -> gen/RepoFacts.v)",
                    "Model/Features.v's `resolve` as a model of cargo's feature resolution for these two crates (compared with two real cargo builds on every run)",
                    "cargo + rustc; harness/e2e built with and without default features; harness/mac built with and without its regex feature"]
    res.assumptions += ["a dependent crate selects assert-struct either with default features or with default-features = false and no explicit features",
                        "no other crate in the dependency graph enables assert-struct-macros/regex (feature unification)"]
    vlib.build_coq()
    facts = repofacts.facts()
    proof_error = None
    try:
        vlib.build_fact_dependents(["Proofs/FeaturesP.v"])
        ths, rep = vlib.check_props("C16")
        res.obligations += ths
        res.discharged += ths
        res.coverage["print_assumptions"] = rep
    except vlib.CheckError as e:
        # the facts regenerated from /repo no longer support the theorems: search for a failing input below
        proof_error = str(e)
        res.obligations.append("Props/C16.v against the regenerated facts")
    vlib.build_model_runner()
    okm, outm = maclib.build_mac()
    if not okm:
        raise vlib.CheckError("harness mac does not build against /repo: " + outm[-1500:])

    # ---- (A) one corpus, two configurations --------------------------------------------------
    n = 240 if res.tier == "quick" else 4000
    cases = [c for c in semstage.gen_cases(res.seed + 16, n * 2) if "=~" not in c["pattern"]][:n]
    per = 120
    progs = []
    ids = []
    for b in range(0, len(cases), per):
        body = []
        for i, c in enumerate(cases[b:b + per]):
            body.append("    run_case(\"%d\", || { %s let v: %s = %s; assert_struct!(v, %s); });"
                        % (b + i, semgen.CALLER_LETS, c["type"], c["value_rust"], c["pattern"]))
            ids.append(str(b + i))
        progs.append(program(body))
    ubody = ["    run_case(\"u%d\", || { let v = u(); assert_struct!(v, %s); });" % (i, p) for i, p in enumerate(USER_LIKE)]
    ubody.append("    run_case(\"u_root\", || { let v = 6; assert_struct!(v, =~ Even); });")
    progs.append(program(ubody, USER_DECLS))
    on = e2e.compile_many(progs, run=True, regex=True, tag="c16")
    off = e2e.compile_many(progs, run=True, regex=False, tag="c16")
    e2e.cleanup("c16")
    e2e.cleanup("c16")
    name_a = "correspondence:one corpus, two configurations (verdict, entries, message identical)"
    res.obligations.append(name_a)
    failing = 0
    compared = 0
    fails_compared = 0
    for k, (a, b) in enumerate(zip(on, off)):
        if not a["compiled"]:
            raise vlib.CheckError("a corpus program does not compile with default features: " + a["stderr"][-2000:])
        if not b["compiled"]:
            failing += 1
            which = "user Like impls" if k == len(progs) - 1 else "no regex literal and no Like pattern"
            codes = sorted(set(e2e.error_codes(b["stderr"])))
            first = next((l for l in b["stderr"].splitlines() if l.startswith("error")), "")
            res.violation("failing-input", "a program whose assertions use %s compiles with default features but is rejected with "
                          "default-features = false: %s %s" % (which, codes[:3], first[:200]),
                          {"program": progs[k][-3000:], "stderr": b["stderr"][-2000:]})
            continue
        la, lb = case_lines(a.get("stdout", "")), case_lines(b.get("stdout", ""))
        for cid in la:
            compared += 1
            if " fail " in la[cid]:
                fails_compared += 1
            if la[cid] != lb.get(cid):
                failing += 1
                if failing <= 3:
                    res.violation("failing-input", "case %s gives a different verdict or report without the regex feature" % cid,
                                  {"with_feature": la[cid][:600], "without_feature": (lb.get(cid) or "")[:600]})
    # ---- (A') acceptance itself must not depend on the feature where no regex literal is involved -------
    name_g = "direct:an assertion without a regex literal is accepted, and gives the same verdict, in both configurations or in neither (%d programs)" % len(AGREE)
    res.obligations.append(name_g)
    aprogs = [program(["    run_case(\"g\", || { let v = v2(); let (pref, lenr, evr, pats): (&Prefix, &Len, &Even, &str) = (&Prefix(\"he\"), &Len(5), &Even, \"^he\"); "
                       "let _ = (pref, lenr, evr, pats); assert_struct!(v, %s); });" % p_], USER_DECLS + AGREE_DECLS) for p_ in AGREE]
    a_on = e2e.compile_many(aprogs, run=True, regex=True, tag="c16g")
    a_off = e2e.compile_many(aprogs, run=True, regex=False, tag="c16g")
    e2e.cleanup("c16g")
    agree_bad = 0
    agree_stats = {"accepted_in_both": 0, "rejected_in_both": 0}
    for p_, a, b, src in zip(AGREE, a_on, a_off, aprogs):
        if a["compiled"] != b["compiled"]:
            why = "is accepted with default features and rejected with default-features = false" if a["compiled"] else "is rejected with default features and accepted with default-features = false"
            first = next((l for l in (b if a["compiled"] else a)["stderr"].splitlines() if l.startswith("error")), "")
        elif a["compiled"] and case_lines(a.get("stdout", "")) != case_lines(b.get("stdout", "")):
            why, first = "gives a different verdict or report in the two configurations", ""
        else:
            agree_stats["accepted_in_both" if a["compiled"] else "rejected_in_both"] += 1
            continue
        agree_bad += 1
        failing += 1
        if agree_bad <= 3:
            res.violation("failing-input", "`%s` (no regex literal and no string operand; user Like impls only) %s %s" % (p_, why, first[:160]), {"program": src[-2500:]})
    res.streams["acceptance_agrees"] = dict(agree_stats, programs=len(AGREE), failures=agree_bad)
    if not agree_bad:
        res.discharged.append(name_g)
    # ---- (B) regex literals: accepted with the feature, rejected at compile time without -------
    lit_progs = [program(["    run_case(\"r\", || { let v = u(); assert_struct!(v, %s); });" % p], USER_DECLS) for p in REGEX_LIT] + \
                [program(["    run_case(\"r\", || { let v: %s = %s; assert_struct!(v, %s); });" % (t, v, p)]) for t, v, p in REGEX_LIT_OTHER]
    lit_pats = REGEX_LIT + [p for _, _, p in REGEX_LIT_OTHER]
    tag_on = [tag_program(p, True) for p in TAG_LIT + TAG_CONTROL]
    tag_off = [tag_program(p, False) for p in TAG_LIT + TAG_CONTROL]
    lon = e2e.compile_many(lit_progs + tag_on, run=False, regex=True, tag="c16lon")
    loff = e2e.compile_many(lit_progs + tag_off, run=False, regex=False, tag="c16loff")
    e2e.cleanup("c16lon")
    e2e.cleanup("c16loff")
    ton, toff = lon[len(lit_progs):], loff[len(lit_progs):]
    lon, loff = lon[:len(lit_progs)], loff[:len(lit_progs)]
    name_t = "direct:a regex literal on a user type with its own Like<&str> is a compile error without the feature (%d programs + control)" % len(TAG_LIT)
    res.obligations.append(name_t)
    tag_bad = 0
    for k, p in enumerate(TAG_LIT + TAG_CONTROL):
        if not ton[k]["compiled"]:
            raise vlib.CheckError("a user-Like program does not compile WITH the feature: " + ton[k]["stderr"][-1500:])
        if k >= len(TAG_LIT):
            if not toff[k]["compiled"]:
                tag_bad += 1
                res.violation("failing-input", "`%s` (a user Like impl, pattern in a variable) is rejected with default-features = false: user-implemented "
                              "Like patterns must keep working" % p, {"program": tag_off[k][-1500:], "stderr": toff[k]["stderr"][-1200:]})
        elif toff[k]["compiled"]:
            tag_bad += 1
            res.violation("failing-input", "`%s` on a type with a user Like<&str> impl is accepted with default-features = false, with the user's meaning "
                          "instead of regex matching (the property requires a compile error)" % p, {"program": tag_off[k][-1500:]})
    if not tag_bad:
        res.discharged.append(name_t)
    # model's prediction for the same invocations (real parser's tree -> extracted has_regex / compiles_in)
    inv = ["v, " + p for p in lit_pats] + ["v, " + c["pattern"] for c in cases] + ["v, " + p for p in USER_LIKE]
    mac = maclib.run_mac(inv, mode="expand")
    req, tok_refs = [], []
    for i_, m in zip(inv, mac):
        f = m.split("\t")
        if f[0] != "ok":
            raise vlib.CheckError("the real parser (built with the regex feature) rejects %s: %s" % (i_, m[:200]))
        req.append("refs\t1\t%s\t%s" % (f[1], f[2]))
        text = maclib.text_of_tokens(f[4]).replace(":~ :", "::")
        paths = set(re.findall(r":: assert_struct :: __macro_support :: (\w+)", text)) | set(re.findall(r":: assert_struct :: (?!__macro_support)(\w+)", text))
        tok_refs.append(",".join(sorted(paths - {"NodeKind", "ComparisonOp"})))
    mod = vlib.run_model(req)
    name_b = "correspondence:runtime items referenced by the real expansion == model's; rustc accept/reject per configuration == model's compiles_in"
    res.obligations.append(name_b)
    dis = 0
    first_dis = None
    for k, (i_, m, tr) in enumerate(zip(inv, mod, tok_refs)):
        kv = dict(x.split("=") for x in m.split(" "))
        if kv["refs"] != tr:
            dis += 1
            first_dis = first_dis or {"invocation": i_, "real_expansion_refers_to": tr, "model": kv["refs"]}
        if k < len(lit_pats):
            acc_on, acc_off = lon[k]["compiled"], loff[k]["compiled"]
            if not acc_on:
                raise vlib.CheckError("a regex-literal program does not compile WITH the feature: " + lon[k]["stderr"][-1500:])
            if acc_off:
                failing += 1
                res.violation("failing-input", "`%s` is accepted at compile time with default-features = false (the property requires a compile error, "
                              "not another meaning)" % lit_pats[k], {"program": lit_progs[k][-1200:]})
            if (kv["off"] == "1") != acc_off or kv["on"] != "1" or kv["has_regex"] != "1":
                dis += 1
                first_dis = first_dis or {"invocation": i_, "rustc_accepts_without_feature": acc_off, "model": m}
        else:
            if kv["off"] != "1" or kv["has_regex"] != "0":
                dis += 1
                first_dis = first_dis or {"invocation": i_, "model": m, "note": "regex-free case predicted to need the feature"}
    # ---- (C) the macro front end with and without ITS feature: the `=` rule --------------------
    probes = ["v, =~ x", "v, =~ r\"a\"", "v, == 1", "v, S { a: =~ x, .. }", "v, = 1", "v, =", "v, =! 1", "v, Some(=~ r\"a\")"]
    with_f = [m.split("\t")[0] for m in maclib.run_mac(probes, mode="parse")]
    okn, outn = maclib.build_mac(features=[])
    without_f = None
    if okn:
        without_f = [m.split("\t")[0] for m in maclib.run_mac(probes, mode="parse")]
    maclib.build_mac()      # restore the default build for the other checks
    mreq = []
    for p in probes:
        body = p.split("=", 1)[1] if "=" in p else ""
        second = body[:1] if body[:1] in ("=", "~", "!") else "-"
        mreq.append(second)
    m_with = vlib.run_model(["eqdispatch\t1\t%s" % s for s in mreq])
    m_without = vlib.run_model(["eqdispatch\t0\t%s" % s for s in mreq])
    name_c = "correspondence:`=` disambiguation of the real parser built with and without its regex feature == dispatch_eq"
    res.obligations.append(name_c)
    dis_c = 0
    if without_f is None:
        dis_c += 1
        first_dis = first_dis or {"note": "harness mac does not build without its regex feature", "stderr": outn[-800:]}
    else:
        for p, a, b, ma, mb in zip(probes, with_f, without_f, m_with, m_without):
            if (a == "ok") != (ma != "err") or (b == "ok") != (mb != "err"):
                dis_c += 1
                first_dis = first_dis or {"probe": p, "parser_with_feature": a, "parser_without": b, "model_with": ma, "model_without": mb}
    res.streams["two_configurations"] = {"programs": len(progs), "cases_compared": compared, "failing_cases_compared": fails_compared,
                                         "user_like_cases": len(USER_LIKE) + 1, "regex_literal_programs": len(lit_progs),
                                         "failures": failing, "model_disagreements": dis + dis_c,
                                         "wiring": {k: facts[k] for k in ("runtime_features", "macro_features", "edge_default", "edge_features")},
                                         "runtime_gates": facts["runtime_gates"], "macro_gates": len(facts["macro_gates"])}
    failing += tag_bad
    if not failing:
        res.discharged.append(name_a)
    if not dis and not failing:
        res.discharged.append(name_b)
    if not dis_c:
        res.discharged.append(name_c)
    if proof_error and not failing:
        res.violation("no-failing-input-found", "Props/C16.v no longer checks against the facts regenerated from /repo (feature tables, dependency edge, "
                      "cfg gates): " + proof_error[-900:], {"theorem_file": "coq/Props/C16.v, coq/Proofs/FeaturesP.v", "facts": facts})
    elif (dis or dis_c) and not failing:
        res.violation("no-failing-input-found", "correspondence between the model of the feature (Features.v) and the two real builds no longer checks "
                      "(%d disagreements)" % (dis + dis_c), {"first_disagreement": first_dis})
    res.coverage.update({
        "evaluations": compared + len(lit_progs) + len(probes), "distinct_nontrivial": fails_compared + len(lit_progs) + len(USER_LIKE),
        "rule": "the shared semantic corpus without `=~` plus hand-written assertions over user Like impls, built as one dependent crate twice (assert-struct "
                "with default features / with default-features = false): every case line (verdict, entries with texts, rendered message) must be "
                "identical; regex literals in every position compiled alone in both configurations; the macro's parser built with and without its own "
                "feature on `=` probes; non-trivial = failing cases compared + regex-literal programs + user-Like cases",
        "samples": [{"pattern": c["pattern"], "type": c["type"]} for c in cases[:2]] + [{"pattern": USER_LIKE[0]}, {"regex_literal": lit_pats[0]}],
    })


def replay(res, path):
    v = json.load(open(path))
    print(json.dumps(v, indent=1, ensure_ascii=False)[:2500])
    return 1
