"""C06 — a failed assertion is always one ordinary, catchable panic with the report."""
import json
import random

import mspan
import textgen
import vlib
from vlib import hx, unhx


def span_line(mode, text, q):
    return "\t".join(["span", mode, hx(text)] + [str(x) for x in q])


def parse(line):
    f = line.split("\t")
    return f[1], unhx(f[2]).decode("utf-8"), [int(x) for x in f[3:7]]


AGAIN = set()      # cases whose second report in the same process differed from the first


def describe_line(line):
    try:
        mode, text, q = parse(line)
        return "source state `%s`, recorded position %s" % (mode, q)
    except Exception:
        return line[:200]


def oracle(line, impl):
    mode, text, q = parse(line)
    if line in AGAIN:
        return "the same failure reported a second time in the same process gives a different message (or one of the two panics)"
    if "PANIC" in impl:
        return "formatting the report panicked (inside the panic machinery this aborts the process): %s" % impl
    if impl.startswith("MULTISPAN"):
        return "more than one annotation for one entry"
    if impl.startswith("span"):
        f = impl.split()
        s, e = int(f[1]), int(f[2])
        shown = "x" if mode == "stale" else text
        if mode == "stale":
            shown = text  # the cached (first-read) content is what is rendered
        if "hdr=1" not in impl or "lbl=1" not in impl:
            return "rendered report lacks the header or the entry's label: %s" % impl
        if not (s < e):
            return "empty or inverted span %d..%d" % (s, e)
        if not textgen.is_boundary(shown, s) or not textgen.is_boundary(shown, e):
            return "span %d..%d is not on character boundaries of the source" % (s, e)
        return None
    if impl.startswith("fallback"):
        t = unhx(impl.split()[1]).decode("utf-8")
        if not t.startswith("assert_struct! failed:") or "got ACTUAL" not in t or "span_src.rs:%d" % q[0] not in t:
            return "fallback listing lacks header, location or label: %r" % t
        if mode in ("ok", "stale"):
            return "source was readable but the fallback listing was used"
        return None
    return "unrecognised harness output: " + impl


def gen(tier, seed):
    rng = random.Random(seed * 7919 + 6)
    cases = []
    n_texts = 400 if tier == "quick" else 6000
    for kt in range(n_texts):
        text = textgen.rand_text(rng)
        if kt % 8 == 7:
            text = textgen.BOM + text      # a file saved with a byte-order mark (the first line is treated apart)
        n = len(text)
        for _ in range(6):
            r = rng.random()
            if r < 0.45 and n > 0:      # a real token range
                i = rng.randrange(0, n)
                j = rng.randint(i, min(n, i + 6))
                q = list(textgen.linecol(text, i)) + list(textgen.linecol(text, j))
            elif r < 0.6:               # stale positions: file edited since compilation
                q = [rng.randint(0, 9), rng.randint(0, 20), rng.randint(0, 9), rng.randint(0, 20)]
            elif r < 0.7:
                q = [0, 0, 0, 0]
            elif r < 0.8:               # far outside
                q = [rng.choice([1, 2, 1000, 4294967295]), rng.choice([0, 5, 4294967295]),
                     rng.choice([1, 3, 4294967295]), rng.choice([0, 7, 4294967295])]
            else:                       # inverted / same
                i = rng.randint(0, n)
                j = rng.randint(0, n)
                q = list(textgen.linecol(text, i)) + list(textgen.linecol(text, j))
            cases.append(span_line("ok", text, q))
    # faults applied to the source file between compilation and failure
    for mode in ("missing", "dir", "nonutf8", "stale"):
        for _ in range(25 if tier == "quick" else 300):
            text = textgen.rand_text(rng) or "é"
            n = len(text)
            i = rng.randint(0, n)
            j = rng.randint(i, n)
            cases.append(span_line(mode, text, list(textgen.linecol(text, i)) + list(textgen.linecol(text, j))))
        # the same faults with positions that are not a forward range: inverted (a node whose first and last anchor tokens come from
        # different places - a macro_rules! wrapper - can end before it starts), zero, far outside
        for q in ([5, 3, 2, 1], [9, 0, 1, 0], [2, 7, 2, 3], [0, 0, 0, 0], [4294967295, 0, 1, 0], [1, 0, 4294967295, 4294967295], [3, 4294967295, 3, 0]):
            cases.append(span_line(mode, "line one\nline two\nline three\n", q))
        for _ in range(6 if tier == "quick" else 60):
            cases.append(span_line(mode, "a\nb\nc\n", [rng.randint(0, 12), rng.randint(0, 9), rng.randint(0, 12), rng.randint(0, 9)]))
    # fixed corner cases (regression corpus)
    for text, q in [("", [1, 0, 1, 0]), ("", [0, 0, 0, 0]), ("é", [1, 0, 1, 1]), ("é", [1, 1, 1, 1]),
                    ("S { name: \"日本語日本語日本語\", age: 31, .. }", [1, 28, 1, 30]),
                    ("a\r\nb", [2, 0, 2, 1]), ("\n\n\n", [3, 0, 3, 0]), ("ab", [1, 2, 1, 2]), ("ab", [1, 3, 1, 9])]:
        cases.append(span_line("ok", text, q))
    return cases


PANIC_SHAPE_PROGRAM = r"""
use std::panic::{catch_unwind, AssertUnwindSafe};
use std::sync::Mutex;
static SEEN: Mutex<Vec<String>> = Mutex::new(Vec::new());
#[derive(Debug)] struct P { a: i32, b: String }
fn p() -> P { P { a: 1, b: "x".to_string() } }
/// what a failing assertion looked like to the code around it
fn shape(r: std::thread::Result<()>) -> String {
    match r {
        Ok(()) => "returned-normally".to_string(),
        Err(e) => match e.downcast::<String>() {
            Ok(s) => format!("panic:String:{}", if s.contains("assert_struct! failed") && s.contains("got ") { "report" } else { "other-text" }),
            Err(e) => if e.downcast_ref::<&str>().is_some() { "panic:&str".to_string() } else { "panic:other-payload".to_string() },
        },
    }
}
fn failing() { let v = p(); assert_struct!(v, P { a: 2, b: "y" }); }
/// the assertion fails inside the destructor of a value that is dropped because ANOTHER panic is unwinding
struct InDrop(&'static str);
impl Drop for InDrop { fn drop(&mut self) { let r = catch_unwind(|| failing()); SEEN.lock().unwrap().push(format!("{} {}", self.0, shape(r))); } }
/// a value whose Debug impl observes how often it is formatted
fn main() {
    std::panic::set_hook(Box::new(|_| {}));
    let _plain = assert_struct::__macro_support::PlainOutputGuard::new();
    println!("shape plain {}", shape(catch_unwind(|| failing())));
    println!("shape nested {}", shape(catch_unwind(|| { let inner = catch_unwind(|| failing()); println!("shape nested-inner {}", shape(inner)); failing(); })));
    println!("shape thread {}", shape(std::thread::spawn(|| failing()).join()));
    let _ = catch_unwind(|| { let _g = InDrop("drop-while-unwinding"); panic!("outer panic"); });
    { let _g = InDrop("drop-on-the-ordinary-path"); }
    let _ = catch_unwind(|| { let _a = InDrop("drop-while-unwinding-outer"); let _b = InDrop("drop-while-unwinding-inner"); failing(); });
    println!("shape in-closure-pattern {}", shape(catch_unwind(|| { let v = p(); assert_struct!(v, P { a: |cl_x| { failing(); *cl_x == 1 }, .. }); })));
    println!("shape in-operand {}", shape(catch_unwind(|| { let v = p(); assert_struct!(v, P { a: == { failing(); 1 }, .. }); })));
    println!("shape after-a-caught-one {}", shape(catch_unwind(|| { let _ = catch_unwind(|| failing()); failing(); })));
    for s in SEEN.lock().unwrap().iter() { println!("shape {}", s); }
}
"""


def panic_shape(res):
    """`A failed assertion is always one ordinary, catchable panic with the report`: through the real macro, a failing assertion seen
    from the code around it - plainly, nested in another catch_unwind, on another thread, inside a destructor that runs on the ordinary
    path and one that runs because another panic is unwinding, inside a closure pattern and an operand of another assertion, after an
    earlier caught failure.  In every place it must be a panic whose payload is a String holding the report."""
    import e2e
    name = "direct:a failing assertion is a catchable panic carrying the report, wherever it is executed (real macro)"
    res.obligations.append(name)
    o = e2e.compile_many([e2e.PRELUDE + PANIC_SHAPE_PROGRAM], run=True, tag="c06p")[0]
    e2e.cleanup("c06p")
    if not o["compiled"]:
        res.violation("no-failing-input-found", "the panic-shape program of C06 no longer compiles against /repo: " + o["stderr"][-1200:], {"obligation": name})
        return 0
    seen = {}
    for l in o.get("stdout", "").splitlines():
        if l.startswith("shape "):
            _, where, what = l.split(" ", 2)
            seen[where] = what
    places = ["plain", "nested", "nested-inner", "thread", "drop-while-unwinding", "drop-on-the-ordinary-path", "drop-while-unwinding-outer",
              "drop-while-unwinding-inner", "in-closure-pattern", "in-operand", "after-a-caught-one"]
    bad = 0
    if o.get("exit") not in (0,):
        bad += 1
        res.violation("failing-input", "the program of failing assertions in eleven places did not run to its end (exit %s): a failing assertion was not a "
                      "catchable panic somewhere; places reached: %s" % (o.get("exit"), sorted(seen)), {"panic_shape_program": True, "stderr": o.get("run_stderr", "")[-800:]})
    for w in places:
        got = seen.get(w)
        if got != "panic:String:report" and not (bad and got is None):
            bad += 1
            if bad <= 3:
                res.violation("failing-input", "a failing assertion executed %s is seen by the code around it as `%s`, not as a panic carrying the report"
                              % (w.replace("-", " "), got), {"panic_shape_program": True, "place": w, "seen": seen})
    res.streams["panic-shape(real macro)"] = {"places": len(places), "wrong": bad, "seen": seen}
    if not bad:
        res.discharged.append(name)
    return bad


def run(res):
    res.trusted += ["Coq 8.16.1 kernel (coqc)", "extraction to OCaml (ExtrOcamlBasic only), ocaml/conv.ml, ocaml/main.ml",
                    "harness/rt and the cfg-guarded span log in error.rs",
                    "annotate-snippets' renderer: assumed panic-free and complete when every span is non-empty and on character "
                    "boundaries (theorem c06_spans_safe establishes that precondition; this run validates that it suffices, which is a test, not a proof)",
                    "std::fs::read_to_string returning Err for missing / directory / non-UTF-8 files"]
    res.assumptions += ["the source, when readable, is valid UTF-8 (read_to_string guarantees it)",
                        "formatting under catch_unwind stands for formatting inside panic!: a panic there is the abort the property forbids"]
    vlib.build_coq()
    ths, rep = vlib.check_props("C06")
    res.obligations += ths
    res.discharged += ths
    res.coverage["print_assumptions"] = rep
    facts_err = vlib.check_fact_props(res, "C06f", "panic-capable constructs of the run-time support crate")
    vlib.build_model_runner()
    ok, out = vlib.build_harness("rt")
    if not ok:
        raise vlib.CheckError("harness rt does not build against /repo: " + out[-1500:])
    panic_shape(res)
    cases = gen(res.tier, res.seed)
    impl, hung = vlib.run_harness_or_hang("rt", [], cases, timeout=120 if res.tier == "quick" else 3000)
    if hung:
        res.violation("failing-input", "a failing assertion never produces its report (hang while the message is formatted): %s"
                      % (describe_line(hung),), {"case_line": hung, "hang": True})
        return
    AGAIN.clear()
    for c, a in zip(cases, impl):
        if a.endswith(" again=0"):
            AGAIN.add(c)
    impl = [a.rsplit(" again=", 1)[0] for a in impl]
    model = vlib.run_model(cases)
    name = "correspondence:span_of+fallback(Display for ErrorReport)"
    res.obligations.append(name)

    def describe(c):
        mode, text, q = parse(c)
        return {"mode": mode, "source": text, "line_col_quad": q}

    def nontrivial(c, a):
        mode, text, q = parse(c)
        return mode != "ok" or any(ord(ch) > 127 for ch in text)

    st = vlib.correspond(res, "span", cases, impl, model, describe, nontrivial, oracle)
    if st["disagreements"] == 0 and st["oracle_failures"] == 0:
        res.discharged.append(name)
    # the labels inside a report: every label kind over ordinary, spacing-sensitive, directive-like and long shared-prefix texts (mixed
    # 1-4 byte characters at every alignment), formatted through Display for ErrorReport under catch_unwind
    import labels
    name_l = "direct:formatting a report never panics whatever texts its labels carry (every label kind; long, mixed-width, shared-prefix texts)"
    res.obligations.append(name_l)
    lcases = labels.report_cases(random.Random(res.seed * 53 + 6), 60 if res.tier == "quick" else 1500)
    limpl = vlib.run_harness("rt", lcases, env_extra={"RT_QUIET": "1"})
    lbad = 0
    for c, a in zip(lcases, limpl):
        f = c.split("\t")
        why = None
        if a == "PANIC":
            why = "formatting the report panics (inside panic! this aborts the process)"
        else:
            t = unhx(a).decode("utf-8", "replace")
            if not t.startswith("assert_struct! failed"):
                why = "the formatted report lacks its header"
        if why:
            lbad += 1
            if lbad <= 3:
                res.violation("failing-input", "%s: a `%s` entry whose value text is %r and whose expected text is %r"
                              % (why, f[3], unhx(f[5]).decode()[:120], unhx(f[6]).decode()[:120]), {"case_line": c, "label_report": True})
    res.streams["labels-inside-the-report"] = {"reports": len(lcases), "failures": lbad}
    if not lbad:
        res.discharged.append(name_l)
    name_b = "correspondence:multi-entry reports (one annotation and one label per entry, no panic)"
    res.obligations.append(name_b)
    stb = mspan.run_stream(res, mspan.oracle_c06, "multi-entry-spans")
    if stb["disagreements"] == 0 and stb["oracle_failures"] == 0:
        res.discharged.append(name_b)
    kinds = {}
    for c, a in zip(cases, impl):
        k = parse(c)[0] + ":" + a.split()[0]
        kinds[k] = kinds.get(k, 0) + 1
    vlib.report_fact_failure(res, "C06f", facts_err, "panic-capable constructs of the run-time support crate")
    res.coverage.update({
        "evaluations": len(cases), "distinct_nontrivial": st["distinct_nontrivial"],
        "rule": "random Unicode texts (1-4 byte characters, tabs, CR LF, empty, no trailing newline) x recorded quadruples "
                "(real token ranges, stale, zero, far outside, inverted) plus file faults (missing, directory, non-UTF-8, replaced after caching); "
                "non-trivial = a fault mode or a text with a multi-byte character",
        "samples": st["samples"], "distribution": kinds,
    })


def replay(res, path):
    v = json.load(open(path))
    if v.get("panic_shape_program"):
        n = panic_shape(res)
        print("panic-shape program re-run:", "violation" if n else "property holds on these inputs")
        return 1 if n else 0
    line = v.get("case_line") or v.get("first_disagreement", {}).get("case_line")
    ok, out = vlib.build_harness("rt")
    if not ok:
        raise vlib.CheckError("harness rt does not build: " + out[-1500:])
    if v.get("label_report"):
        a = vlib.run_harness("rt", [line], env_extra={"RT_QUIET": "1"})[0]
        bad = a == "PANIC" or not unhx(a).decode("utf-8", "replace").startswith("assert_struct! failed")
        print("impl:", a[:80], "->", "violation" if bad else "property holds on this input")
        return 1 if bad else 0
    impl, hung = vlib.run_harness_or_hang("rt", [], [line], timeout=30)
    if hung:
        print("the case never finishes (violation)")
        return 1
    AGAIN.clear()
    if impl[0].endswith(" again=0"):
        AGAIN.add(line)
    impl = [impl[0].rsplit(" again=", 1)[0]]
    why = oracle(line, impl[0])
    print("impl:", impl[0], "->", why or "property holds on this input")
    return 1 if why else 0
