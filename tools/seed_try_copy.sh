#!/bin/bash
# seed_try_copy.sh <worktree with the seeded change applied> <property id>... — run the named checks (quick tier) from a
# scratch copy of /verif whose harnesses point at that worktree instead of /repo.  For use while /repo itself must not be
# touched (a `vp run` is reading it).  Development helper; the copy is removed afterwards.
W="$1"; shift
N=$(basename "$W")
D=/root/scratch/vs-$N
rm -rf "$D"; mkdir -p "$D"
rsync -a --exclude .git --exclude seeded --exclude .cache --exclude evidence --exclude ".work/e2e_*" /verif/ "$D"/
sed -i "s#/repo/#$W/#" "$D"/harness/rt/Cargo.toml "$D"/harness/e2e/Cargo.toml
mkdir -p "$D/evidence"
cd "$D"
for id in "$@"; do
  s=$(date +%s)
  VERIF_REPO="$W" VERIF_NO_EVIDENCE=1 ./check "$id" --tier "${TIER:-quick}" > .work/seed_out_$id.txt 2> .work/seed_err_$id.txt; rc=$?
  e=$(date +%s)
  echo "== $id rc=$rc $((e-s))s"
  grep -h "VIOLATION" .work/seed_out_$id.txt | head -3
  for f in $(grep -ho "replay=[^ ]*" .work/seed_out_$id.txt | cut -d= -f2 | head -2); do
    python3 -c "import json,sys; v=json.load(open('$f')); print('   ', v['kind'], '|', v['what'][:400])"
  done
done
cd /; [ -n "$KEEP" ] || rm -rf "$D"
