"""C18 — the source snippet is found for every crate layout."""
import json
import os
import random

import vlib
from vlib import hx, unhx

NAMES = ["src", "tests", "a", "b", "crates", "pkg", "member", "it", "x-y", "日本"]
FILES = ["lib.rs", "it.rs", "main.rs", "mod.rs"]


def fsroot():
    return os.path.join(vlib.WORK, "tmp", "fs")


def layout(rng, idx):
    """One crate layout: returns (manifest_dir, file_string, true_path, decoys)."""
    root = os.path.join(fsroot(), "l%d" % idx)
    ws = [rng.choice(NAMES) for _ in range(rng.randint(0, 2))]
    kind = rng.choice(["single", "flat", "nested", "nested", "outside_rel", "outside_abs", "shared_up", "name_prefix"])
    if kind == "name_prefix":
        # a single package whose directory NAME is a proper string prefix (or the file's first component a prefix of it) of the first
        # component of file!() - `proj/test` with `tests/it.rs` - and a sibling directory that has a file of the same relative name
        # (`proj/tests/it.rs`): an overlap found on the strings instead of on the components reads the sibling
        first = rng.choice(["tests", "src", "benches", "examples"])
        pkg = rng.choice([first[:-1], first[:3], first + "x", first[0]])
        rest = [rng.choice(FILES)]
        wsdir = os.path.join(root, *ws) if ws else root
        manifest = os.path.join(wsdir, pkg)
        file_string = "/".join([first] + rest)
        true_path = os.path.join(manifest, first, *rest)
        return "single", manifest, file_string, true_path, [os.path.join(wsdir, first, *rest), os.path.join(wsdir, pkg + first[len(pkg):], *rest)]
    if kind == "single":
        member = []
    elif kind == "flat":
        member = [rng.choice(NAMES)]
    elif kind == "nested":
        member = [rng.choice(NAMES) for _ in range(rng.randint(2, 3))]
    elif kind == "shared_up":
        member = [rng.choice(NAMES) for _ in range(rng.randint(1, 3))]
    else:
        member = []
    srcdirs = [rng.choice(NAMES[:6]) for _ in range(rng.randint(1, 2))]
    if rng.random() < 0.35 and (member or ws):
        # repeated directory names: the source path starts like the package directory ends
        tail = (ws + member)[-rng.randint(1, min(2, len(ws + member))):]
        srcdirs = tail + srcdirs[:1]
    src = srcdirs + [rng.choice(FILES)]
    if kind == "shared_up":
        # a module pulled in with #[path = "../../shared/helpers.rs"] / include!: rustc keeps the `..` segments in file!()
        # verbatim (member/src/../../shared/helpers.rs); they climb out of the source directory, possibly above the package
        # root, possibly above the workspace member's first directory
        up = rng.randint(1, len(srcdirs) + len(member))
        src = srcdirs + [".."] * up + [rng.choice(["shared", "common", "test-util"]), rng.choice(FILES)]
    wsdir = os.path.join(root, *ws) if ws else root
    manifest = os.path.join(wsdir, *member) if member else wsdir
    true_path = os.path.join(wsdir, *(member + src))
    if kind == "outside_abs":
        file_string = true_path
    else:
        file_string = "/".join(member + src)
    decoys = []
    if rng.random() < 0.25:
        # an ambiguous layout: another candidate also exists
        comps = manifest.split("/")
        k = rng.randint(len(root.split("/")), len(comps))
        decoys.append("/".join(comps[:k]) + "/" + file_string)
    return kind, manifest, file_string, true_path, decoys


def candidates(manifest, file_string):
    """the files that (manifest dir, file!()) can denote: file!() is relative to the workspace root, the manifest dir is that root followed by
    the member's path, and the member's path is how file!() begins - so an ancestor A of the manifest dir is a possible root only if the
    COMPONENTS of the manifest dir below A are the first components of file!() (whole components: `test` is not the beginning of `tests`);
    the manifest dir itself is always possible (a single package, a path dependency)"""
    if file_string.startswith("/"):
        return [file_string]
    comps = [c for c in manifest.split("/") if c]
    fcomps = [c for c in file_string.split("/") if c]
    out = []
    for k in range(len(comps) + 1):
        below = comps[k:]
        if below == fcomps[:len(below)] or k == len(comps):
            base = "/" + "/".join(comps[:k])
            out.append(base.rstrip("/") + "/" + file_string)
    return out


def gen(tier, seed):
    rng = random.Random(seed * 104729 + 18)
    lines = []
    meta = []
    n = 250 if tier == "quick" else 4000
    # regression corpus first: a single package whose directory is called `tests`
    fixed = [("single", os.path.join(fsroot(), "c0", "tests"), "tests/it.rs", os.path.join(fsroot(), "c0", "tests", "tests", "it.rs"), []),
             ("single", os.path.join(fsroot(), "c1", "src"), "src/lib.rs", os.path.join(fsroot(), "c1", "src", "src", "lib.rs"), []),
             ("nested", os.path.join(fsroot(), "c2", "a", "a"), "a/a/src/lib.rs", os.path.join(fsroot(), "c2", "a", "a", "src", "lib.rs"), [])]
    for i in range(n + len(fixed)):
        kind, manifest, file_string, true_path, decoys = fixed[i] if i < len(fixed) else layout(rng, i)
        lines.append("fsclear")
        meta.append(None)
        # the package has more than one source file: the queries of one package share the manifest dir and come in a random
        # order (a report must not depend on which files of the package failed before): a second file named like the first
        # (relative to the same root), and a file the compiler names by an absolute path (include!(concat!(env!("OUT_DIR"), ..)))
        queries = [(kind, file_string, true_path)]
        if i >= len(fixed) and rng.random() < 0.6:
            if kind != "outside_abs":
                other = file_string.rsplit("/", 1)[0] + "/other_%s" % rng.choice(FILES)
                queries.append((kind + "+sibling", other, true_path.rsplit("/", 1)[0] + "/" + other.rsplit("/", 1)[1]))
            gen_path = os.path.join(fsroot(), "l%d" % i, "target-out", "gen.rs")
            queries.append((kind + "+absolute-include", gen_path, gen_path))
            rng.shuffle(queries)
        # what the PROCESS has around it must not matter: cargo exports CARGO_MANIFEST_DIR (and more) of the package UNDER TEST to the test
        # process - not of the package that contains the invocation - and the current directory is that package's root too.  Another
        # member of the workspace that has a file of the same relative name stands for it
        other_root = None
        if i >= len(fixed) and rng.random() < 0.5 and not file_string.startswith("/"):
            other_root = os.path.join(fsroot(), "l%d" % i, rng.choice(["zz-member-under-test", "a", "member2", "tests"]))
            decoys = decoys + [os.path.join(other_root, q[1]) for q in queries if not q[1].startswith("/")]
        existing = sorted(set([q[2] for q in queries] + decoys))
        for p in existing:
            lines.append("fs\t" + hx(p))
            meta.append(None)
        ambient = None
        if other_root is not None and os.path.normpath(other_root) != os.path.normpath(manifest):
            ambient = {"CARGO_MANIFEST_DIR": other_root, "PWD": other_root, "CARGO_WORKSPACE_DIR": os.path.dirname(other_root), "cwd": other_root}
            for k_ in ("CARGO_MANIFEST_DIR", "PWD", "CARGO_WORKSPACE_DIR"):
                lines.append("setenv\t%s\t%s" % (k_, hx(ambient[k_])))
                meta.append(None)
            lines.append("chdir\t" + hx(other_root))
            meta.append(None)
        else:
            for k_ in ("CARGO_MANIFEST_DIR", "PWD", "CARGO_WORKSPACE_DIR"):
                lines.append("setenv\t%s\t-" % k_)
                meta.append(None)
        for qkind, qfile, qtrue in queries:
            lines.append("abspath\t%s\t%s" % (hx(manifest), hx(qfile)))
            meta.append({"kind": qkind, "manifest_dir": manifest, "file": qfile, "true_path": qtrue, "existing": existing,
                         "earlier_in_process": [q[1] for q in queries[:queries.index((qkind, qfile, qtrue))]], "process_environment": ambient})
    # syntax stream: no files on disk; odd spellings of both strings
    lines.append("fsclear")
    meta.append(None)
    for _ in range(300 if tier == "quick" else 5000):
        def spell(parts, absolute):
            s = ("/" if absolute else "") + "/".join(parts)
            r = rng.random()
            if r < 0.15:
                s += "/"
            elif r < 0.3 and parts:
                i = rng.randrange(len(parts))
                s = ("/" if absolute else "") + "/".join(parts[:i] + [rng.choice([".", "", ".."])] + parts[i:])
            elif r < 0.4 and not absolute:
                s = "./" + s
            return s
        m = spell(["nonexistent-root-for-verif"] + [rng.choice(NAMES) for _ in range(rng.randint(0, 4))], rng.random() < 0.9)
        f = spell([rng.choice(NAMES) for _ in range(rng.randint(0, 3))] + [rng.choice(FILES)], rng.random() < 0.1)
        lines.append("abspath\t%s\t%s" % (hx(m), hx(f)))
        meta.append({"kind": "syntax", "manifest_dir": m, "file": f, "true_path": None, "existing": []})
    return lines, meta


def oracle_for(meta):
    def oracle(line, impl):
        if not line.startswith("abspath"):
            return None
        m = meta[line]
        if m is None or m["true_path"] is None:
            return None
        if impl.startswith("REPORT-READS"):
            got = unhx(impl.split()[1]).decode("utf-8")        # what ErrorReport::new decided to read (not what the pure function says)
        else:
            got = unhx(impl).decode("utf-8")
        cands = candidates(m["manifest_dir"], m["file"])
        existing = [c for c in set(cands) if c in m["existing"]]
        if existing == [m["true_path"]] and got != m["true_path"]:
            return ("unambiguous %s layout: manifest dir %s, file!() %s; the invoking file is %s but the report would read %s%s"
                    % (m["kind"], m["manifest_dir"], m["file"], m["true_path"], got,
                       ((" (after reports for %s of the same package in this process)" % ", ".join(m["earlier_in_process"])) if m.get("earlier_in_process") else "")
                       + ((" (the process runs with CARGO_MANIFEST_DIR / PWD / current directory = %s, the package under test)" % m["process_environment"]["cwd"])
                          if m.get("process_environment") else "")))
        return None
    return oracle


def run(res):
    res.trusted += ["Coq 8.16.1 kernel (coqc)", "extraction to OCaml (ExtrOcamlBasic only), ocaml/conv.ml, ocaml/main.ml",
                    "harness/rt creating the layouts on disk and calling the real absolute_source_path through the cfg-guarded hook",
                    "Model/PathRes.v's executable model of Path::components, PathBuf::push/collect and Path::is_file on Unix (compared here, not proved)"]
    res.assumptions += ["Unix path syntax", "file!() is the member path followed by the source path (cargo's behaviour for workspace members), "
                        "or absolute / package-relative for path dependencies outside the workspace"]
    vlib.build_coq()
    ths, rep = vlib.check_props("C18")
    res.obligations += ths
    res.discharged += ths
    res.coverage["print_assumptions"] = rep
    facts_err = vlib.check_fact_props(res, "C18f", "what the run-time crate consults of its process: environment, current directory")
    vlib.build_model_runner()
    ok, out = vlib.build_harness("rt")
    if not ok:
        raise vlib.CheckError("harness rt does not build against /repo: " + out[-1500:])
    lines, meta = gen(res.tier, res.seed)
    impl = vlib.run_harness("rt", lines)
    model = vlib.run_model(lines)
    # meta is positional; key it by the (unique) line text of abspath cases with layouts
    bypos = {}
    cases, ia, ib = [], [], []
    for i, (l, m) in enumerate(zip(lines, meta)):
        if l.startswith("abspath"):
            key = "%s\t#%d" % (l, i)
            bypos[key] = m
            cases.append(key)
            ia.append(impl[i])
            ib.append(model[i])
    name = "correspondence:absolute_source_path(real files on disk)"
    res.obligations.append(name)

    def describe(c):
        m = bypos[c]
        return {k: m.get(k) for k in ("kind", "manifest_dir", "file", "existing", "earlier_in_process", "process_environment")}

    def nontrivial(c, a):
        m = bypos[c]
        if m["true_path"] is None:
            return "//" in m["manifest_dir"] or "/./" in m["manifest_dir"] or ".." in m["manifest_dir"] or m["file"].startswith("/")
        # an overlap exists or names repeat
        return m["kind"].split("+")[0] in ("flat", "nested") or len(set(m["manifest_dir"].split("/")) & set(m["file"].split("/"))) > 0

    st = vlib.correspond(res, "abspath", cases, ia, ib, describe, nontrivial, oracle_for(bypos))
    if st["disagreements"] == 0 and st["oracle_failures"] == 0:
        res.discharged.append(name)
    vlib.report_fact_failure(res, "C18f", facts_err, "what the run-time crate consults of its process: environment, current directory")
    kinds = {}
    for c in cases:
        k = bypos[c]["kind"]
        kinds[k] = kinds.get(k, 0) + 1
    res.coverage.update({
        "evaluations": len(cases), "distinct_nontrivial": st["distinct_nontrivial"],
        "rule": "generated layouts created on disk (single package, flat and nested members to depth 3, repeated directory names, "
                "path dependency outside the workspace with relative and absolute file!(), 25% with a second existing candidate; 60% of the "
                "packages are asked about two or three of their files in one process, in random order, one of them named by an absolute path) plus a "
                "syntax stream without files (trailing and doubled slashes, `.`, `..`, leading ./, absolute file); non-trivial = member "
                "layouts, shared component names, or non-canonical spelling",
        "samples": st["samples"], "distribution": kinds,
    })
    vlib.sh(["rm", "-rf", fsroot()], check=False)


def replay(res, path):
    v = json.load(open(path))
    c = v.get("case") or v.get("first_disagreement", {}).get("case")
    ok, out = vlib.build_harness("rt")
    if not ok:
        raise vlib.CheckError("harness rt does not build: " + out[-1500:])
    amb = c.get("process_environment") or {}
    lines = (["fsclear"] + ["fs\t" + hx(p) for p in c["existing"]]
             + ["setenv\t%s\t%s" % (k, hx(amb[k]) if k in amb else "-") for k in ("CARGO_MANIFEST_DIR", "PWD", "CARGO_WORKSPACE_DIR")]
             + (["chdir\t" + hx(amb["cwd"])] if amb.get("cwd") else [])
             + ["abspath\t%s\t%s" % (hx(c["manifest_dir"]), hx(f)) for f in (c.get("earlier_in_process") or [])]
             + ["abspath\t%s\t%s" % (hx(c["manifest_dir"]), hx(c["file"]))])
    impl = vlib.run_harness("rt", lines)
    got = unhx(impl[-1].split()[1] if impl[-1].startswith("REPORT-READS") else impl[-1]).decode()
    print("resolved:", got)
    cands = [x for x in set(candidates(c["manifest_dir"], c["file"])) if x in c["existing"]]
    bad = len(cands) == 1 and got != cands[0]
    print("violation" if bad else "property holds on this input")
    return 1 if bad else 0
