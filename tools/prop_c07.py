"""C07 — user expressions keep their call-site meaning (no identifier capture)."""
import collections
import json

import e2e
import expstage
import maclib
import vlib

FIXED = ["s, S { age: == age, .. }", "re, =~ r\"^h\"", "s, S { re: =~ r\"^h\", .. }", "actual, \"world\"",
         "s, S { actual: \"w\", re: =~ pat, .. }", "s, m::S { r#type: 1, .. }"]

USER_BINDER_OK = lambda b: b.startswith("__") or b.startswith("cl_") or b in ("None", "_")   # noqa: E731

DECLS = r'''
#[derive(Debug)] struct S { age: i32, count: i32, re: String, actual: String, name: String, label: String, items: Vec<i32>, idx: usize, m: HashMap<String, i32>,
  userName: i32, _hidden: i32, a__b: i32, r#type: i32, größe: i32, X: i32 }
#[derive(Debug)] struct T { zz: String, age: i32 }
fn mk() -> S { let mut m = HashMap::new(); m.insert("k".to_string(), 1); m.insert("age".to_string(), 2);
  S { age: 30, count: 50, re: "hello".into(), actual: "world".into(), name: "q".into(), label: "xyz".into(), items: vec![7, 8], idx: 1, m,
      userName: 30, _hidden: 30, a__b: 30, r#type: 30, größe: 30, X: 30 } }
'''


def twin_programs():
    """(description, body with the capturing name, body with a fresh name).  Both bodies must
    compile and give the same verdict."""
    tw = []
    for field in ("age", "count"):
        for local in ("age", "count", "re", "actual", "name", "idx", "items", "__assert_struct_tmp_user"):
            if local.startswith("__"):
                continue
            body = "let s = mk(); let {N} = 99; assert_struct!(s, S {{ %s: == {N}, .. }});" % field
            tw.append(("operand of == named like %s" % ("the field itself" if local == field else "a sibling field"), body, local))
            body = "let s = mk(); let {N} = 99; assert_struct!(s, S {{ %s: < {N}, .. }});" % field
            tw.append(("operand of < named like a field", body, local))
    # field names of every lexical shape (camel case, leading underscore, double underscore, raw identifier, non-ASCII, one capital
    # letter): the caller's local of the same name must still be what an operand names, for the field itself and for a sibling
    odd = ("userName", "_hidden", "a__b", "r#type", "größe", "X")
    for field in odd:
        for local in (field, odd[(odd.index(field) + 1) % len(odd)]):
            rel = "the field itself" if local == field else "a sibling field"
            tw.append(("operand of == named like %s (field `%s`)" % (rel, field),
                       "let s = mk(); let {N} = 99; assert_struct!(s, S {{ %s: == {N}, %s: _, .. }});" % (field, odd[(odd.index(field) + 1) % len(odd)]), local))
            tw.append(("operand of < named like %s (field `%s`)" % (rel, field),
                       "let s = mk(); let {N} = 99; assert_struct!(s, S {{ %s: < {N}, %s: _, .. }});" % (field, odd[(odd.index(field) + 1) % len(odd)]), local))
        tw.append(("closure body using a local named like the field `%s`" % field,
                   "let s = mk(); let {N} = 99; assert_struct!(s, S {{ %s: |c| *c < {N}, .. }});" % field, field))
        tw.append(("nested pattern's operand named like an outer field `%s`" % field,
                   "let s = mk(); let t = (1, s); let {N} = 7; assert_struct!(t, (_, S {{ %s: _, items: [== {N}, ..], .. }}));" % field, field))
    tw.append(("root expression named like the regex helper", "let {N} = \"hello\".to_string(); assert_struct!({N}, =~ r\"^h\");", "re"))
    tw.append(("root expression named like the regex helper (mismatch)", "let {N} = \"jello\".to_string(); assert_struct!({N}, =~ r\"^h\");", "re"))
    tw.append(("root expression named like the string helper", "let {N} = \"world\".to_string(); assert_struct!({N}, \"world\");", "actual"))
    tw.append(("root expression named like the string temporary", "let {N} = \"world\".to_string(); assert_struct!({N}, \"w\");", "actual"))
    tw.append(("index argument named like a sibling field", "let s = mk(); let {N} = 0usize; assert_struct!(s, S {{ items[{N}]: 7, .. }});", "idx"))
    tw.append(("method argument named like a sibling field", "let s = mk(); let {N} = \"x\"; assert_struct!(s, S {{ label.starts_with({N}): true, .. }});", "name"))
    tw.append(("closure body using a local named like a sibling field", "let s = mk(); let {N} = 99; assert_struct!(s, S {{ count: |c| *c < {N}, .. }});", "age"))
    tw.append(("map key named like a sibling field", "let s = mk(); let {N} = \"k\".to_string(); assert_struct!(s, S {{ m: #{{ {N}: 1, .. }}, .. }});", "age"))
    tw.append(("map key named like the map value helper", "let s = mk(); let {N} = \"k\".to_string(); assert_struct!(s, S {{ m: #{{ {N}: 1, .. }}, .. }});", "name"))
    tw.append(("Like expression named like a sibling field", "let s = mk(); let {N} = \"^h\"; assert_struct!(s, S {{ re: =~ {N}, .. }});", "name"))
    tw.append(("nested struct: operand named like an outer field",
               "let s = mk(); let t = (T {{ zz: \"a\".into(), age: 1 }}, s); let {N} = 1; assert_struct!(t, (T {{ age: == {N}, .. }}, S {{ count: > {N}, .. }}));", "count"))
    tw.append(("set element comparing with a local named like a field", "let s = mk(); let {N} = 7; assert_struct!(s, S {{ items: #(== {N}, 8), .. }});", "items"))
    # the parameter of a closure pattern is a binder the USER wrote: its scope is that closure and nothing else.  A caller local of
    # the same name used by any other sub-pattern of the assertion (before or after the closure, beside it or nested elsewhere) must
    # mean the caller's local: renaming the local (not the parameter) may not change anything
    for cl in ("|n| *n > 0", "|n: &i32| *n > 0", "move |n| *n > 0", "|n| { let m = *n; m > 0 }"):
        tw.append(("closure parameter `n` named like a caller local used by a LATER sibling field (%s)" % cl,
                   "let s = mk(); let {N} = 50; assert_struct!(s, S {{ age: %s, count: == {N}, .. }});" % cl.replace("{", "{{").replace("}", "}}"), "n"))
    tw.append(("closure parameter named like a caller local used by an EARLIER sibling field",
               "let s = mk(); let {N} = 50; assert_struct!(s, S {{ count: == {N}, age: |n| *n > 0, .. }});", "n"))
    tw.append(("closure parameter named like a caller local compared (<) by a later sibling",
               "let s = mk(); let {N} = 99; assert_struct!(s, S {{ age: |n| *n > 0, count: < {N}, .. }});", "n"))
    tw.append(("closure parameter named like a caller local used in a later closure's body",
               "let s = mk(); let {N} = 50; assert_struct!(s, S {{ age: |n| *n > 0, count: |c| *c == {N}, .. }});", "n"))
    tw.append(("closure parameter named like a caller local used by the next tuple element",
               "let t = (3, 7); let {N} = 7; assert_struct!(t, (|n| *n > 0, == {N}));", "n"))
    tw.append(("closure parameter named like a caller local used by the next slice element",
               "let s = mk(); let {N} = 8; assert_struct!(s, S {{ items: [|n| *n > 0, == {N}], .. }});", "n"))
    tw.append(("closure parameter named like a caller local used by the next variant argument",
               "let o: Result<(i32, i32), ()> = Ok((3, 7)); let {N} = 7; assert_struct!(o, Ok((|n| *n > 0, == {N})));", "n"))
    tw.append(("closure parameter named like a caller local used in a later set pattern",
               "let s = mk(); let {N} = 7; assert_struct!(s, S {{ age: |n| *n > 0, items: #(== {N}, ..), .. }});", "n"))
    tw.append(("closure parameter named like a caller local used as a later index argument",
               "let s = mk(); let {N} = 0usize; assert_struct!(s, S {{ age: |n| *n > 0, items[{N}]: 7, .. }});", "n"))
    tw.append(("closure parameter named like a caller local used as a later method argument",
               "let s = mk(); let {N} = \"x\"; assert_struct!(s, S {{ age: |n| *n > 0, label.starts_with({N}): true, .. }});", "n"))
    tw.append(("closure parameter named like a caller local used as a later Like expression",
               "let s = mk(); let {N} = \"^h\"; assert_struct!(s, S {{ age: |n| *n > 0, re: =~ {N}, .. }});", "n"))
    tw.append(("closure parameter named like a caller local used as a later map key",
               "let s = mk(); let {N} = \"k\".to_string(); assert_struct!(s, S {{ age: |n| *n > 0, m: #{{ {N}: 1, .. }}, .. }});", "n"))
    tw.append(("closure parameter in a nested struct named like a caller local used in a sibling struct",
               "let s = mk(); let t = (T {{ zz: \"a\".into(), age: 1 }}, s); let {N} = 50; assert_struct!(t, (T {{ age: |n| *n > 0, .. }}, S {{ count: == {N}, .. }}));", "n"))
    tw.append(("closure parameter under a wildcard struct named like a caller local used by a later field",
               "let s = mk(); let {N} = 50; assert_struct!(s, _ {{ age: |n| *n > 0, count: == {N}, .. }});", "n"))
    # a struct field that is itself named like a helper: twin is the same shape with the field renamed
    return tw


def imported_names(recs):
    """Names the real expansion brings into the scope of the user's expressions with `use` items (a block-scoped import
    shadows the caller's locals of the same name, exactly like a `let`).  Explicit imports give their last segment; a glob
    import gives every public item of the module it names, read from /repo's sources."""
    import os
    import re
    names, globs = set(), set()
    for r in recs:
        if r.status != "ok":
            continue
        text = maclib.text_of_tokens(r.tokens).replace("~", "")
        text = text.replace("open-b", "{").replace("close-b", "}")
        for m in re.finditer(r"\buse\b ([^;]+);", text):
            # the leaves of the use tree: `a::b::{C, D as E, f::G, H as _}` brings in C, E, G (an `as _` import brings in no name,
            # only the trait's methods - those are the business of imported_trait_methods)
            tree = re.sub(r"\s+", " ", m.group(1)).strip()
            for leaf in re.split(r"[{},]", tree):
                leaf = leaf.strip()
                if not leaf:
                    continue
                if " as " in leaf:
                    alias = leaf.split(" as ")[-1].strip()
                    if alias != "_":
                        names.add(alias)
                    continue
                leaf = leaf.replace(" ", "")
                if leaf.endswith("::*") or leaf == "*":
                    globs.add((tree.split("{")[0].replace(" ", "") + leaf).replace("::*", "").rstrip(":"))
                    continue
                if leaf.endswith("::"):
                    continue          # the prefix in front of a brace group
                last = leaf.split("::")[-1]
                if last and last != "self":
                    names.add(last)
    for g in globs:
        segs = [x for x in g.split("::") if x]
        if segs and segs[0] == "assert_struct":
            src = open(os.path.join(vlib.REPO, "assert-struct", "src", "lib.rs")).read()
            body = src
            for seg in segs[1:]:
                m = re.search(r"pub mod %s\s*\{" % re.escape(seg), body)
                if not m:
                    break
                # the module's block (brace matching)
                depth, i = 1, m.end()
                while i < len(body) and depth:
                    depth += {"{": 1, "}": -1}.get(body[i], 0)
                    i += 1
                body = body[m.end():i]
            for m in re.finditer(r"pub (?:unsafe )?fn (\w+)|pub (?:static|const) (\w+)|pub (?:struct|enum|trait|type) (\w+)", body):
                names.add(next(x for x in m.groups() if x))
            for m in re.finditer(r"pub use [^;]*?(?:::\{([^}]*)\}|::(\w+))\s*;", body):
                if m.group(1):
                    names.update(x.strip().split(" as ")[-1] for x in m.group(1).split(",") if x.strip())
                else:
                    names.add(m.group(2))
        else:
            names.add("<glob import of %s: names unknown>" % g)
    return sorted(names), sorted(globs)


# a caller TYPE (an enum with an inherent function) named like something the expansion imports: every way a user expression
# inside a pattern can name it (path to a variant, associated function, cast) in every place that holds a user expression
TYPE_DECLS = """
#[derive(Debug, Clone, Copy, PartialEq, PartialOrd)] pub enum {N} {{ Lo, Hi }}
impl {N} {{ pub fn hi() -> {N} {{ {N}::Hi }} }}
impl ::assert_struct::Like<{N}> for {N} {{ fn like(&self, other: &{N}) -> bool {{ self == other }} }}
#[derive(Debug)] struct Subj {{ k: {N}, n: i32, v: Vec<{N}>, m: HashMap<String, {N}> }}
fn subj() -> Subj {{ let mut m = HashMap::new(); m.insert("a".to_string(), {N}::Hi); Subj {{ k: {N}::Lo, n: 1, v: vec![{N}::Lo, {N}::Hi], m }} }}
"""
TYPE_BODIES = [
    ("root ==", "let k = {N}::Lo; assert_struct!(k, == {N}::Lo);"),
    ("root !=", "let k = {N}::Lo; assert_struct!(k, != {N}::Hi);"),
    ("root <", "let k = {N}::Lo; assert_struct!(k, < {N}::Hi);"),
    ("root <=", "let k = {N}::Lo; assert_struct!(k, <= {N}::hi());"),
    ("root > (fails)", "let k = {N}::Lo; assert_struct!(k, > {N}::Hi);"),
    ("root >=", "let k = {N}::Lo; assert_struct!(k, >= {N}::Lo);"),
    ("field ==", "let s = subj(); assert_struct!(s, Subj {{ k: == {N}::Lo, .. }});"),
    ("field <=", "let s = subj(); assert_struct!(s, Subj {{ k: <= {N}::Hi, n: 1, .. }});"),
    ("wildcard struct field >", "let s = subj(); assert_struct!(s, _ {{ k: > {N}::Hi, .. }});"),
    ("field =~", "let s = subj(); assert_struct!(s, Subj {{ k: =~ {N}::Lo, .. }});"),
    ("closure body", "let s = subj(); assert_struct!(s, Subj {{ k: |cl_x| *cl_x == {N}::Lo, .. }});"),
    ("method argument", "let s = subj(); assert_struct!(s, Subj {{ v.contains(&{N}::Hi): true, .. }});"),
    ("index expression", "let s = subj(); assert_struct!(s, Subj {{ v[{N}::Hi as usize]: == {N}::Hi, .. }});"),
    ("map value", "let s = subj(); assert_struct!(s, Subj {{ m: #{{ \"a\": == {N}::hi() }}, .. }});"),
    ("set elements", "let s = subj(); assert_struct!(s, Subj {{ v: #(== {N}::Hi, <= {N}::Lo), .. }});"),
    ("slice elements", "let s = subj(); assert_struct!(s, Subj {{ v: [>= {N}::Lo, ..], .. }});"),
    ("inside Some", "let o = Some({N}::Lo); assert_struct!(o, Some(< {N}::Hi));"),
    ("tuple element", "let t = (1, {N}::Hi); assert_struct!(t, (1, >= {N}::Hi));"),
    ("asserted expression", "assert_struct!({N}::hi(), == {N}::Hi);"),
    ("asserted expression with string pattern", "let s = subj(); assert_struct!(format!(\"{{:?}}\", {N}::Lo), \"Lo\");"),
]


def type_program(name, body):
    return (e2e.PRELUDE + TYPE_DECLS.format(N=name) + "fn main() { std::panic::set_hook(Box::new(|_| {})); run_case(\"t\", || { %s }); }\n"
            % body.format(N=name))


# trait METHODS the expansion brings into scope (`use Trait;` or `use Trait as _;` both do): a caller's own method of the same name,
# on a receiver that reaches it later in method resolution than the imported trait's impls, must keep its meaning in every user
# expression of the pattern, whatever other forms the pattern contains
STD_TRAIT_METHODS = {"AsRef": ["as_ref"], "Borrow": ["borrow"], "Deref": ["deref"], "PartialOrd": ["partial_cmp", "lt", "le", "gt", "ge"],
                     "PartialEq": ["eq", "ne"], "ToString": ["to_string"], "Debug": ["fmt"], "IntoIterator": ["into_iter"], "Iterator": ["next"]}


def imported_trait_methods(recs):
    import os
    import re
    traits = set()
    for r in recs:
        if r.status != "ok":
            continue
        text = maclib.text_of_tokens(r.tokens).replace("~", "")
        for m in re.finditer(r"\buse\b ([^;]+);", text):
            path = m.group(1).replace(" ", "")
            path = re.sub(r"as_$", "", path) if path.endswith("as_") else path
            traits.add(path)
    methods = set()
    for t in traits:
        last = [x for x in t.split("::") if x][-1]
        if "assert_struct" in t:
            src = open(os.path.join(vlib.REPO, "assert-struct", "src", "lib.rs")).read()
            m = re.search(r"pub trait %s\b[^{]*\{" % re.escape(last), src)
            if m:
                depth, i = 1, m.end()
                while i < len(src) and depth:
                    depth += {"{": 1, "}": -1}.get(src[i], 0)
                    i += 1
                methods.update(re.findall(r"\bfn (\w+)", re.sub(r"//[^\n]*", "", src[m.end():i])))
        methods.update(STD_TRAIT_METHODS.get(last, []))
    return sorted(methods), sorted(traits)


METHOD_DECLS = """
trait CallerExt {{ fn {M}(&self, p: &str) -> bool; }}
impl CallerExt for str {{ fn {M}(&self, p: &str) -> bool {{ self.starts_with(p) }} }}
#[derive(Debug)] struct Subj2 {{ name: String, tag: String, ok: bool, o: Option<String>, n: i32 }}
fn subj2() -> Subj2 {{ Subj2 {{ name: "alice".to_string(), tag: "abc".to_string(), ok: false, o: Some("abc".to_string()), n: 1 }} }}
"""
# the caller's method answers `false` for ("abc", "."): a regex `.` would answer true
METHOD_BODIES = [
    ("control: the expression outside any assertion", "let t = String::from(\"abc\"); assert!(!t.{M}(\".\"));"),
    ("operand, no `=~` in the pattern", "let t = String::from(\"abc\"); let s = subj2(); assert_struct!(s, Subj2 {{ ok: == t.{M}(\".\"), .. }});"),
    ("operand, `=~` on a sibling field", "let t = String::from(\"abc\"); let s = subj2(); assert_struct!(s, Subj2 {{ name: =~ r\"^ali\", ok: == t.{M}(\".\"), .. }});"),
    ("operand, `=~` with an expression on a sibling field", "let t = String::from(\"abc\"); let pfx = \"^ali\"; let s = subj2(); assert_struct!(s, Subj2 {{ ok: == t.{M}(\".\"), name: =~ pfx, .. }});"),
    ("operand, `=~` nested in Some", "let t = String::from(\"abc\"); let s = subj2(); assert_struct!(s, Subj2 {{ o: Some(=~ r\"^a\"), ok: == t.{M}(\".\"), .. }});"),
    ("closure body next to `=~`", "let s = subj2(); assert_struct!(s, Subj2 {{ name: =~ r\"^ali\", tag: |cl_t: &String| !cl_t.{M}(\".\"), .. }});"),
    ("field-operation method next to `=~`", "let s = subj2(); assert_struct!(s, Subj2 {{ name: =~ r\"^ali\", tag.{M}(\".\"): false, .. }});"),
    ("field-operation method, string pattern sibling", "let s = subj2(); assert_struct!(s, Subj2 {{ name: \"alice\", tag.{M}(\".\"): false, .. }});"),
    ("asserted expression next to `=~`", "let t = String::from(\"abc\"); assert_struct!((t.{M}(\".\"), String::from(\"alice\")), (false, =~ r\"^ali\"));"),
    ("map key / method argument next to `=~`", "let t = String::from(\"abc\"); let s = subj2(); assert_struct!(s, Subj2 {{ name: =~ r\"^ali\", n.eq(&(t.{M}(\".\") as i32)): false, .. }});"),
]


# fields whose names differ only in what a NAME-MANGLING scheme might throw away (case, underscores, `r#`, a trailing underscore, digits
# vs words): the bindings made for them must stay distinct - each pattern is checked against its own field.  Every pair is
# asserted both ways round, with values that tell the two fields apart; (first field, second field)
NEAR_DECLS = r"""
#[derive(Debug)] struct NearNames { userId: i32, user_id: i32, URL: i32, url: i32, _id: i32, id: i32, r#type: i32, type_: i32, a__b: i32, a_b: i32, x1: i32, x_1: i32,
  userID: i32, HTTPServer: i32, http_server: i32 }
fn near() -> NearNames { NearNames { userId: 1, user_id: 2, URL: 3, url: 4, _id: 5, id: 6, r#type: 7, type_: 8, a__b: 9, a_b: 10, x1: 11, x_1: 12, userID: 13, HTTPServer: 14, http_server: 15 } }
#[derive(Debug)] enum NearVariant { V { userId: i32, user_id: i32, id: i32, _id: i32 } }
"""
NEAR_PAIRS = [("userId", "user_id", 1, 2), ("URL", "url", 3, 4), ("_id", "id", 5, 6), ("r#type", "type_", 7, 8), ("a__b", "a_b", 9, 10), ("x1", "x_1", 11, 12),
              ("userId", "userID", 1, 13), ("HTTPServer", "http_server", 14, 15), ("user_id", "userID", 2, 13)]


def near_name_programs():
    out = []
    for f, g, vf, vg in NEAR_PAIRS:
        for a, b, va, vb in ((f, g, vf, vg), (g, f, vg, vf)):
            out.append(("`%s` then `%s`, each with its own value" % (a, b), "let s = near(); assert_struct!(s, NearNames { %s: %d, %s: %d, .. });" % (a, va, b, vb), "pass"))
            out.append(("`%s` then `%s`, the second with the FIRST one's value" % (a, b), "let s = near(); assert_struct!(s, NearNames { %s: %d, %s: == %d, .. });" % (a, va, b, va), "fail"))
            out.append(("`%s` with a method chain then `%s`" % (a, b), "let s = near(); assert_struct!(s, NearNames { %s.clone(): %d, %s: > %d, .. });" % (a, va, b, vb - 1), "pass"))
    out.append(("struct variant with near names", "let s = NearVariant::V { userId: 1, user_id: 2, id: 3, _id: 4 }; assert_struct!(s, NearVariant::V { userId: 1, user_id: 2, id: 3, _id: 4 });", "pass"))
    out.append(("struct variant with near names, one wrong", "let s = NearVariant::V { userId: 1, user_id: 2, id: 3, _id: 4 }; assert_struct!(s, NearVariant::V { userId: 1, user_id: 1, id: 3, _id: 4 });", "fail"))
    return out


def near_program(body):
    return e2e.PRELUDE + NEAR_DECLS + "fn main() { std::panic::set_hook(Box::new(|_| {})); run_case(\"t\", || { %s }); }\n" % body


def method_program(name, body):
    return (e2e.PRELUDE + METHOD_DECLS.format(M=name) + "fn main() {{ std::panic::set_hook(Box::new(|_| {{}})); run_case(\"t\", || {{ %s }}); }}\n".replace("{{", "{").replace("}}", "}")
            % body.format(M=name))


def program(body):
    return e2e.PRELUDE + DECLS + "fn main() { std::panic::set_hook(Box::new(|_| {})); run_case(\"t\", || { %s }); }\n" % body


def run(res):
    res.trusted += ["Coq 8.16.1 kernel (coqc)", "extraction to OCaml (ExtrOcamlBasic only), ocaml/*.ml",
                    "harness/mac (in-process expander; readback of binders with syn), rustc for the twin programs",
                    "tools/patgen.py, tools/expstage.py"]
    res.assumptions += ["callers do not use identifiers beginning with `__` (stated in c07_no_capture)",
                        "names brought in by the expansion's block-scoped `use` items are read off the real expansion on every run and a caller "
                        "LOCAL of each such name is tried (value namespace) and a caller TYPE of each such name is used in every place that holds "
                        "a user expression (type namespace)"]
    vlib.build_coq()
    ths, rep = vlib.check_props("C07")
    res.obligations += ths
    res.discharged += ths
    res.coverage["print_assumptions"] = rep
    recs = expstage.run_stage(res, res.tier, res.seed, FIXED)
    name = "correspondence:expander(token-exact expansion) + binder inventory"
    res.obligations.append(name)
    dis = expstage.correspondence(res, recs)
    # binder inventory: model's stmt_binders vs the binders syn finds in the real expansion
    oks = [r for r in recs if r.status == "ok"]
    model_b = vlib.run_model(["binders\t1\t%s\t%s" % (r.value, r.tree) for r in oks])
    failing = 0
    inv_dis = 0
    total_binders = 0
    for r, mb in zip(oks, model_b):
        real = [b for b in r.readback.get("binders", [])]
        total_binders += len(real)
        bad = [b for b in real if not USER_BINDER_OK(b)]
        if bad:
            failing += 1
            if failing <= 3:
                res.violation("failing-input",
                              "the expansion binds plain identifier(s) %s; a caller variable of that name used in a pattern "
                              "expression inside its scope is captured" % sorted(set(bad)),
                              {"invocation": r.text, "plain_binders": sorted(set(bad))})
        want = collections.Counter(["__report"] + [b for b in mb.split(",") if b])
        got = collections.Counter([b for b in real if b.startswith("__")])
        if want != got:
            inv_dis += 1
            if inv_dis <= 1 and not bad:
                res.violation("no-failing-input-found", "binder inventory of the real expansion differs from Binders.stmt_binders",
                              {"invocation": r.text, "model": sorted(want.elements()), "real": sorted(got.elements())})
    res.streams["binders"] = {"expansions": len(oks), "binders_seen": total_binders, "with_plain_binders": failing,
                              "inventory_disagreements": inv_dis}
    # twin programs under the real rustc
    tw = twin_programs()
    imported, globs = imported_names(oks[:200])
    for n in imported:
        if n.isidentifier():
            tw.append(("a caller local named like `%s`, which the expansion imports into the block with `use`" % n,
                       "let s = mk(); let {N} = 99; assert_struct!(s, S {{ age: == {N}, .. }});", n))
            tw.append(("a caller local named like the imported `%s`, as the root expression" % n,
                       "let {N} = 30; assert_struct!({N}, == 30);", n))
    res.streams["imports"] = {"names_imported_by_the_expansion": imported, "glob_imports": globs}
    srcs = []
    for desc, body, local in tw:
        srcs.append(program(body.format(N=local)))
        srcs.append(program(body.format(N="zz_fresh")))
    out = e2e.compile_many(srcs, run=True, tag="c07")
    twin_bad = 0
    for k, (desc, body, local) in enumerate(tw):
        a, b = out[2 * k], out[2 * k + 1]
        va = e2e.parse_case_lines(a.get("stdout", "")).get("t", {}).get("verdict") if a["compiled"] else "does-not-compile"
        vb = e2e.parse_case_lines(b.get("stdout", "")).get("t", {}).get("verdict") if b["compiled"] else "does-not-compile"
        if vb == "does-not-compile":
            raise vlib.CheckError("twin generator produced a program that does not compile with a fresh name: %s\n%s"
                                  % (body, b["stderr"][-800:]))
        if va != vb:
            twin_bad += 1
            if twin_bad <= 3:
                res.violation("failing-input", "%s: with the local called `%s` the assertion %s, with a fresh name it %s"
                              % (desc, local, va, vb),
                              {"program_body": body.format(N=local), "twin_body": body.format(N="zz_fresh"),
                               "verdicts": [va, vb], "rustc": a["stderr"][-600:] if va == "does-not-compile" else ""})
    # the type namespace: a caller type named like an imported item, used in every place that holds a user expression
    tjobs = [(n, d, b) for n in imported if n.isidentifier() for d, b in TYPE_BODIES]
    tsrcs = [type_program("ZzFresh", b) for d, b in TYPE_BODIES] + [type_program(n, b) for n, d, b in tjobs]
    tout = e2e.compile_many(tsrcs, run=True, tag="c07t")

    def verdict(o):
        return e2e.parse_case_lines(o.get("stdout", "")).get("t", {}).get("verdict") if o["compiled"] else "does-not-compile"
    fresh = {}
    for (d, b), o in zip(TYPE_BODIES, tout[:len(TYPE_BODIES)]):
        fresh[d] = verdict(o)
        if fresh[d] == "does-not-compile":
            raise vlib.CheckError("type twin `%s` does not compile with a fresh type name:\n%s" % (d, o["stderr"][-800:]))
    type_bad = 0
    for (n, d, b), o in zip(tjobs, tout[len(TYPE_BODIES):]):
        v = verdict(o)
        if v != fresh[d]:
            type_bad += 1
            twin_bad += 1
            if type_bad <= 3:
                res.violation("failing-input", "a caller type named `%s` (a name the expansion imports with `use`), used in a pattern expression "
                              "(%s): the assertion %s, with the type called ZzFresh it %s" % (n, d, v, fresh[d]),
                              {"type_twin": True, "name": n, "where": d, "body": b, "verdicts": [v, fresh[d]],
                               "rustc": o["stderr"][-700:] if v == "does-not-compile" else ""})
    res.streams["type-twins"] = {"imported_names": [n for n in imported if n.isidentifier()], "places": len(TYPE_BODIES),
                                 "programs": len(tsrcs), "differing": type_bad}
    e2e.cleanup("c07t")
    # trait methods the expansion brings into scope
    mnames, mtraits = imported_trait_methods(oks[:400])
    msrcs = [method_program("zz_fresh_method", b) for d, b in METHOD_BODIES] + [method_program(n, b) for n in mnames for d, b in METHOD_BODIES]
    mout = e2e.compile_many(msrcs, run=True, tag="c07m")
    e2e.cleanup("c07m")
    mfresh = [verdict(o) for o in mout[:len(METHOD_BODIES)]]
    if any(v != "pass" for v in mfresh):
        raise vlib.CheckError("a method twin does not pass with a fresh method name: %s\n%s" % (mfresh, [o["stderr"][-400:] for o in mout[:len(METHOD_BODIES)] if not o["compiled"]][:1]))
    method_bad = 0
    skipped = []
    k = len(METHOD_BODIES)
    for ni, n in enumerate(mnames):
        outs = mout[k * (ni + 1):k * (ni + 2)]
        if verdict(outs[0]) != "pass":
            skipped.append(n)          # the caller's method of this name is shadowed without any assertion (a prelude trait): not the macro's doing
            continue
        for (d, b), o in zip(METHOD_BODIES[1:], outs[1:]):
            v = verdict(o)
            if v != "pass":
                method_bad += 1
                twin_bad += 1
                if method_bad <= 3:
                    res.violation("failing-input", "a caller's own method named `%s` (the name of a method of a trait the expansion imports), called in a pattern "
                                  "expression (%s): the assertion %s; with the method called zz_fresh_method, and outside any assertion, it passes"
                                  % (n, d, v), {"method_twin": True, "name": n, "where": d, "body": b, "rustc": o["stderr"][-700:] if v == "does-not-compile" else ""})
    res.streams["method-twins"] = {"traits_imported_by_the_expansion": mtraits, "method_names": mnames, "shadowed_even_outside_assertions": skipped,
                                   "places": len(METHOD_BODIES) - 1, "differing": method_bad}
    # fields with near-identical names
    near = near_name_programs()
    nout = e2e.compile_many([near_program(b) for _, b, _ in near], run=True, tag="c07n")
    e2e.cleanup("c07n")
    near_bad = 0
    for (d, b, want), o in zip(near, nout):
        v = e2e.parse_case_lines(o.get("stdout", "")).get("t", {}).get("verdict") if o["compiled"] else "does-not-compile"
        if v != want:
            near_bad += 1
            twin_bad += 1
            if near_bad <= 3:
                res.violation("failing-input", "fields with near-identical names (%s): the assertion %s, each pattern checked against its own field it must %s"
                              % (d, v, want), {"near_name_body": b, "want": want, "rustc": o["stderr"][-600:] if v == "does-not-compile" else ""})
    res.streams["near-name-fields"] = {"programs": len(near), "wrong": near_bad}
    e2e.cleanup("c07")
    res.streams["twins"] = {"pairs": len(tw), "differing": twin_bad}
    expstage.report_disagreement(res, name, dis, failing > 0 or twin_bad > 0)
    if not dis and not failing and not inv_dis and not twin_bad:
        res.discharged.append(name)
    res.coverage.update({
        "evaluations": len(recs) + 2 * len(tw), "distinct_nontrivial": sum(1 for r in oks if len(r.readback.get("binders", [])) > 2) + len(tw),
        "rule": "shared pattern corpus: every identifier bound anywhere in the real expansion (found with syn) must be reserved or "
                "written by the user as a binder, and the inventory must equal the model's; plus twin programs compiled by rustc that "
                "differ only in the name of a caller local, drawn from {the matched field, sibling fields, each helper name}; "
                "non-trivial = an expansion with more than two binders, or a twin pair",
        "samples": [{"twin": t[1].format(N=t[2])} for t in tw[:3]] + [{"invocation": r.text, "binders": r.readback.get("binders")} for r in oks[6:8]],
    })


def replay(res, path):
    v = json.load(open(path))
    if v.get("near_name_body"):
        o = e2e.compile_many([near_program(v["near_name_body"])], run=True, tag="c07r")[0]
        e2e.cleanup("c07r")
        got = e2e.parse_case_lines(o.get("stdout", "")).get("t", {}).get("verdict") if o["compiled"] else "does-not-compile"
        print("verdict:", got, "wanted:", v["want"])
        return 1 if got != v["want"] else 0
    if v.get("method_twin"):
        out = e2e.compile_many([method_program(v["name"], v["body"]), method_program("zz_fresh_method", v["body"])], run=True, tag="c07r")
        vs = [(e2e.parse_case_lines(o.get("stdout", "")).get("t", {}).get("verdict") if o["compiled"] else "does-not-compile") for o in out]
        e2e.cleanup("c07r")
        print("verdicts (method named %s, named zz_fresh_method):" % v["name"], vs)
        return 1 if vs[0] != vs[1] else 0
    if v.get("type_twin"):
        out = e2e.compile_many([type_program(v["name"], v["body"]), type_program("ZzFresh", v["body"])], run=True, tag="c07r")
        vs = [(e2e.parse_case_lines(o.get("stdout", "")).get("t", {}).get("verdict") if o["compiled"] else "does-not-compile") for o in out]
        e2e.cleanup("c07r")
        print("verdicts (named %s, named ZzFresh):" % v["name"], vs)
        return 1 if vs[0] != vs[1] else 0
    if "program_body" in v:
        out = e2e.compile_many([program(v["program_body"]), program(v["twin_body"])], run=True, tag="c07r")
        vs = [(e2e.parse_case_lines(o.get("stdout", "")).get("t", {}).get("verdict") if o["compiled"] else "does-not-compile") for o in out]
        print("verdicts:", vs)
        return 1 if vs[0] != vs[1] else 0
    ok, out = maclib.build_mac()
    if not ok:
        raise vlib.CheckError(out[-1500:])
    m = maclib.run_mac([v["invocation"]])[0].split("\t")
    b = json.loads(m[5]).get("binders", []) if m[0] == "ok" else []
    bad = [x for x in b if not USER_BINDER_OK(x)]
    print("plain binders:", bad)
    return 1 if bad else 0
