#!/usr/bin/env python3
"""development helper: compare real and model expansion for invocations given on stdin (one per line)."""
import sys, os
sys.path.insert(0, os.path.dirname(os.path.abspath(__file__)))
import vlib, maclib
ok, out = maclib.build_mac()
if not ok:
    print(out[-3000:]); sys.exit(1)
vlib.build_model_runner()
inv = [l.rstrip("\n").replace("\\n", "\n") for l in sys.stdin if l.strip()]
mac = maclib.run_mac(inv)
mod = maclib.model_expand(mac)
bad = 0
for s, m, o in zip(inv, mac, mod):
    f = m.split("\t")
    if f[0] != "ok":
        print("%-5s %s  %s" % (f[0], s, vlib.unhx(f[1].split(" ")[0]).decode() if len(f) > 1 else ""))
        continue
    d = maclib.first_diff(f[4], o)
    if d or f[3] != "valid=1":
        bad += 1
        print("DIFF  %s\n      %s %s" % (s, f[3], d))
    else:
        print("same  %s  (%d tokens)" % (s, len(o.split(" "))))
print("bad:", bad)
