"""patgen.py — generator of assert_struct! patterns (as text) together with a
structured description that the property oracles use.  Everything is derived
from the random.Random instance passed in, so a seed replays exactly.

A pattern is a tree of Node objects; `render` lays it out as source text under a
layout style and records, for every node, the character extent of its own text
and of its children."""
import random


class Node:
    def __init__(self, kind, pieces, **info):
        self.kind = kind
        self.pieces = pieces        # list of str (tokens) | Node (child patterns) | ("ops", str) markers
        self.info = info
        self.extent = None          # (start, end) character offsets in the rendered text
        self.index = None           # pre-order index

    def children(self):
        return [p for p in self.pieces if isinstance(p, Node)]

    def walk(self):
        yield self
        for c in self.children():
            yield from c.walk()


# ------------------------------------------------------------------ leaves --

SIMPLE = ["5", "-5", "true", "'c'", "1.5", "0x1F", "2 + 3", "b'a'", "5u8", "1_000", "-2.5e3", "'\\n'", "b\"ab\"", "{ 1 + 1 }", "- 7", "1 << 3"]
OPERANDS = ["30", "x", "foo.bar", "mk(1)", "-1", "\"s\"", "a + b", "limits::MAX", "&y", "v[0]", "(1, 2)", "r#type", "\"std :: vec :: Vec\"", "\"a ,  b\"", "concat!(\"x :: y\", \"& mut\")", "xs.iter().map(|cl_e| cl_e + 1).count()",
            "format!(\"{}-{}\", a, b)", "vec![1, 2, 3]", "Vec::<u8>::with_capacity(2)", "{ let cl_t = 1; cl_t + 1 }", "if c { 1 } else { 2 }", "&&z", "t.0", "größe",
            "-x", "!ok", "x as i64", "b\"bytes\"", "\"multi\\nline\"", "Some(1)", "S { a: 1 }", "[1, 2]", "a_rather_long_identifier_that_goes_on_and_on_for_a_while_to_stress_label_widths",
            # punctuation that belongs to the expression: the comma of a one-element tuple, trailing commas in calls, arrays and macros
            "(5,)", "Some((5,))", "f((1,), [2,],)", "vec![1, 2,]", "None::<(u8,)>",
            # a quote character that does not delimit an ordinary string, followed by a string whose spacing is part of what was written
            "f('\"', \"a  b\")", "r#\"say \"hi  there\"\"#", "(r\"\\\", \"a  b\")", "g(b'\"', \"x   y\")", "(\"\\\\\", \"c  d\")"]
STRINGS = ["\"hi\"", "\"\"", "\"a b\"", "\"日本\"", "\"q\\\"uote\"", "r\"raw\"", "\"tab\\t\"", "\"std :: vec :: Vec\"", "\"a  b\"", "\" lead, trail \"", "\"x ::< y >:: z\"", "r\"( a . b )\"", "\"\\\"Alice\\\"\"", "r#\"\"q  q\"\"#"]
RANGES = ["1..5", "1..=5", "..5", "..=5", "1..", "-3..=3", "'a'..='z'", "0.5..1.5"]
REGEXES = ["r\"^a\"", "\"a+\"", "r\"\\d+\"", "r#\"x\"y\"#"]
LIKES = ["pat", "mk(1)", "&re", "self.p", "Pat { n: 1 }", "r#ref", "Pat::<u8>::new()", "vec![\"a\"]", "(p)", "{ p }", "größe", "mk((\"a\",))", "lk('\"', \"o  p\")"]
CLOSURES = ["|cl_x| cl_x > 5", "move |cl_x| ok(cl_x)", "|cl_x: &i32| *cl_x > 1", "|cl_v| { cl_v.len() > 0 }", "|_| true"]
CMP_OPS = ["<", "<=", ">", ">=", "==", "!="]
STRUCT_PATHS = ["S", "m::S", "E::V", "crate::a::B", "S::<u8>", "r#struct::S", "::std::ops::Range", "Größe"]
ENUM_PATHS = ["Some", "Ok", "Err", "E::T", "a::b::C", "Option::<i32>::Some", "::std::option::Option::Some", "r#enum::V"]
UNIT_PATHS = ["None", "E::W", "Status::Active", "Option::<u8>::None", "r#mod::UNIT", "Größe::Klein", "i32::MAX", "r#type::r#match"]
FIELDS = ["0", "1", "age", "name", "items", "inner", "re", "actual", "x", "r#type", "größe", "__report", "a_rather_long_field_name_to_stress_widths", "userName", "_hidden", "a__b", "X"]
KEYS = ["\"a\"", "\"key two\"", "\"std :: vec\"", "\"a  b . c\"", "k", "1", "mk(2)", "&id", "r#type", "(1, 2)", "format!(\"k{}\", 1)", "-1", "'c'", "b\"k\"", "K::<u8>::new()", "(1,)", "f(2,)", "f('\"', \"a  b\")", "r#\"k\"1  2\"#"]
VALUES = ["v", "self.x", "mk(1).y", "&v", "*v", "resp.data[0]", "(a, b)", "r#type", "vec![1, 2]", "mk::<u8>()", "{ v }", "größe", "f(|cl_q| cl_q + 1)", "-v", "v as u8",
          "S { a: 1 }", "[1, 2, 3]", "&mut w"]

LEAF_KINDS = ["simple", "string", "cmp", "range", "regex", "like", "wild", "closure", "unit"]
COMPOSITE_KINDS = ["struct", "wstruct", "enum", "tuple", "slice", "set", "map"]
ALL_KINDS = LEAF_KINDS + COMPOSITE_KINDS


def leaf(rng, kind):
    if kind == "simple":
        t = rng.choice(SIMPLE)
        return Node("simple", [t], text=t)
    if kind == "string":
        t = rng.choice(STRINGS)
        return Node("string", [t], text=t)
    if kind == "cmp":
        op, x = rng.choice(CMP_OPS), rng.choice(OPERANDS)
        return Node("cmp", [op, x], op=op, operand=x)
    if kind == "range":
        t = rng.choice(RANGES)
        return Node("range", [t], text=t)
    if kind == "regex":
        t = rng.choice(REGEXES)
        return Node("regex", ["=~", t], text=t)
    if kind == "like":
        t = rng.choice(LIKES)
        return Node("like", ["=~", t], text=t)
    if kind == "wild":
        return Node("wild", ["_"])
    if kind == "closure":
        t = rng.choice(CLOSURES)
        return Node("closure", [t], text=t)
    if kind == "unit":
        t = rng.choice(UNIT_PATHS)
        return Node("unit", [t], path=t)
    raise ValueError(kind)


# --------------------------------------------------------- field operations --

def field_ops(rng, root=None, allow_ops=True):
    """Text of a field-operation chain and a description of it."""
    root = root if root is not None else rng.choice(FIELDS)
    if not allow_ops or rng.random() < 0.5:
        return root, {"root": root, "ops": []}
    ops = []
    text = root
    nstars = rng.choice([0, 0, 1, 1, 2])
    for k in range(rng.randint(0 if nstars else 1, 3)):
        o = rng.choice(["named", "method", "method_args", "index", "await", "unnamed", "unnamed2"])
        if root.isdigit() and k == 0 and o in ("unnamed", "unnamed2"):
            o = "named"      # `0.1` would lex as a float literal
        if o == "named":
            text += "." + rng.choice(["inner", "len2", "g"])
        elif o == "method":
            text += "." + rng.choice(["len", "is_empty", "clone", "as_str"]) + "()"
        elif o == "method_args":
            text += ".get(" + ", ".join(rng.choice(["1", "x", "&k", "\"s\""]) for _ in range(rng.randint(1, 2))) + ")"
        elif o == "index":
            text += "[" + rng.choice(["0", "i", "1 + 1", "\"k\"", "..2"]) + "]"
        elif o == "await":
            text += ".await"
        elif o == "unnamed":
            text += "." + rng.choice(["0", "1", "2"])
        else:
            text += "." + rng.choice(["0.1", "1.0"])
        ops.append(o)
    text = "*" * nstars + text
    return text, {"root": root, "ops": ops, "stars": nstars}


# --------------------------------------------------------------- composites --

def gen(rng, depth, kind=None, kinds=None):
    """A random pattern of nesting depth <= depth."""
    kinds = kinds or ALL_KINDS
    if kind is None:
        kind = rng.choice(LEAF_KINDS if depth <= 0 else kinds)
    if kind in LEAF_KINDS:
        return leaf(rng, kind)
    sub = lambda: gen(rng, depth - 1, kinds=kinds)   # noqa: E731
    if kind in ("struct", "wstruct"):
        n = rng.randint(0, 4)
        rest = True if kind == "wstruct" else rng.random() < 0.5
        names = []
        pieces = [rng.choice(STRUCT_PATHS) if kind == "struct" else "_", "{"]
        fields = []
        for i in range(n):
            root = rng.choice(FIELDS)
            if rng.random() < 0.15 and names:
                root = rng.choice(names)            # repeated field
            names.append(root)
            ftxt, fdesc = field_ops(rng, root)
            child = sub()
            fields.append((fdesc, child))
            pieces += [("ops", ftxt), ":", child]
            if i < n - 1 or rest or rng.random() < 0.3:
                pieces.append(",")
        if rest:
            pieces.append("..")
        pieces.append("}")
        return Node(kind, pieces, path=pieces[0], rest=rest, fields=fields)
    if kind in ("enum", "tuple"):
        n = rng.randint(1, 4)
        pieces = ([rng.choice(ENUM_PATHS)] if kind == "enum" else []) + ["("]
        elems = []
        for i in range(n):
            child = sub()
            if rng.random() < 0.25:
                ftxt, fdesc = field_ops(rng, str(i))
                pieces += [("ops", ftxt), ":", child]
                elems.append((fdesc, child))
            else:
                pieces.append(child)
                elems.append((None, child))
            if i < n - 1 or rng.random() < 0.2:
                pieces.append(",")
        pieces.append(")")
        return Node(kind, pieces, path=pieces[0] if kind == "enum" else None, elems=elems)
    if kind == "slice":
        n = rng.randint(0, 4)
        restpos = rng.choice([None, None, 0, n, rng.randint(0, n)])
        pieces = ["["]
        elems = []
        items = []
        for i in range(n + 1):
            if restpos == i:
                items.append("..")
            if i < n:
                items.append(sub())
        for j, it in enumerate(items):
            pieces.append(it)
            if isinstance(it, Node):
                elems.append(it)
            if j < len(items) - 1 or (items and rng.random() < 0.2):
                pieces.append(",")
        pieces.append("]")
        return Node("slice", pieces, rest=restpos is not None, nelems=n, elems=elems)
    if kind == "set":
        n = rng.randint(0, 3)
        rest = rng.random() < 0.5
        pieces = ["#", "("]
        elems = []
        for i in range(n):
            c = sub()     # `..5` / `..=5` are range patterns here too (since fix 4900e66)
            elems.append(c)
            pieces.append(c)
            if i < n - 1 or rest or rng.random() < 0.2:
                pieces.append(",")
        if rest:
            pieces.append("..")
            if n == 0 and rng.random() < 0.3:
                pieces.append(",")
        pieces.append(")")
        return Node("set", pieces, rest=rest, nelems=n, elems=elems)
    if kind == "map":
        n = rng.randint(0, 3)
        rest = rng.random() < 0.5
        pieces = ["#", "{"]
        entries = []
        for i in range(n):
            k = rng.choice(KEYS)
            c = sub()
            entries.append((k, c))
            pieces += [k, ":", c]
            if i < n - 1 or rest or rng.random() < 0.2:
                pieces.append(",")
        if rest:
            pieces.append("..")
        pieces.append("}")
        return Node("map", pieces, rest=rest, entries=entries)
    raise ValueError(kind)


def with_child(rng, parent_kind, child, rest=None, ops=None):
    """A parent of the given kind holding `child` (used by the exhaustive depth-2 sweep)."""
    other = leaf(rng, "simple")
    if parent_kind in ("struct", "wstruct"):
        rest = True if parent_kind == "wstruct" else bool(rest)
        ftxt = ops if ops is not None else "f"
        pieces = ["S" if parent_kind == "struct" else "_", "{", ("ops", ftxt), ":", child, ",", ("ops", "g"), ":", other]
        if rest:
            pieces += [",", ".."]
        pieces.append("}")
        return Node(parent_kind, pieces, path=pieces[0], rest=rest,
                    fields=[({"root": "f", "text": ftxt}, child), ({"root": "g", "text": "g"}, other)])
    if parent_kind in ("enum", "tuple"):
        pieces = (["E::T"] if parent_kind == "enum" else []) + ["("]
        if ops is not None:
            pieces += [("ops", ops), ":", child]
        else:
            pieces.append(child)
        pieces += [",", other, ")"]
        return Node(parent_kind, pieces, path="E::T" if parent_kind == "enum" else None,
                    elems=[({"text": ops} if ops else None, child), (None, other)])
    if parent_kind == "some":
        return Node("enum", ["Some", "(", child, ")"], path="Some", elems=[(None, child)])
    if parent_kind == "slice":
        pieces = ["[", child, ",", other]
        if rest:
            pieces += [",", ".."]
        pieces.append("]")
        return Node("slice", pieces, rest=bool(rest), nelems=2, elems=[child, other])
    if parent_kind == "set":
        pieces = ["#", "(", child, ",", other]
        if rest:
            pieces += [",", ".."]
        pieces.append(")")
        return Node("set", pieces, rest=bool(rest), nelems=2, elems=[child, other])
    if parent_kind == "map":
        pieces = ["#", "{", "\"k\"", ":", child, ",", "j", ":", other]
        if rest:
            pieces += [",", ".."]
        pieces.append("}")
        return Node("map", pieces, rest=bool(rest), entries=[("\"k\"", child), ("j", other)])
    raise ValueError(parent_kind)


OPS_SWEEP = ["f", "*f", "**f", "f.g", "f.len()", "f.get(1, x)", "f[0]", "f.await", "f.0", "f.0.1", "*f.g.h()[1].await"]
TUPLE_OPS_SWEEP = ["0", "*0", "0.len()", "0.g[1]", "**0.x.await"]


def exhaustive_depth2(rng):
    """Every pattern kind in every parent kind, with every field-operation kind and both rest settings."""
    out = []
    child_makers = []
    for k in LEAF_KINDS:
        child_makers.append(lambda k=k: leaf(rng, k))
    for k in COMPOSITE_KINDS:
        child_makers.append(lambda k=k: gen(rng, 1, kind=k, kinds=LEAF_KINDS))
    for mk in child_makers:
        out.append(mk())                                   # at the root
        for rest in (False, True):
            for ops in OPS_SWEEP:
                out.append(with_child(rng, "struct", mk(), rest=rest, ops=ops))
            for pk in ("slice", "set", "map"):
                out.append(with_child(rng, pk, mk(), rest=rest))
        for ops in OPS_SWEEP:
            out.append(with_child(rng, "wstruct", mk(), ops=ops))
        for pk in ("enum", "tuple"):
            out.append(with_child(rng, pk, mk()))
            for ops in TUPLE_OPS_SWEEP:
                out.append(with_child(rng, pk, mk(), ops=ops))
        out.append(with_child(rng, "some", mk()))
    return out


# ------------------------------------------------------------------ layout --

LAYOUTS = ["compact", "multiline", "tabs", "crlf", "unicode", "wide", "split"]


def split_spaces(text, rng, prob=0.25):
    """`split` layout: some of the single spaces of a one-line rendering become line breaks (same length, so every recorded
    offset stays valid): the tokens of ONE sub-pattern (operator and operand, the segments of a path, the bounds of a range,
    a closure) then sit on different lines, the continuation at column 0 — left of where the sub-pattern began.  Never inside
    a string or char literal."""
    out = []
    i, n = 0, len(text)
    while i < n:
        ch = text[i]
        if ch == '"':
            j = i + 1
            while j < n and text[j] != '"':
                j += 2 if text[j] == "\\" else 1
            out.append(text[i:j + 1])
            i = j + 1
            continue
        if ch == "r" and text[i + 1:i + 2] in ('"', "#") and (i == 0 or not (text[i - 1].isalnum() or text[i - 1] == "_")):
            j = i + 1
            h = 0
            while j < n and text[j] == "#":
                h += 1
                j += 1
            if j < n and text[j] == '"':
                end = text.find('"' + "#" * h, j + 1)
                end = n if end < 0 else end + 1 + h
                out.append(text[i:end])
                i = end
                continue
        if ch == "'":
            m = None
            if text[i + 1:i + 2] == "\\":
                m = text.find("'", i + 2)
            elif text[i + 2:i + 3] == "'":
                m = i + 2
            if m is not None and m > 0:
                out.append(text[i:m + 1])
                i = m + 1
                continue
        if ch == " " and rng.random() < prob:
            out.append("\n")
        else:
            out.append(ch)
        i += 1
    return "".join(out)


def render(root, rng, layout="compact", value=None):
    """Returns (invocation_text, pattern_offset).  Sets node.extent / node.index on
    every node (character offsets within the invocation text)."""
    if layout == "split":
        text, poff = render(root, rng, "compact", value)
        return split_spaces(text, rng), poff
    value = value if value is not None else rng.choice(VALUES)
    out = []
    pos = [0]
    nl = "\r\n" if layout == "crlf" else "\n"
    depth = [0]

    def emit(s):
        out.append(s)
        pos[0] += len(s)

    def sep_before(tok, prev):
        if prev is None:
            return ""
        if tok == "<pat>":
            return "" if prev in ("(", "[") and layout == "compact" else (" " if layout == "compact" else sep_before("x", prev))
        if layout == "compact":
            if tok in (",", ")", "]", ":") or prev in ("(", "[", "#"):
                return ""
            if prev == "#":
                return ""
            return " "
        if layout == "wide":
            return " " * rng.randint(1, 4) if prev != "#" else ""
        if prev == "#":
            return ""
        if layout in ("multiline", "tabs", "crlf", "unicode"):
            ind = ("\t" if layout == "tabs" else "    ") * depth[0]
            if prev in ("{", "(", "[", ","):
                if layout == "unicode" and rng.random() < 0.4:
                    return " /* é日😀 */ "
                if rng.random() < 0.7:
                    return nl + ind
            if tok in ("}", ")", "]") and rng.random() < 0.5:
                return nl + ("\t" if layout == "tabs" else "    ") * max(0, depth[0] - 1)
            if tok in (",", ":"):
                return ""
            return " "
        return " "

    prev = [None]
    counter = [0]

    def go(node):
        node.index = counter[0]
        counter[0] += 1
        start = None
        for p in node.pieces:
            if isinstance(p, Node):
                emit(sep_before("<pat>", prev[0]))
                if start is None:
                    start = pos[0]
                prev[0] = "<pat>"
                go(p)
                prev[0] = "<pat-end>"
            else:
                tok = p[1] if isinstance(p, tuple) else p
                emit(sep_before(tok, prev[0]))
                if start is None:
                    start = pos[0]
                if tok in ("{", "(", "["):
                    depth[0] += 1
                if tok in ("}", ")", "]"):
                    depth[0] -= 1
                emit(tok)
                prev[0] = tok
        node.extent = (start if start is not None else pos[0], pos[0])

    lead = ""
    if layout == "unicode":
        lead = "/* 日本語 é */ "
    emit(lead + value + "," + (" " if layout == "compact" else nl))
    prev[0] = None
    poff = pos[0]
    root.info["poff"] = poff
    go(root)
    return "".join(out), poff


def describe(node):
    d = {"kind": node.kind, "extent": node.extent}
    for k in ("rest", "nelems", "op", "operand", "text", "path"):
        if k in node.info:
            d[k] = node.info[k]
    kids = node.children()
    if kids:
        d["children"] = [describe(c) for c in kids]
    return d


def corpus(rng, tier):
    """The shared corpus: (i) exhaustive depth 2, (ii) random compositions to depth 6,
    each rendered under a layout.  Returns a list of (invocation_text, root_node, layout)."""
    out = []
    for n in exhaustive_depth2(rng):
        lay = "compact" if rng.random() < 0.7 else rng.choice(LAYOUTS)
        text, _ = render(n, rng, lay)
        out.append((text, n, lay))
    count = 1200 if tier == "quick" else 30000
    for _ in range(count):
        d = rng.choice([1, 2, 2, 3, 3, 4, 5, 6])
        n = gen(rng, d, kind=rng.choice(COMPOSITE_KINDS) if rng.random() < 0.8 else None)
        lay = rng.choice(LAYOUTS)
        text, _ = render(n, rng, lay)
        out.append((text, n, lay))
    return out
