"""maclib.py — drive harness/mac (the macro's real parser and expander, in-process)
and the extracted model's expander on the same invocations."""
import os
import shutil
import subprocess

import vlib
from vlib import hx, unhx

MAC = os.path.join(vlib.VERIF, "harness", "mac")
MSRC = os.path.join(vlib.REPO, "assert-struct-macros", "src")


def prepare_mac():
    """Copy the macro crate's sources into the harness crate (lib.rs is replaced by
    the shim main.rs).  Only files that changed are rewritten, so cargo stays incremental."""
    dst = os.path.join(MAC, "src")
    keep = {"main.rs", "ser.rs", "readback.rs", "oracle.rs"}
    want = {}
    for d, dirs, files in os.walk(MSRC):
        for f in files:
            p = os.path.join(d, f)
            rel = os.path.relpath(p, MSRC)
            if rel == "lib.rs":
                continue
            want[rel] = open(p, "rb").read()
    for d, dirs, files in os.walk(dst):
        for f in files:
            rel = os.path.relpath(os.path.join(d, f), dst)
            if rel not in want and rel not in keep:
                os.remove(os.path.join(d, f))
    for rel, data in want.items():
        p = os.path.join(dst, rel)
        os.makedirs(os.path.dirname(p), exist_ok=True)
        if not os.path.exists(p) or open(p, "rb").read() != data:
            open(p, "wb").write(data)


def build_mac(features=None):
    prepare_mac()
    return vlib.build_harness("mac", features=features)


def decode_tok(t):
    body, sp = t.rsplit("@", 1)
    k = body[0]
    if k in "IL":
        return "%s[%s]" % (unhx(body[1:]).decode("utf-8", "replace"), sp)
    if k == "P":
        return "%s%s[%s]" % (unhx(body[1:-1]).decode(), "~" if body[-1] == "j" else "", sp)
    return "%s%s[%s]" % ({"O": "open-", "C": "close-"}[k], body[1], sp)


def first_diff(a, b):
    ta, tb = a.split(" "), b.split(" ")
    for i, (x, y) in enumerate(zip(ta, tb)):
        if x != y:
            ctx = " ".join(decode_tok(t) for t in ta[max(0, i - 6):i])
            return "token %d after `%s`: impl %s  model %s | impl next: %s | model next: %s" % (
                i, ctx, decode_tok(x), decode_tok(y),
                " ".join(decode_tok(t) for t in ta[i:i + 6]), " ".join(decode_tok(t) for t in tb[i:i + 6]))
    if len(ta) != len(tb):
        i = min(len(ta), len(tb))
        return "length %d vs %d; extra: %s" % (len(ta), len(tb), " ".join(decode_tok(t) for t in (ta[i:i + 8] or tb[i:i + 8])))
    return None


def text_of_tokens(flat):
    return " ".join(decode_tok(t).rsplit("[", 1)[0] for t in flat.split(" ") if t)


def run_mac(invocations, mode="expand", env_extra=None):
    lines = ["%s\t%s" % (mode, hx(s)) for s in invocations]
    return vlib.run_harness("mac", lines, env_extra=env_extra)


def model_expand(mac_lines, join_ok=True):
    """For every `ok` line of the harness, ask the model for the expansion of the same tree."""
    req = []
    idx = []
    for i, l in enumerate(mac_lines):
        f = l.split("\t")
        if f[0] == "ok":
            req.append("expand\t%s\t%s\t%s" % ("1" if join_ok else "0", f[1], f[2]))
            idx.append(i)
    out = vlib.run_model(req) if req else []
    res = [None] * len(mac_lines)
    for i, o in zip(idx, out):
        res[i] = o
    return res
