"""parsestage.py — the shared front-end stage (C13, C15, C14's history half): token streams run
through the macro's real parser + expander (harness/mac, in-process, under catch_unwind) and
through the extracted Coq model of the front end (Parser.v, FrontEnd.v) whose three oracles
(syn's Expr / Path / ExprClosure parsers) are instantiated by a table computed by the real syn
on every suffix of every group of the same stream."""
import random

import corrupt
import maclib
import patgen
import vlib


class PRec:
    __slots__ = ("text", "origin", "cls", "real", "real_status", "real_pos", "real_value", "real_tree", "valid", "exp_same", "exp_tokens",
                 "ms", "tt", "table", "model", "model_status", "model_pos", "model_value", "model_tree",
                 "model_ctr", "oracle_bad", "msg")


# ------------------------------------------------------------------ corpora ---

# Malformations named by property C15, by construction: each fragment must be rejected wherever
# a pattern may be written.
MALFORMED = {
    "rest-not-last-struct": ["S { .., a: 1 }", "S { a: 1, .., b: 2 }", "_ { .., a: 1 }", "S { a: 1, .., }",
                             "m::S { .., .. }", "_ { a: 1, .., b: _ }",
                             # what follows the `..` is long and not ASCII (an error message that quotes or abbreviates it has to cut it somewhere)
                             "S { .., name: \"日本語日本語日本語日本語日本語日本語\" }", "_ { .., größe_größe_größe_größe: \"é\" }", "S { a: 1, .., b: \"aé日😀aé日😀aé日😀aé日😀aé日😀\" }"],
    "rest-not-last-set": ["#(1, .., 2)", "#(.., 1)", "#(1, .., )", "#(.., ..)", "#(_, .., _)", "#(.., \"日本語日本語日本語日本語日本語日本語\")", "#(.., \"a日本語日本語日本語日本語日本語日本語\", 2)"],
    "rest-not-last-map": ["#{ .., \"k\": 1 }", "#{ \"a\": 1, .., \"k\": 1 }", "#{ \"a\": 1, .., }", "#{ .., }", "#{ .., \"日本語日本語日本語日本語日本語日本語\": 1 }", "#{ .., \"ab\": \"日本語日本語日本語日本語日本語日本語\" }"],
    "tuple-index-mismatch": ["(1: 5)", "(0: 1, 0: 2)", "Some(1: 2)", "(5, 0: 1)", "E::T(0: 1, 2: 3)", "(*1: 5)",
                             "(0: 1, 1.len(): 2, 3: 4)"],
    "tuple-named-index": ["(x: 1)", "Some(*f: 2)", "(0: 1, name: 2)", "Some(*inner.0: 7)", "(0: 1, *second.1: 3)", "(*x.0.len(): 1)", "(**a.0: 1)",
                          "E::T(*f.0: 1, 1: 2)", "(x.0: 1)", "(0: 1, *a.b.1: 2)", "(*x[0].0: 1)", "Ok(*r.0.await: 1)"],
    "closure-arity": ["|| true", "|a, b| a > b", "move || 1", "|a, b, c| true"],
    "eq-other": ["= 5", "=> 5", "= = 5", "=! 5", "= \"x\"", "=- 1"],
    "operator-without-operand": [">", "<=", "==", "!=", "=~", "<", "!"],
    "trailing-tokens": ["1 2", "Some(1) 2", "\"a\" \"b\"", "S { a: 1 } S", "_ _", "[1] [2]", "> 1 2", "#(1) 1",
                        "None None", "1..2 3", "|x| x 1 ;", "1 \"日本語日本語日本語日本語日本語日本語\"", "\"aé日😀aé日😀aé日😀aé日😀aé日😀\" \"b\""],
    "missing-colon-or-comma": ["S { a 1 }", "S { a: 1 b: 2 }", "[1 2]", "#(1 2)", "#{ \"k\" 1 }", "(1 2)", "Some(1 2)"],
    "bad-field-path": ["S { a.: 1 }", "S { .a: 1 }", "S { a.b.: 1 }", "S { a[]: 1 }", "S { a.1.5e3: 1 }", "S { a.-1: 1 }",
                       "S { -1: 1 }", "S { a.fn: 1 }", "S { 1.0x: 2 }", "S { a.0.0f32: 1 }", "_ { self: 1, .. }"],
}

SPECIAL_VALID = [
    "v, S { 0: 1, .. }", "v, S { 0x10: 1, .. }", "v, S { a.0.1: 1, .. }", "v, S { a.0.1.2: 1, .. }", "v, S { r#type: 1, .. }",
    "v, S { a.await: 1, .. }", "v, S { a.b().c[0].d.await: 1, .. }", "v, S { ***a: 1, .. }", "v, (0: 1, *1: 2, 2.len(): 3)",
    "v, #(..)", "v, #(..,)", "v, #(..5)", "v, #(..=5, 1)", "v, #(1, ..5, ..)", "v, #(.. 5)", "v, #(..5, ..=6, ..)", "v, #{..}", "v, _ {..}", "v, S {}", "v, ()", "v, []", "v, #()", "v, #{}", "v, [..]", "v, [.., ..]",
    "v, [1, .., 2, .., 3]", "v, S { a: .., b: ..=5, .. }", "v, x", "v, f()", "v, a::b::<u8>::C", "v, Vec::<u8>::new()",
    "v, S { a: b::C { d: 1 }, .. }", "v, == S { a: 1 }", "v, < f(1, 2)", "v, >= -5", "v, != (1, 2)", "v, =~ x", "v, =~ r\"a\"",
    "v, =~ \"a\"", "v, |x| x > 5", "v, move |x| x", "v, |x: &u8| -> bool { true }", "v, 'a'..='z'", "v, 1..", "v, ..=2",
    "v, true", "v, -1", "v, 1 + 2", "v, \"s\"", "v, r#\"s\"#", "v, b\"s\"", "v, 1u8", "v, 1.0", "v, Some(Some(Some(_)))",
    "v, (((1,),),)", "v, [[[]]]", "v, S { a: S { a: S { a: 1 } } }", "v, #(#(#(1)))", "v, #{ 1: #{ 2: #{ 3: 4 } } }",
    "f(a, b), x", "a.b.c, 1", "&v[..], [1, 2]", "v.await, 1", "if a { b } else { c }, 1", "match x { _ => 1 }, 1",
    "v, Some < [ [ self ] [  ] { 0.1 .. <= } ] >", "v, Vec::<[u8 9]>::new()", "v, m::S::<(a b)> { x: 1 }", "v, E::<[T; 3 4]>::V(1)",
    "v, =~ #[a] r\"x\"", "v, =~ #[cfg(any())] \"a\"", "v, S { f: =~ #[a] \"x\", .. }", "v, == #[a] 1", "v, #[a] 1", "v, #[a] \"s\"", "v, #{ #[a] \"k\": 1 }",
    "v, S { f.get(#[a] 1): 2, .. }", "v, #[a] 1..2", "v, |cl_x| #[a] true",
    "& mut w, _ {f : (move | cl_x | | ok (cl_x), b'a', - 5, | _ | true), g : 1.5, ..}", "v, |-5| true", "v, (|cl_x| |-1, 'c'| cl_x, 2)",
    "#[a] v, 1", "#[a] (v), 1", "(#[a] (v)), _", "#[cfg(any())] (p), S { .. }", "((v)), 1", "(v), S { a: 1 }", "#[a] #[b(c = \"d\")] ((v)), 1", "(#[a] v).f, 1", "#[a] { v }, 1",
    "v, S { a: 4294967294 }", "v, Some(0: 1)", "v, E::V(0.f: 1, 1: 2)", "v, (0.0: 1)",
]
# regex literals at the edges of what a regex engine takes (should the macro ever look inside one while it expands): not a regex at all,
# valid but huge when compiled, deeply nested, empty, classes and flags of every kind, non-ASCII, very long
REGEX_LITERALS = [
    r'v, =~ r"("', r'v, =~ r"[a-"', r'v, =~ r"*a"', r'v, =~ r"a{2,1}"', r'v, =~ r"\p{NoSuchClass}"', r'v, =~ r"(?P<n>a)(?P<n>b)"', r'v, =~ r"\q"',
    r'v, =~ r""', r'v, =~ ""', r'v, =~ r"(?:\w{100}){100}"', r'v, =~ r"(?:\w{1000}){1000}"', r'v, =~ r"a{1000}{1000}"', r'v, =~ r"\pL{5000}"',
    'v, =~ r"' + "(" * 300 + "a" + ")" * 300 + '"', 'v, =~ r"' + "(" * 2000 + "a" + ")" * 2000 + '"', 'v, =~ r"' + "a|" * 5000 + 'a"',
    'v, =~ r"' + "[a-z]" * 3000 + '"', 'v, =~ "' + "x" * 70000 + '"', r'v, =~ r"(?i)(?m)(?s)(?x) a b # c"', r'v, =~ r"\b\B\A\z"', 'v, =~ r"日本語\p{Han}+"',
    r'v, =~ r"(?-u:\xFF)"', r'v, =~ r"\u{110000}"', r'v, =~ r"[[:alpha:]&&[^a]]"', r'v, S { f: =~ r"(?:\w{100}){100}", g: =~ r"(", .. }', r'v, #(=~ r"(?:\w{100}){100}", ..)',
    r'v, Some(=~ r"[")', r'v, #{ "k": =~ r"(?:\d{500}){500}" }',
]
# tuple indices at and above u32::MAX (syn::Index::from asserts index < u32::MAX)
BIG_INDEX = [
    "v, S { 4294967295: 1 }", "v, S { 4294967296: 1 }", "v, S { a.4294967295: 1, .. }", "v, S { a.4294967296: 1, .. }",
    "v, S { a.0.4294967295: 1, .. }", "v, S { a.4294967295.0: 1, .. }", "v, _ { 4294967296: 1, .. }", "v, _ { a.4294967296: 1, .. }",
    "v, (0.4294967295: 1)", "v, Some(0.4294967296.0: 1)", "v, S { 18446744073709551615: 1 }", "v, S { 18446744073709551616: 1 }",
    "v, S { a.18446744073709551616: 1, .. }", "v, S { a.0.18446744073709551616: 1, .. }", "v, S { 4294967294: 1 }",
    "v, S { a.4294967294: 1, .. }", "v, S { 0xFFFFFFFF: 1 }", "v, S { a.0xFFFFFFFF: 1, .. }",
]

FRAGMENTS = [["::", "<", "u64", ">"], ["::", "<", "String", ",", "3", ">"], ["as", "u8"], [("(", [], ")")], [("[", ["0"], "]")],
             [".", "await"], ["#", ("[", ["a"], "]")], ["'a", ":"], [":", "u8"], ["-", ">", "T"], ["::", "new"], ["!", ("(", [], ")")],
             [".", "0"], ["where", "T", ":"], ["if", "true"], ["@", "_"], ["&", "mut"], ["dyn", "T"], ["=", "1"]]
IDENTS = ["a", "S", "Some", "_", "move", "await", "true", "self", "x"]
LITS = ["1", "0", "1.5", "0.1", "\"s\"", "'c'", "1e3", "7u8"]
PUNCTS = [",", ":", "::", ".", "..", "..=", "=", "==", "=~", "<", "<=", ">", ">=", "!=", "!", "*", "#", "|", "&", "-", "~", "?", "'a", "=>", "->", "@", ";", "+"]
OPEN = {"(": ")", "[": "]", "{": "}"}


def random_tokens(rng, n, depth):
    out = []
    for _ in range(n):
        r = rng.random()
        if r < 0.25:
            out.append(rng.choice(IDENTS))
        elif r < 0.4:
            out.append(rng.choice(LITS))
        elif r < 0.8 or depth <= 0:
            out.append(rng.choice(PUNCTS))
        else:
            o = rng.choice(list(OPEN))
            out.append(o + " " + random_tokens(rng, rng.randint(0, 4), depth - 1) + " " + OPEN[o])
    return " ".join(out)


def nested(kind, d):
    if kind == "some":
        return "Some(" * d + "1" + ")" * d
    if kind == "tuple":
        return "(" * d + "1," + ",)" * (d - 1) + ")"
    if kind == "slice":
        return "[" * d + "1" + "]" * d
    if kind == "struct":
        return "S { a: " * d + "1" + " }" * d
    if kind == "set":
        return "#(" * d + "1" + ")" * d
    if kind == "map":
        return "#{ 1: " * d + "1" + " }" * d
    if kind == "idx":
        return "(0: " * d + "1" + ")" * d
    raise ValueError(kind)


def replace_random_leaf(rng, root, raw_text):
    """Put a raw fragment where a pattern is written somewhere in the tree (or at the root)."""
    nodes = [n for n in root.walk() if n.children()]
    frag = patgen.Node("raw", [raw_text], text=raw_text)
    if not nodes or rng.random() < 0.15:
        return frag
    parent = rng.choice(nodes)
    idx = [i for i, p in enumerate(parent.pieces) if isinstance(p, patgen.Node)]
    parent.pieces[rng.choice(idx)] = frag
    return root


def long_text_cases(rng, quick):
    """patterns in which ONE token or expression is long (around 2^8, 2^10, 2^12 and 2^16 bytes) and holds characters of 1 to 4 bytes
    at every alignment: whatever the macro does with the text of a pattern (stores it, abbreviates it, hashes it, compares it) it
    does to these too.  Valid input: must be accepted."""
    wrappers = ["v, \"%s\"", "v, == \"%s\"", "v, != f(\"%s\", 1)", "v, =~ r\"%s\"", "v, =~ mk(\"%s\")", "v, |cl_x| cl_x == \"%s\"",
                "v, S { a: \"%s\", b: == \"%s\", .. }", "v, #{ \"%s\": 1, .. }", "v, Some([\"%s\", ..])", "v, #(\"%s\", ..)", "v, f(\"%s\")",
                "v, (0: \"%s\", _)", "v, _ { a.get(\"%s\"): Some(1), .. }"]
    units = ["é", "日", "😀", "aé", "日b", "a😀", "éa日😀"]
    sizes = [255, 256, 257, 1023, 1024, 1025, 4095, 4096, 4097] + ([] if quick else [16384, 65535, 65536, 65537])
    out = []
    for n in sizes:
        for shift in range(4):
            u = rng.choice(units) if quick else None
            for unit in ([u] if quick else units):
                body = "a" * shift
                while len(body.encode("utf-8")) < n + 8:
                    body += unit
                w = rng.choice(wrappers) if quick else None
                for wr in ([w] if quick else rng.sample(wrappers, 4)):
                    out.append(wr.replace("%s", body))
    # the same with an identifier / path instead of a literal
    for n in (255, 1024, 4096):
        out.append("v, == " + "größe_" * (n // 7))
        out.append("v, " + "::".join(["größe_" * (n // 140)] * 20) + "::S { a: 1, .. }")
    return out


def corpus(rng, tier):
    """list of (text, origin, malformation class or None)"""
    out = []
    for t in long_text_cases(random.Random(rng.random()), tier == "quick"):
        out.append((t, "long-text", None))
    for t in SPECIAL_VALID:
        out.append((t, "special", None))
    for t in BIG_INDEX:
        out.append((t, "big-index", None))
    for t in REGEX_LITERALS:
        out.append((t, "regex-literal", None))
    quick = tier == "quick"
    # valid patterns
    valid = patgen.corpus(random.Random(rng.random()), "quick")
    if quick:
        valid = valid[::3]
    for text, node, lay in valid:
        out.append((text, "valid", None))
    # C15's malformations, bare and embedded in random contexts
    for cls, frags in MALFORMED.items():
        for fr in frags:
            out.append(("v, " + fr, "malformed", cls))
            for _ in range(4 if quick else 40):
                host = patgen.gen(rng, rng.choice([1, 2, 2, 3]), kind=rng.choice(patgen.COMPOSITE_KINDS))
                tree = replace_random_leaf(rng, host, fr)
                text, _ = patgen.render(tree, rng, rng.choice(["compact", "compact", "multiline"]))
                out.append((text, "malformed", cls))
    # every truncation and single-token edits of valid patterns
    srcs = rng.sample(valid, min(len(valid), 150 if quick else 2500))
    for text, node, lay in srcs:
        for kind, new in corrupt.corruptions(text, rng, 6 if quick else 12):
            out.append((new, "corrupt:" + kind, None))
    # exhaustive single edits of a few patterns: every token deleted, duplicated, and every foreign token inserted
    # before every token (a token the grammar has no place for must be rejected wherever it lands)
    small = [v for v in valid if 8 <= len(v[0]) <= 90]
    for text, node, lay in rng.sample(small, min(len(small), 8 if quick else 120)):
        try:
            tree = corrupt.lex(text)
        except ValueError:
            continue
        for path, i in corrupt.positions(tree):
            t = corrupt._copy(tree)
            del corrupt._at(t, path)[i]
            out.append((corrupt.render(t), "edit:delete", None))
            t = corrupt._copy(tree)
            lst = corrupt._at(t, path)
            lst.insert(i, lst[i])
            out.append((corrupt.render(t), "edit:duplicate", None))
            for ft in corrupt.FOREIGN + ["1.5", "'x'", "true", "b\"s\"", "r\"x\""]:
                t = corrupt._copy(tree)
                corrupt._at(t, path).insert(i, ft)
                out.append((corrupt.render(t), "edit:insert", None))
            # foreign FRAGMENTS: short token sequences that are well formed somewhere in Rust (generic arguments, casts,
            # calls, attributes, labels, type ascriptions) but have no place where they land
            for frag in FRAGMENTS:
                t = corrupt._copy(tree)
                lst = corrupt._at(t, path)
                lst[i:i] = frag
                out.append((corrupt.render(t), "edit:insert-fragment", None))
    trunc = rng.sample(valid, min(len(valid), 25 if quick else 400))
    for text, node, lay in trunc:
        try:
            tree = corrupt.lex(text)
        except ValueError:
            continue
        for path, i in corrupt.positions(tree):
            t = corrupt._copy(tree)
            del corrupt._at(t, path)[i:]
            out.append((corrupt.render(t), "truncation", None))
    # grammar-random token sequences
    for _ in range(600 if quick else 20000):
        out.append(("v, " + random_tokens(rng, rng.randint(1, 8), 3), "random", None))
    for _ in range(60 if quick else 1000):
        out.append((random_tokens(rng, rng.randint(0, 6), 2), "random-top", None))
    # long user expressions with multi-byte characters at every byte alignment, in every position that
    # holds user text (anything that cuts, pads or indexes such text by bytes shows here)
    for L in range(40, 150, 5 if quick else 1):
        for shift in range(3):
            pad = "a" * shift
            body = "\"" + pad + "日本語" * ((L - shift) // 9 + 1) + "\""
            for tmpl in ("|cl_x| cl_x == %s", "%s", "== %s", "=~ f(%s)", "#{ %s: 1 }", "S { a.get(%s): 1, .. }",
                         "S { a[%s]: 1, .. }", "m::P(%s)", "..= %s"):
                out.append(("v, " + tmpl % body, "unicode-long", None))
            out.append(("f(%s), 1" % body, "unicode-long", None))
    # nesting
    maxd = 11 if quick else 15
    for kind in ("some", "tuple", "slice", "struct", "set", "map", "idx"):
        for d in range(1, maxd + 1):
            if kind in ("some", "tuple", "idx") or d in (1, 2, 3, 5, 8, maxd):
                out.append(("v, " + nested(kind, d), "nested:" + kind, None))
    seen = set()
    uniq = []
    for t in out:
        if t[0] not in seen:
            seen.add(t[0])
            uniq.append(t)
    return uniq


# ------------------------------------------------------------------ running ---

def split_real(line):
    f = line.split("\t")
    d = {"status": f[0], "pos": None, "value": None, "tree": None, "valid": None, "ms": 0, "tt": None, "table": None, "msg": None, "tokens": None}
    if f[0] == "ok":
        d["value"], d["tree"], d["valid"], d["tokens"] = f[1], f[2], f[3] == "valid=1", f[4]
    elif f[0] == "err":
        msg, sp = f[1].split(" ")
        d["msg"] = vlib.unhx(msg).decode("utf-8", "replace")
        d["pos"] = "cs" if sp == "cs" else ".".join(sp.split(".")[:2])
    elif f[0] == "panic":
        d["msg"] = vlib.unhx(f[1]).decode("utf-8", "replace")
    for x in f:
        if x.startswith("ms="):
            d["ms"] = int(x[3:])
    if "TT" in f:
        i = f.index("TT")
        d["tt"], d["table"] = f[i + 1], f[i + 3]
    return d


def split_model(line):
    f = line.split("\t")
    d = {"status": f[0], "pos": None, "value": None, "tree": None, "ctr": None, "bad": None, "tokens": None}
    if f[0] == "ok":
        d["value"], d["tree"], d["tokens"] = f[1], f[2], f[3]
    elif f[0] == "err":
        d["pos"] = f[1]
    for x in f:
        if x.startswith("ctr="):
            d["ctr"] = x[4:]
        if x.startswith("ORACLE-ILL-FORMED"):
            d["bad"] = x
    return d


def run_texts(texts, regex=True, join_ok=True, mac_env=None):
    """Both sides on the given invocation texts.  Returns a list of PRec (origin/cls unset)."""
    real = maclib.run_mac(texts, mode="poracle", env_extra=mac_env)
    req, idx = [], []
    for i, l in enumerate(real):
        d = split_real(l)
        if d["tt"] is not None and d["tt"] != "failed":
            req.append("frontend\t%d\t%d\t0\t%s\t%s" % (1 if regex else 0, 1 if join_ok else 0, d["tt"], d["table"]))
            idx.append(i)
    mod = vlib.run_model(req) if req else []
    mlines = [None] * len(texts)
    for i, o in zip(idx, mod):
        mlines[i] = o
    recs = []
    for t, l, m in zip(texts, real, mlines):
        r = PRec()
        r.text, r.real = t, l
        d = split_real(l)
        r.real_status, r.real_pos, r.real_value, r.real_tree, r.valid, r.ms, r.tt, r.table, r.msg = (
            d["status"], d["pos"], d["value"], d["tree"], d["valid"], d["ms"], d["tt"], d["table"], d["msg"])
        r.model = m
        r.exp_same = None
        r.exp_tokens = d.get("tokens") if d["status"] == "ok" else None
        if m is None:
            r.model_status = None
            r.model_pos = r.model_value = r.model_tree = r.model_ctr = r.oracle_bad = None
        else:
            dm = split_model(m)
            r.model_status, r.model_pos, r.model_value, r.model_tree, r.model_ctr, r.oracle_bad = (
                dm["status"], dm["pos"], dm["value"], dm["tree"], dm["ctr"], dm["bad"])
            if d["status"] == "ok" and dm["status"] == "ok":
                r.exp_same = d["tokens"] == dm["tokens"]
                if not r.exp_same:
                    r.msg = maclib.first_diff(d["tokens"], dm["tokens"])
        r.origin = r.cls = None
        recs.append(r)
    return recs


def agree(r, with_expansion=True):
    """None if implementation and model agree on this stream, else a description."""
    if r.real_status == "lex":
        return None                        # never reaches the macro: rustc rejects it while lexing
    if r.model_status is None:
        return "the model could not be run (token trees or oracle table unavailable)"
    if r.oracle_bad:
        return "syn's parser violates the model's oracle hypothesis: " + r.oracle_bad
    if r.real_status != r.model_status:
        return "outcome: implementation %s, model %s" % (r.real_status, r.model_status)
    if r.real_status == "err" and r.real_pos != r.model_pos:
        return "error position: implementation %s, model %s" % (r.real_pos, r.model_pos)
    if r.real_status == "ok" and (r.real_value != r.model_value or r.real_tree != r.model_tree):
        return "parsed tree differs"
    if with_expansion and r.real_status == "ok" and r.exp_same is False:
        return "expansion differs: " + str(r.msg)
    return None


def run_stage(res, tier, seed):
    def compute():
        vlib.build_model_runner()
        ok, out = maclib.build_mac()
        if not ok:
            raise vlib.CheckError("harness mac does not build against /repo/assert-struct-macros/src "
                                  "(treated as a broken correspondence): " + out[-1500:])
        rng = random.Random(seed * 7919 + 13)
        corp = corpus(rng, tier)
        recs = run_texts([c[0] for c in corp])
        for r, c in zip(recs, corp):
            r.origin, r.cls = c[1], c[2]
        return [{s: getattr(r, s) for s in PRec.__slots__ if s not in ("table", "real", "model")} for r in recs]
    rows = vlib.cached("parsestage", [tier, seed], compute)
    recs = []
    for row in rows:
        r = PRec()
        for s in PRec.__slots__:
            setattr(r, s, row.get(s))
        recs.append(r)
    return recs


def stats(recs):
    by = {}
    for r in recs:
        o = r.origin.split(":")[0]
        d = by.setdefault(o, {"cases": 0, "ok": 0, "err": 0, "panic": 0, "lex": 0})
        d["cases"] += 1
        d[r.real_status] = d.get(r.real_status, 0) + 1
    return by
