#!/bin/bash
# seed_try.sh <patch.diff> <property id>... — apply a seeded change to /repo, run the named checks (quick tier), undo it.
# Development helper; never leaves /repo modified.
P="$1"; shift
cd /repo || exit 2
if [ -n "$(git status --porcelain)" ]; then echo "/repo is not clean"; exit 2; fi
git apply "$P" || { echo "patch does not apply"; exit 2; }
trap 'git -C /repo checkout -q -- . ; git -C /repo clean -qfd assert-struct assert-struct-macros' EXIT
cd /verif
for id in "$@"; do
  s=$(date +%s)
  VERIF_NO_EVIDENCE=1 ./check "$id" --tier "${TIER:-quick}" > .work/seed_out_$id.txt 2> .work/seed_err_$id.txt; rc=$?
  e=$(date +%s)
  echo "== $id rc=$rc $((e-s))s"
  grep -h "VIOLATION" .work/seed_out_$id.txt | head -3
  for f in $(grep -ho "replay=[^ ]*" .work/seed_out_$id.txt | cut -d= -f2 | head -2); do
    python3 -c "import json,sys; v=json.load(open('$f')); print('   ', v['kind'], '|', v['what'][:400])"
  done
done
