"""seed_table.py — regenerate the table of DESIGN.md 9.4 from seeded/*/meta.json (development helper)."""
import json
import os
import re

V = os.path.dirname(os.path.dirname(os.path.abspath(__file__)))


def esc(s):
    return s.replace("|", "\\|").replace("\n", " ")


rows = []
for name in sorted(os.listdir(os.path.join(V, "seeded"))):
    p = os.path.join(V, "seeded", name, "meta.json")
    if not os.path.exists(p):
        continue
    m = json.load(open(p))
    det = "<br>".join("**%s**: %s" % (k, esc(v)) for k, v in m.get("detection", {}).items())
    rows.append("| `%s` | %s | %s | %s |" % (name, ", ".join(m.get("breaks_properties", [])), esc(m.get("needs_to_manifest", "")), det))
d = open(os.path.join(V, "DESIGN.md")).read()
head = "| seeded change | breaks | needs, to manifest | which check reports what |\n|---|---|---|---|\n"
i = d.index(head) + len(head)
j = d.index("\n\n", i)
d = d[:i] + "\n".join(rows) + d[j:]
open(os.path.join(V, "DESIGN.md"), "w").write(d)
print(len(rows), "rows")
