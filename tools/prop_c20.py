"""C20 — type errors point into the pattern."""
import json

import e2e
import expstage
import matrix
import vlib

# (fault kind, target type, value, pattern P written where a pattern of that type may stand, fragment F of P
#  on which at least one error must have its primary location)
FAULTS = [
    ("literal-type", "i32", "7", "true", "true"),
    ("literal-type-str", "i32", "7", "\"text\"", "\"text\""),
    ("literal-type-int", "String", "\"hello\".to_string()", "5", "5"),
    ("operand-type", "i32", "7", "> \"x\"", "> \"x\""),
    ("operand-type-eq", "i32", "7", "== true", "== true"),
    ("range-bound", "i32", "7", "\"a\"..=\"z\"", "\"a\"..=\"z\""),
    ("like-missing-impl", "i32", "7", "=~ pat", "=~ pat"),
    ("regex-on-non-string", "i32", "7", "=~ r\"^x\"", "=~ r\"^x\""),
    ("closure-parameter", "i32", "7", "|cx: String| cx.is_empty()", "|cx: String| cx.is_empty()"),
    ("wrong-variant-path", "i32", "7", "Some(1)", "Some(1)"),
    ("wrong-struct-path", "Leaf", "Leaf { n: 7, s: \"hello\".to_string() }", "NC(\"a\")", "NC(\"a\")"),
    ("unknown-field", "Leaf", "Leaf { n: 7, s: \"hello\".to_string() }", "Leaf { zz: 1, .. }", "zz: 1"),
    ("unknown-nested-field", "Leaf", "Leaf { n: 7, s: \"hello\".to_string() }", "Leaf { s.zz: 1, .. }", "s.zz: 1"),
    ("unknown-method", "Leaf", "Leaf { n: 7, s: \"hello\".to_string() }", "Leaf { s.nope(): 1, .. }", "s.nope(): 1"),
    ("bad-index", "Leaf", "Leaf { n: 7, s: \"hello\".to_string() }", "Leaf { n[0]: 1, .. }", "n[0]: 1"),
    ("wildcard-unknown-field", "Leaf", "Leaf { n: 7, s: \"hello\".to_string() }", "_ { zz: 1, .. }", "zz: 1"),
    ("nested-literal-type", "Leaf", "Leaf { n: 7, s: \"hello\".to_string() }", "Leaf { n: \"seven\", .. }", "\"seven\""),
    # the value's type does not support the comparison at all (E0599 / E0369 on the generated method call)
    ("no-partialord", "NC", "NC(\"a\".to_string())", "> NC(\"b\".to_string())", "> NC(\"b\".to_string())"),
    ("no-partialord-le", "NoEq", "NoEq(1)", "<= NoEq(2)", "<= NoEq(2)"),
    ("no-partialeq-ne", "NoEq", "NoEq(1)", "!= NoEq(2)", "!= NoEq(2)"),
    ("no-partialeq-eq", "NoEq", "NoEq(1)", "== NoEq(2)", "== NoEq(2)"),
    ("unknown-tuple-index", "(i32, String)", "(7, \"hello\".to_string())", "_ { 5: 1, .. }", "5: 1"),
    ("unknown-nested-tuple-index", "Leaf", "Leaf { n: 7, s: \"hello\".to_string() }", "Leaf { n.3: 1, .. }", "n.3: 1"),
    # consecutive tuple indices reach the macro as ONE float-like token (`.0.7` is `.` and `0.7`): each half is an index of its own
    ("unknown-second-consecutive-index", "TP", "TP { pair: ((1, 2), 3) }", "TP { pair.0.7: 1, .. }", "pair.0.7: 1"),
    ("unknown-first-consecutive-index", "TP", "TP { pair: ((1, 2), 3) }", "TP { pair.3.0: 1, .. }", "pair.3.0: 1"),
    ("index-into-a-non-tuple", "TP", "TP { pair: ((1, 2), 3) }", "TP { pair.1.0: 1, .. }", "pair.1.0: 1"),
    ("unknown-third-consecutive-index", "TP", "TP { pair: ((1, 2), 3) }", "_ { pair.0.1.5: 1, .. }", "pair.0.1.5: 1"),
    ("consecutive-indices-wrong-literal", "TP", "TP { pair: ((1, 2), 3) }", "TP { pair.0.1: \"two\", .. }", "\"two\""),
    # the SAME literal text twice in one pattern, the second time on a type it does not fit (a user type with another Like impl, a
    # number): the error belongs to the second occurrence (`@last:` = the fragment's last occurrence in the pattern)
    ("repeated-regex-literal-second-ill-typed", "TwoR", "TwoR { s: \"xa\".to_string(), e: Em(\"xb\".to_string()), n: 1 }", "TwoR { s: =~ r\"^x\", e: =~ r\"^x\", .. }", "@last:=~ r\"^x\""),
    ("repeated-regex-literal-on-a-number", "TwoR", "TwoR { s: \"xa\".to_string(), e: Em(\"xb\".to_string()), n: 1 }", "TwoR { s: =~ r\"^x\", n: =~ r\"^x\", .. }", "@last:=~ r\"^x\""),
    ("repeated-string-literal-second-ill-typed", "TwoR", "TwoR { s: \"xa\".to_string(), e: Em(\"xb\".to_string()), n: 1 }", "TwoR { s: \"xa\", n: \"xa\", .. }", "@last:\"xa\""),
    ("repeated-operand-second-ill-typed", "TwoR", "TwoR { s: \"xa\".to_string(), e: Em(\"xb\".to_string()), n: 1 }", "TwoR { n: == 1, s: == 1, .. }", "@last:== 1"),
    # whole-pattern kinds on a value of another kind, with keys that are not string literals
    ("map-pattern-on-a-vec-integer-key", "Vec<i32>", "vec![1, 2]", "#{ 0: 42, .. }", "#{ 0: 42, .. }"),
    ("map-pattern-on-a-vec-exact", "Vec<i32>", "vec![1, 2]", "#{ 0: 1, 1: 2 }", "#{ 0: 1, 1: 2 }"),
    ("map-pattern-on-a-string-variable-key", "String", "\"hello\".to_string()", "#{ pat: 1, .. }", "#{ pat: 1, .. }"),
    ("map-key-of-another-type", "BTreeMap<String, i32>", "BTreeMap::from([(\"a\".to_string(), 1)])", "#{ 1: 1, .. }", "#{ 1: 1, .. }"),
    ("nested-operand-type", "Leaf", "Leaf { n: 7, s: \"hello\".to_string() }", "Leaf { n: 7, s.len(): < \"five\" }", "< \"five\""),
]

SKIP_POSITIONS = {"wild_deref", "root_mut_ref"}      # known finding C11-wild-deref: does not compile for a reason of its own


def program(ty, val, pos, pattern):
    """The pattern under test stands alone on its own line, at column 1."""
    decl, setup, root, wrap = matrix.POSITIONS[pos]
    decl = decl.format(T=ty, V=val)
    setup = setup.format(T=ty, V=val)
    if root == "<LOWPREC>":
        root = {"i32": "x + 0", "String": "x.clone() + \"\""}[ty]
    pat = wrap.format(P="\n" + pattern + "\n")
    head = (e2e.PRELUDE + matrix.COMMON + decl +
            "\nfn main() { %s let pat = \"^he\"; assert_struct!(%s, " % (setup, root))
    src = head + pat + "); }\n"
    line = head.count("\n") + pat[:pat.index("\n" + pattern + "\n") + 1].count("\n") + 1
    return src, line


def primary_spans(stderr):
    out = []
    for l in stderr.splitlines():
        if not l.startswith("{"):
            continue
        try:
            d = json.loads(l)
        except ValueError:
            continue
        if d.get("level") != "error" or not d.get("spans"):
            continue
        for s in d["spans"]:
            if s.get("is_primary"):
                out.append({"code": (d.get("code") or {}).get("code"), "line_start": s["line_start"], "line_end": s["line_end"],
                            "col_start": s["column_start"], "col_end": s["column_end"], "in_expansion": s.get("expansion") is not None,
                            "message": d.get("message", "")[:120]})
    return out


def frag_start(pattern, fragment):
    return pattern.rindex(fragment[len("@last:"):]) if fragment.startswith("@last:") else pattern.index(fragment)


def points_into(spans, line, pattern, fragment):
    if fragment.startswith("@last:"):
        fragment = fragment[len("@last:"):]
        lo = pattern.rindex(fragment) + 1
    else:
        lo = pattern.index(fragment) + 1
    hi = lo + len(fragment)
    for s in spans:
        if s["line_start"] == line and s["line_end"] == line and lo <= s["col_start"] and s["col_end"] <= hi:
            return True
    return False


def run(res):
    res.trusted += ["Coq 8.16.1 kernel (coqc)", "rustc: which generated token a type error is reported on (empirical; measured here on every run)",
                    "harness/mac (token-exact expander correspondence, spans included)", "tools/matrix.py positions, tools/prop_c20.py generator"]
    res.assumptions += ["PARTIAL: the theorems fix which spans the generated tokens carry; that rustc's primary location for each fault kind is one "
                        "of those tokens is observed on the fault x position matrix, not proved"]
    vlib.build_coq()
    ths, rep = vlib.check_props("C20")
    res.obligations += ths
    res.discharged += ths
    res.coverage["print_assumptions"] = rep

    facts_err = vlib.check_fact_props(res, "C20f", "span sources of the expander")
    cells = []
    for (kind, ty, val, pat, frag) in FAULTS:
        for pos in matrix.POSITIONS:
            if pos in SKIP_POSITIONS or (pos == "root_lowprec" and ty not in ("i32", "String")):
                continue
            src, line = program(ty, val, pos, pat)
            cells.append((kind, pos, pat, frag, src, line))
    # controls: the same positions without a fault must compile
    controls = [program("i32", "7", pos, "7")[0] for pos in matrix.POSITIONS if pos not in SKIP_POSITIONS]

    def compute():
        out = e2e.compile_many([c[4] for c in cells] + controls, run=False, json_diag=True, tag="c20")
        e2e.cleanup("c20")
        return [(o["compiled"], primary_spans(o["stderr"])) for o in out]
    results = vlib.cached("blame", [res.tier, len(cells)], compute)
    ctl = results[len(cells):]
    bad_ctl = [i for i, (ok, _) in enumerate(ctl) if not ok]
    if bad_ctl:
        raise vlib.CheckError("fault-free control programs do not compile (harness broken): positions %s" % bad_ctl[:3])
    name = "correspondence:fault x position matrix under rustc (primary location inside the faulty sub-pattern)"
    res.obligations.append(name)
    failing = 0
    by_kind = {}
    codes = {}
    for (kind, pos, pat, frag, src, line), (compiled, spans) in zip(cells, results):
        d = by_kind.setdefault(kind, {"cells": 0, "pointing_into_pattern": 0})
        d["cells"] += 1
        for s in spans:
            codes[s["code"] or "error"] = codes.get(s["code"] or "error", 0) + 1
        if compiled:
            failing += 1
            if failing <= 3:
                res.violation("failing-input", "an ill-typed sub-pattern (%s) in position `%s` compiles" % (kind, pos),
                              {"fault": kind, "position": pos, "pattern": pat, "program": src})
            continue
        if points_into(spans, line, pat, frag):
            d["pointing_into_pattern"] += 1
        else:
            failing += 1
            if failing <= 3:
                res.violation("failing-input",
                              "type fault `%s` in position `%s`: no error has its primary location on `%s` (line %d, columns %d-%d); "
                              "errors are reported at %s" % (kind, pos, frag, line, frag_start(pat, frag) + 1, frag_start(pat, frag) + len(frag.replace("@last:", "")),
                                                             [(s["code"], s["line_start"], s["col_start"], s["col_end"], "in-expansion" if s["in_expansion"] else "")
                                                              for s in spans][:4]),
                              {"fault": kind, "position": pos, "pattern": pat, "fragment": frag, "line": line, "errors": spans[:6], "program": src})
    res.streams["blame-matrix"] = {"cells": len(cells), "fault_kinds": len(FAULTS), "positions": len(matrix.POSITIONS) - len(SKIP_POSITIONS),
                                   "by_kind": by_kind, "error_codes": codes, "controls_compiled": len(ctl)}
    # what the theorems say about `expand` holds of the real expander's output: token-exact, spans included
    try:
        recs = expstage.run_stage(res, "quick", res.seed)
    except vlib.CheckError as e:
        # the in-process harness no longer builds against /repo (the pattern types changed shape): the token-exact correspondence
        # cannot be run; the fault x position matrix above does not need it and has been judged already
        recs = []
        if not failing:
            res.violation("no-failing-input-found", "correspondence expander could not be run: %s" % str(e)[-900:], {"stream": "expander"})
    dis = [r for r in recs if r.status == "ok" and r.tokens != r.model]
    res.streams["expander"] = {"invocations": len(recs), "token_disagreements": len(dis),
                               "tokens_compared_with_spans": sum(len(r.tokens.split(" ")) for r in recs if r.status == "ok")}
    res.obligations.append("correspondence:expander(token-exact, spans included)")
    if dis and not failing:
        res.violation("no-failing-input-found", "correspondence expander no longer checks: the real expansion and the model's differ on %d invocations "
                      "(Props/C20.v is about the model's spans)" % len(dis),
                      {"first_disagreement": {"invocation": dis[0].text, "difference": expstage.maclib.first_diff(dis[0].tokens, dis[0].model)}})
    if not dis:
        res.discharged.append("correspondence:expander(token-exact, spans included)")
    vlib.report_fact_failure(res, "C20f", facts_err, "span sources of the expander")
    if not failing:
        res.discharged.append(name)
    res.coverage.update({"evaluations": len(cells) + len(controls) + len(recs), "distinct_nontrivial": len(cells),
                         "rule": "%d single type faults (wrong literal type, wrong operand type, range bounds, missing Like impl, regex on a non-string, "
                                 "closure parameter type, wrong variant / struct path, unknown field, nested field, method, bad index, wildcard-struct field, "
                                 "and two faults nested one level deeper) x %d positions a pattern can occupy; each cell one program compiled by rustc with "
                                 "--error-format=json; the faulty pattern stands alone on its own line so the required location is exact "
                                 "(line and column range of the faulty fragment)" % (len(FAULTS), len(matrix.POSITIONS) - len(SKIP_POSITIONS))})


def replay(res, path):
    v = json.load(open(path))
    if "program" not in v:
        print("replay file names a broken obligation:", v.get("what"))
        return 1
    out = e2e.compile_many([v["program"]], run=False, json_diag=True, tag="c20r")
    e2e.cleanup("c20r")
    spans = primary_spans(out[0]["stderr"])
    ok = (not out[0]["compiled"]) and points_into(spans, v["line"], v["pattern"], v["fragment"])
    print("errors at:", [(s["code"], s["line_start"], s["col_start"], s["col_end"]) for s in spans], "->",
          "points into the pattern" if ok else "VIOLATION")
    return 0 if ok else 1
