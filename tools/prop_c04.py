"""C04 — each report entry marks the failed sub-pattern's own source text."""
import json
import random
import re

import corrupt
import e2e
import expstage
import maclib
import mspan
import semgen
import semstage
import textgen
import vlib
from vlib import hx, unhx


def offset_of(text, line, col):
    """index, in the file as it is read back, of the character the compiler places at (line, col): a leading byte-order mark is
    in the file but not in the compiler's columns of line 1"""
    lines = text.split("\n")
    if line == 1 and text.startswith(textgen.BOM):
        col += 1
    return sum(len(l) + 1 for l in lines[:line - 1]) + col


def location_problems(rec):
    """the range recorded for every node of the real expansion vs where the generator wrote that
    sub-pattern: non-empty, begins on a token of the node, inside the node's own text, and
    not overlapping a child (in-process: Span::join available)"""
    rb = rec.readback
    if not rb.get("parse") or rec.node is None:
        return [], 0
    tab, _ = expstage.static_table(rb)
    probs = []
    checked = [0]
    text = rec.text

    def go(node, nid):
        d = tab.get(nid)
        if d is None or expstage.kind_name(d) != expstage.KIND_MAP[node.kind]:
            return
        if node.kind not in ("wild", "wstruct"):
            ls, cs, le, ce = d["line_start"], d["col_start"], d["line_end"], d["col_end"]
            checked[0] += 1
            if ls == 0:
                probs.append("%s pattern at %s has no position" % (node.kind, node.extent))
            else:
                s, e = offset_of(text, ls, cs), offset_of(text, le, ce)
                x0, x1 = node.extent
                if not s < e:
                    probs.append("%s: empty range %d..%d" % (node.kind, s, e))
                elif s < x0 or e > x1:
                    probs.append("%s written at %d..%d is marked %d..%d (`%s`): outside its own text"
                                 % (node.kind, x0, x1, s, e, text[s:e]))
                elif text[s].isspace() or (s > 0 and text[s - 1].isalnum() and text[s].isalnum()):
                    probs.append("%s: marked range does not begin on a token (`%s`)" % (node.kind, text[max(0, s - 3):e]))
                elif node.kind == "set":
                    # in-process only (proc-macro2's fallback): Span::join succeeds and the set node spans the whole
                    # `#( .. )`; under a stable rustc it is anchored on `#` alone, which stage (3) checks
                    if text[s] != "#":
                        probs.append("set: marked range does not begin on `#`")
                else:
                    for c in node.children():
                        c0, c1 = c.extent
                        if s < c1 and e > c0:
                            probs.append("%s: marked range `%s` covers its child %s" % (node.kind, text[s:e], c.kind))
                            break
        for c, cid in zip(node.children(), expstage.child_ids(d)):
            go(c, cid)

    go(rec.node, rb["root"])
    return probs, checked[0]


# ---- real rustc: layouts applied to failing assertions ----------------------------

def relayout(pattern, rng, style):
    """spread a pattern over several lines with tabs / CR LF / non-ASCII comments"""
    toks = []

    def flat(t):
        for x in t:
            if isinstance(x, tuple):
                toks.append(x[0])
                flat(x[1])
                toks.append(x[2])
            else:
                toks.append(x)
    flat(corrupt.lex(pattern))
    nl = "\r\n" if style == "crlf" else "\n"
    ind = "\t" if style == "tabs" else "    "
    out = ""
    depth = 1
    for i, t in enumerate(toks):
        if t in ")]}":
            depth -= 1
        prev = toks[i - 1] if i else None
        if prev is None:
            pass
        elif prev in ("{", ",", "(", "[") and t not in ")]}" and rng.random() < 0.7:
            out += nl + ind * depth
            if style == "unicode" and rng.random() < 0.6:
                out += "/* é日😀 */ "
        elif prev == "#" or t in (",", ")", "]") or prev in ("(", "[") or (t == ":" ) or (prev in (".",) or t in (".",)) or \
                (t == "(" and prev and (prev[-1].isalnum() or prev[-1] == "_")) or (t == "[" and prev and (prev[-1].isalnum() or prev[-1] in ")]_")) or \
                (prev in ("*", "-", "&", "!") and i >= 2 and toks[i - 2] in ("{", ",", "(", "[", ":", "=~", "==", "!=", "<", "<=", ">", ">=", "*", "..", "..=")) or \
                (prev == "|" or t == "|"):
            out += "" if not (prev == "|" or t == "|") else " "
        else:
            out += " "
        if style == "unicode" and t == ":" and rng.random() < 0.3:
            t = ": /* ß→ */"
        out += t
        if t in "([{":
            depth += 1
    return out


def own_text(node_display, marked):
    """the text a node's mark may show, from the node's Display form: the mark must be a non-empty
    prefix of it (under a stable rustc a multi-token expression is anchored on its first token)"""
    d = node_display
    if d.startswith("=~ "):
        return [d[3:]]
    if d.endswith("{ ... }"):
        return [d[:-len(" { ... }")]]
    if d.endswith("(...)"):
        return [d[:-len("(...)")]]
    if d == "[...]":
        return ["["]
    if d == "#(...)":
        return ["#", "#("]
    if d.startswith("#{"):
        return ["{"]
    if re.fullmatch(r"\((\.\., )*\)", d):
        return ["("]
    return [d]


def squeeze(s):
    return re.sub(r"\s+", "", re.sub(r"/\*.*?\*/", "", s, flags=re.S))


TWO_CONTEXT_DECLS = """
#[derive(Debug)] struct U2 { age: i32, name: String }
macro_rules! age_vs_30 { ($v:expr, $op:tt) => { assert_struct!($v, U2 { age: $op 30, .. }) } }
macro_rules! age_from { ($v:expr, $lo:tt) => { assert_struct!($v, U2 { age: $lo ..= 99, .. }) } }
macro_rules! age_to { ($v:expr, $hi:tt) => { assert_struct!($v, U2 { age: 50 ..= $hi, .. }) } }
macro_rules! age_limit { ($v:expr, $limit:tt) => { assert_struct!($v, U2 { age: > $limit, .. }) } }
"""
# (call, the tokens of the failing sub-pattern as they are written - in the caller's line or in the macro body)
# (a caller-supplied token that carries the span of the generated reporting code - the first token of a range, the operand of a comparison -
# does not compile at all: pattern tokens from another hygiene context cannot see the expansion's own locals, observation O17)
TWO_CONTEXT_CASES = [("age_vs_30!(u,\n    >\n    );", [">", "30"]), ("age_to!(u,\n    60\n    );", ["50", "..=", "60"]), ("age_vs_30!(u,\n    ==\n    );", ["==", "30"])]


KNOWN_TWO_CONTEXT_CASE = 1
KNOWN_TWO_CONTEXT = {
    "id": "C04-range-from-a-helper-body-to-its-caller",
    "what": "a sub-pattern whose FIRST token is written in the body of a caller's macro_rules! helper and whose LAST token is supplied by the helper's caller further "
            "down the file (`macro_rules! age_to { ($v:expr, $hi:tt) => { assert_struct!($v, U2 { age: 50 ..= $hi, .. }) } }` called as `age_to!(u, 60)`): the entry "
            "marks everything from the `50` in the helper to the `60` at the call, i.e. text that is not the sub-pattern's",
}


def two_contexts(res):
    """a sub-pattern whose anchor tokens come from TWO places (a caller's macro_rules! helper supplies one token, the helper's body the
    other): whatever is marked must lie inside ONE of the sub-pattern's own tokens - never the text between the two places"""
    name = "direct:a sub-pattern whose tokens come from two macro contexts is marked inside one of its own tokens (real macro under rustc)"
    res.obligations.append(name)
    body = ["    run_case(\"%d\", || { let u = U2 { age: 20, name: String::new() }; %s });" % (i, call) for i, (call, _) in enumerate(TWO_CONTEXT_CASES)]
    src = e2e.PRELUDE + TWO_CONTEXT_DECLS + "fn main() {\n    std::panic::set_hook(Box::new(|_| {}));\n" + "\n".join(body) + "\n}\n"
    o = e2e.compile_many([src], run=True, tag="c04m")[0]
    e2e.cleanup("c04m")
    if not o["compiled"]:
        raise vlib.CheckError("the two-context program does not compile: " + o["stderr"][-1500:])
    results = e2e.parse_case_lines(o.get("stdout", ""))
    data = src.encode("utf-8")
    bad = 0
    for i, (call, toks) in enumerate(TWO_CONTEXT_CASES):
        r = results.get(str(i))
        if r is None or r["verdict"] != "fail" or not r.get("spans") or len(r["spans"]) != 1:
            raise vlib.CheckError("two-context case %d: unexpected outcome %r" % (i, r))
        bs, be = r["spans"][0]
        marked = data[bs:be].decode("utf-8", "replace")
        forward_across = "\n" in marked and marked.startswith(toks[0]) and marked.rstrip().endswith(toks[-1]) and i == KNOWN_TWO_CONTEXT_CASE
        if forward_across and KNOWN_TWO_CONTEXT["id"] in {f["id"] for f in vlib.load_known_findings()["findings"]}:
            res.known.append(KNOWN_TWO_CONTEXT["what"])
            continue
        if not (marked.strip() and any(marked.strip() == t[:len(marked.strip())] or t in marked and len(marked) <= len(" ".join(toks)) + 2 for t in toks) and "\n" not in marked):
            bad += 1
            if bad <= 2:
                res.violation("failing-input", "`%s` (the helper supplies the rest of the sub-pattern `%s`): the entry marks bytes %d..%d = `%s`, which is not inside one of "
                              "the sub-pattern's own tokens" % (call.replace("\n", " "), " ".join(toks), bs, be, marked[:120]), {"two_context_program": src, "case": i})
    res.streams["anchors-from-two-macro-contexts"] = {"cases": len(TWO_CONTEXT_CASES), "failures": bad}
    if not bad:
        res.discharged.append(name)
    return bad


def run(res):
    res.trusted += ["Coq 8.16.1 kernel (coqc)", "extraction to OCaml (ExtrOcamlBasic only), ocaml/*.ml",
                    "harness/rt (byte_offset_of through the cfg-guarded hook), harness/mac (in-process expansion: proc-macro2's fallback, "
                    "where Span::join succeeds), rustc for the layout programs (where it does not)",
                    "tools/textgen.py: the statement of what (line, character column) the compiler records for a position",
                    "tools/patgen.py: the generator's record of where it wrote every sub-pattern"]
    vlib.build_coq()
    ths, rep = vlib.check_props("C04")
    res.obligations += ths
    res.discharged += ths
    res.coverage["print_assumptions"] = rep
    vlib.build_model_runner()
    ok, out = vlib.build_harness("rt")
    if not ok:
        raise vlib.CheckError("harness rt does not build against /repo: " + out[-1500:])
    # (1) run-time half: (line, character column) -> byte offset, every position of random texts
    rng = random.Random(res.seed * 3 + 4)
    cases = []

    def positions(text):
        # the positions the compiler assigns: over the text without a leading byte-order mark
        seen = textgen.strip_bom(text)
        for i in range(len(seen) + 1):
            l, c = textgen.linecol(seen, i)
            cases.append("offset\t%s\t%d\t%d\t#%d" % (hx(text), l, c, i))
    for k in range(150 if res.tier == "quick" else 3000):
        text = textgen.rand_text(rng)
        if k % 5 == 4:
            text = textgen.BOM + text          # a file saved with a byte-order mark
        positions(text)
    for text in ["é", "a\r\nb", "\t\tx", "日本語日本語日本語, age: 31", "😀😀\n😀x", "\ufeffx=", "\ufeff", "\ufeff\n\ufeffy", "\ufeffé=1\r\n\té", "x\ufeff=", "\ufeff\ufeffz"]:
        positions(text)
    impl = vlib.run_harness("rt", cases)
    model = vlib.run_model(cases)
    name1 = "correspondence:byte_offset_of"
    res.obligations.append(name1)

    def oracle(line, o):
        f = line.split("\t")
        text = unhx(f[1]).decode("utf-8")
        i = int(f[4][1:])
        want = textgen.file_offset(text, i)
        if o == "PANIC":
            return "byte_offset_of panics for character %d of the text (line %s, column %s)" % (i, f[2], f[3])
        if int(o) != want:
            return ("character %d of the text (line %s, column %s) starts at byte %d but byte_offset_of returns %s"
                    % (i, f[2], f[3], want, o))
        return None
    st = vlib.correspond(res, "offset", cases, impl, model,
                         lambda c: {"source": unhx(c.split("\t")[1]).decode("utf-8"), "line": int(c.split("\t")[2]), "col": int(c.split("\t")[3])},
                         lambda c, a: any(ord(ch) > 127 for ch in unhx(c.split("\t")[1]).decode("utf-8")), oracle)
    if st["disagreements"] == 0 and st["oracle_failures"] == 0:
        res.discharged.append(name1)
    # (1b) the composition inside Display: reports with several entries in any order, formatted once
    name1b = "correspondence:span of every entry of a multi-entry report (Display for ErrorReport)"
    res.obligations.append(name1b)
    stb = mspan.run_stream(res, mspan.oracle_c04, "multi-entry-spans")
    if stb["disagreements"] == 0 and stb["oracle_failures"] == 0:
        res.discharged.append(name1b)
    # (2) expansion-time half, in-process: recorded ranges vs the generator's extents, all layouts
    recs = expstage.run_stage(res, res.tier, res.seed)
    name2 = "correspondence:expander(token-exact, incl. line/column of every node)"
    res.obligations.append(name2)
    dis = expstage.correspondence(res, recs)
    failing = 0
    nodes_checked = 0
    for r in recs:
        if r.status != "ok":
            continue
        probs, n = location_problems(r)
        nodes_checked += n
        if probs:
            failing += 1
            if failing <= 3:
                res.violation("failing-input", "a node's recorded range is not its own source text: " + "; ".join(probs[:2]),
                              {"invocation": r.text, "layout": r.layout, "problems": probs[:8]})
    expstage.report_disagreement(res, name2, dis, failing > 0)
    if not dis and not failing:
        res.discharged.append(name2)
    # (3) under the real rustc: failing assertions laid out over several lines
    okm, outm = maclib.build_mac()
    base = [c for c in semstage.gen_cases(res.seed + 4, 400 if res.tier == "quick" else 4000, closures=False)]
    progs, metas = [], []
    styles = ["multiline", "tabs", "crlf", "unicode", "split"]
    per = 40
    chunk = []
    for c in base:
        try:
            st_ = rng.choice(styles)
            if st_ == "split":
                # the tokens of one sub-pattern on different lines, the continuation left of where it began
                import patgen
                pat = patgen.split_spaces(relayout(c["pattern"], random.Random(rng.random()), "multiline"), rng, 0.3)
            else:
                pat = relayout(c["pattern"], rng, st_)
        except ValueError:
            continue
        chunk.append((c, pat, st_))
    chunk = chunk[:160 if res.tier == "quick" else 2000]
    for b in range(0, len(chunk), per):
        body = []
        for i, (c, pat, st_) in enumerate(chunk[b:b + per]):
            body.append("    run_case(\"%d\", || { %s let v: %s = %s; assert_struct!(v,\n    %s\n    ); });"
                        % (b + i, semgen.CALLER_LETS, c["type"], c["value_rust"], pat))
        # every other file is saved with a byte-order mark: the compiler drops it before it numbers anything, the file read back
        # at run time still begins with it
        progs.append((textgen.BOM if (b // per) % 2 == 1 else "") + e2e.PRELUDE + semgen.DECLS
                     + "fn main() {\n    std::panic::set_hook(Box::new(|_| {}));\n" + "\n".join(body) + "\n}\n")
    # ... and one such file whose FIRST line holds the assertions (the one line whose columns the mark shifts)
    first = [(c, c["pattern"], "bom-first-line") for c in base[len(chunk):] if "\n" not in c["pattern"] and "//" not in c["pattern"]][:12]
    attr, rest_prelude = e2e.PRELUDE.lstrip("\n").split("\n", 1)
    body1 = ["run_case(\"%d\", || { %s let v: %s = %s; assert_struct!(v, %s); });"
             % (len(chunk) + i, semgen.CALLER_LETS.replace("\n", " "), c["type"], c["value_rust"].replace("\n", " "), pat) for i, (c, pat, _) in enumerate(first)]
    if first and attr.startswith("#![") and all("\n" not in x for x in body1):
        progs.append(textgen.BOM + attr + " fn main() { std::panic::set_hook(Box::new(|_| {})); " + " ".join(body1) + " }\n"
                     + rest_prelude + semgen.DECLS)
        chunk = chunk + first
    out = e2e.compile_many(progs, run=True, tag="c04")
    # which sub-patterns failed, going by the specification (Spec.frontier on the same triple): an entry must be attached to the
    # sub-pattern that failed — not to its parent, a sibling or a child that happens to have a well-formed range of its own
    semstage.model_for([c for c, _, _ in chunk])
    marks = 0
    lay_fail = 0
    rendered_spans = 0
    import os
    for k, o in enumerate(out):
        if not o["compiled"]:
            raise vlib.CheckError("a layout program does not compile: " + o["stderr"][-2000:])
        src = progs[k]
        results = e2e.parse_case_lines(o.get("stdout", ""))
        for cid, r in results.items():
            spec = chunk[int(cid)][0]["model"]["frontier"]
            if spec is not None and [p["node"] for p in r["pushes"]] != [e[0] for e in spec]:
                lay_fail += 1
                if lay_fail <= 3:
                    res.violation("failing-input", "the entries are attached to %s but the sub-patterns that fail are %s (pattern `%s`)"
                                  % ([p["node"] for p in r["pushes"]], [e[0] for e in spec], chunk[int(cid)][1]),
                                  {"case": cid, "pattern": chunk[int(cid)][1], "value": chunk[int(cid)][0]["value_rust"], "entries": r["pushes"]})
            # the spans Display handed to the renderer (span log), one per entry, must be the bytes of the text marked
            sp = r.get("spans")
            if r["verdict"] == "fail" and sp is not None and sp and len(sp) == len(r["pushes"]):
                for p, (bs, be) in zip(r["pushes"], sp):
                    ls, cs, le, ce = p["loc"]
                    if ls == 0:
                        continue
                    s, e = offset_of(src, ls, cs), offset_of(src, le, ce)
                    ws, we = len(src[:s].encode("utf-8")), len(src[:e].encode("utf-8"))
                    rendered_spans += 1
                    if e > s and (bs, be) != (ws, we):
                        lay_fail += 1
                        if lay_fail <= 3:
                            res.violation("failing-input", "the entry for `%s` (recorded at line %d columns %d..%d = bytes %d..%d: `%s`) is rendered "
                                          "with the annotation on bytes %d..%d: `%s`" % (p["node"], ls, cs, ce, ws, we, src[s:e], bs, be,
                                                                                         src.encode("utf-8")[bs:be].decode("utf-8", "replace")),
                                          {"case": cid, "entries": r["pushes"], "spans": sp, "source_lines": src.split("\n")[ls - 2:le + 1]})
            elif r["verdict"] == "fail" and sp is not None and len(sp) != len(r["pushes"]):
                lay_fail += 1
                res.violation("failing-input", "%d entries but %d annotations rendered" % (len(r["pushes"]), len(sp)), {"case": cid})
            for p in r["pushes"]:
                ls, cs, le, ce = p["loc"]
                if ls == 0:
                    continue
                s, e = offset_of(src, ls, cs), offset_of(src, le, ce)
                marked = src[s:e]
                marks += 1
                cands = own_text(p["node"], marked)
                okk = bool(squeeze(marked)) and any(squeeze(x).startswith(squeeze(marked)) for x in cands) and not marked[0].isspace()
                if not okk:
                    lay_fail += 1
                    if lay_fail <= 3:
                        res.violation("failing-input", "the entry for `%s` marks `%s` (line %d, columns %d..%d), which is not the "
                                      "beginning of that sub-pattern's own text" % (p["node"], marked, ls, cs, ce),
                                      {"case": cid, "source_lines": src.split("\n")[ls - 2:le + 1], "entry": p})
    e2e.cleanup("c04")
    lay_fail += two_contexts(res)
    res.streams["layouts_under_rustc"] = {"assertions": len(chunk), "entries_checked": marks, "rendered_spans_checked": rendered_spans, "failures": lay_fail,
                                          "styles": {s: sum(1 for x in chunk if x[2] == s) for s in styles + ["bom-first-line"]},
                                          "files_with_a_byte_order_mark": sum(1 for p_ in progs if p_.startswith(textgen.BOM))}
    res.streams["in_process_locations"] = {"nodes_checked": nodes_checked, "invocations_with_problems": failing}
    name3 = "oracle:marked text under rustc is the node's own text"
    res.obligations.append(name3)
    if not lay_fail:
        res.discharged.append(name3)
    res.coverage.update({
        "evaluations": len(cases) + len(recs) + len(chunk), "distinct_nontrivial": st["distinct_nontrivial"] + nodes_checked + marks,
        "rule": "(1) every character position of random Unicode texts (1-4 byte characters, tabs, CR LF): real byte_offset_of == model == "
                "UTF-8 length of the prefix; (2) the shared pattern corpus under six layouts (multi-line, tabs, CR LF, non-ASCII comments "
                "before sub-patterns): the range recorded for every node must be non-empty, begin on a token of that sub-pattern, lie "
                "inside its own text and avoid its children (generator's own record of where it wrote things); (3) failing assertions "
                "spread over lines with tabs / CR LF / non-ASCII comments compiled by rustc: the text each entry marks in the real file "
                "must be the beginning of the failing sub-pattern's own text; non-trivial = positions in non-ASCII texts + nodes + entries",
        "samples": st["samples"][:2] + [{"layout": x[2], "pattern": x[1]} for x in chunk[:1]],
    })


def replay(res, path):
    v = json.load(open(path))
    print(json.dumps(v, indent=1, ensure_ascii=False)[:1500])
    return 1
