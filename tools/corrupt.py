"""corrupt.py — single-edit corruptions of valid patterns at the token level (C13, C14, C15).
A tiny Rust lexer splits the pattern text into a token tree; edits keep delimiters balanced
(an unbalanced stream never reaches the macro: rustc rejects it while lexing)."""
import re

TOKEN_RE = re.compile(r'''
    (?P<ws>\s+|/\*.*?\*/)
  | (?P<rawstr>r(?P<h>\#*)".*?"(?P=h))
  | (?P<str>b?"(?:[^"\\]|\\.)*")
  | (?P<char>b?'(?:[^'\\]|\\.)')
  | (?P<num>[0-9][0-9a-zA-Z_]*(?:\.[0-9][0-9a-zA-Z_]*)?)
  | (?P<ident>(?:r\#)?[A-Za-z_][A-Za-z0-9_]*)
  | (?P<open>[\(\[\{])
  | (?P<close>[\)\]\}])
  | (?P<punct>::|\.\.=|\.\.|==|!=|<=|>=|=>|->|&&|\|\||[-+*/%^!&|<>=@.,;:\#$?~])
''', re.X | re.S)

CLOSE = {"(": ")", "[": "]", "{": "}"}
FOREIGN = ["@", ";", "=>", "fn", "..", ",", ":", "=", "~", "!", "<", "*", "#", "_", "|", "&", "?", "'a", "0", "\"s\"", "mut", "await", "move"]


def lex(text):
    """returns a token tree: list of str (leaf) | (open, [children], close)"""
    pos = 0
    stack = [[]]
    opens = []
    while pos < len(text):
        m = TOKEN_RE.match(text, pos)
        if not m:
            raise ValueError("cannot lex at %d: %r" % (pos, text[pos:pos + 20]))
        pos = m.end()
        k = m.lastgroup
        if k == "ws" or (k == "h"):
            continue
        tok = m.group(0)
        if m.group("rawstr"):
            tok = m.group("rawstr")
        if k == "open" or m.group("open"):
            opens.append(tok)
            stack.append([])
        elif m.group("close"):
            if not opens or CLOSE[opens[-1]] != tok:
                raise ValueError("unbalanced")
            o = opens.pop()
            kids = stack.pop()
            stack[-1].append((o, kids, tok))
        else:
            stack[-1].append(tok)
    if opens:
        raise ValueError("unbalanced")
    return stack[0]


def render(tree):
    out = []

    def go(t):
        for x in t:
            if isinstance(x, tuple):
                out.append(x[0])
                go(x[1])
                out.append(x[2])
            else:
                out.append(x)
    go(tree)
    s = ""
    for t in out:
        if s and (s[-1].isalnum() or s[-1] in "_\"'") and (t[0].isalnum() or t[0] in "_\"'"):
            s += " "
        elif s and s[-1] in "-+*/%^!&|<>=@.,;:#?~" and t[0] in "-+*/%^!&|<>=@.,;:#?~":
            s += " "           # never glue two puncts into a different operator by accident
        elif s and t in (",",):
            pass
        elif s and s[-1] not in "([{" and t not in ")]}" and s[-1] != "#":
            s += " "
        s += t
    return s


def positions(tree, path=()):
    """every (path, index) of a token or group in the tree"""
    out = []
    for i, x in enumerate(tree):
        out.append((path, i))
        if isinstance(x, tuple):
            out += positions(x[1], path + (i,))
    return out


def _at(tree, path):
    t = tree
    for i in path:
        t = t[i][1]
    return t


def _copy(tree):
    return [(x[0], _copy(x[1]), x[2]) if isinstance(x, tuple) else x for x in tree]


def corruptions(text, rng, count):
    """up to `count` distinct single-edit corruptions of a pattern: (kind, new_text)"""
    try:
        tree = lex(text)
    except ValueError:
        return []
    pos = positions(tree)
    out = []
    seen = {text}
    tries = 0
    while len(out) < count and tries < count * 6 and pos:
        tries += 1
        t = _copy(tree)
        path, i = rng.choice(pos)
        lst = _at(t, path)
        kind = rng.choice(["delete", "duplicate", "swap", "insert", "truncate", "replace", "unwrap"])
        if kind == "delete":
            del lst[i]
        elif kind == "duplicate":
            lst.insert(i, lst[i])
        elif kind == "swap":
            if i + 1 >= len(lst):
                continue
            lst[i], lst[i + 1] = lst[i + 1], lst[i]
        elif kind == "insert":
            lst.insert(i, rng.choice(FOREIGN))
        elif kind == "truncate":
            del lst[i:]
        elif kind == "replace":
            lst[i] = rng.choice(FOREIGN)
        elif kind == "unwrap":
            if not isinstance(lst[i], tuple):
                continue
            lst[i:i + 1] = lst[i][1]
        new = render(t)
        if new not in seen:
            seen.add(new)
            out.append((kind, new))
    return out
