"""C01 — a passing assertion implies the value really matches the pattern."""
import likestream
import userlike
import usercmp
import semprops
import vlib


def run(res):
    cases, bad, sem_dis, na, nc = semprops.common(res, "C01")
    failing = 0
    passes = 0
    for c in cases:
        if c["real"]["verdict"] == "pass":
            passes += 1
            if c["model"]["frontier"] != []:
                failing += 1
                if failing <= 3:
                    res.violation("failing-input", "the assertion passed but the value does not satisfy the pattern "
                                  "(specification frontier: %s)" % (c["model"]["frontier"],), {"case": semprops.describe(c), "value_model": c["value_model"]})
    # known finding: replay the witness on the implementation
    kf = [f for f in vlib.load_known_findings()["findings"] if f.get("id") == semprops.WITNESS_C01["id"]]
    v = semprops.run_witness(semprops.WITNESS_C01)
    res.streams["known_finding_witness"] = {"id": semprops.WITNESS_C01["id"], "real_verdict": v}
    if v == "pass":
        if kf:
            res.known.append(semprops.WITNESS_C01["what"])
        else:
            res.violation("failing-input", semprops.WITNESS_C01["what"], {"program_body": semprops.WITNESS_C01["body"]})
    likestream.run(res, "sound")
    failing += userlike.run(res, "sound")
    failing += usercmp.run(res)
    semprops.finish(res, "C01", cases, bad, sem_dis, na, nc, failing, passes,
                    "well-typed (type, value, pattern) triples over 16 root types (structs, enums, Option/Result, Box, Vec, tuples, maps) "
                    "with every pattern form, field operations, nesting to depth 6; leaves are written on or just across the boundary of "
                    "the actual value (`<=` at equality, inclusive range ends, slices one element short ...); each is compiled with the "
                    "real macro by rustc and run, and compared with the extracted specification and model execution; "
                    "non-trivial = triples on which the real assertion passed (the ones C01 speaks about)",
                    [semprops.describe(c) for c in cases[:2]])


def replay(res, path):
    import json
    if json.load(open(path)).get("usercmp_program"):
        return usercmp.replay(json.load(open(path)))
    if json.load(open(path)).get("user_like_program"):
        n = userlike.run(res, "sound")
        print("user-Like programs re-run:", "violation" if n else "property holds on these inputs")
        return 1 if n else 0
    return semprops.replay_case(path)
