"""usercmp.py — comparison patterns over values whose OWN PartialEq / PartialOrd is not the obvious one: a case-insensitive name
(equal to literals that are spelled differently; also AsRef<str>, so "the bytes of its text" is a different relation), an ordering
that is reversed, an equality whose `ne` is not the negation of `eq`, a partial order with incomparable values, floats (NaN, -0.0).
`== x`, `!= x`, `< x` ... mean what Rust's `==`, `!=`, `<` ... mean for the value's type (the documented meaning: "comparison
operators by ordering", equality by the type's PartialEq): the oracle is the same comparison written in plain Rust in the same
program, so no model is involved.  Used by C02 (a true comparison never fails) and C01 (a false one never passes)."""
import e2e

DECLS = r"""
use std::cmp::Ordering;
/// case-insensitive name (in the style of http::HeaderName, unicase::UniCase): equality is coarser than the bytes of its text
#[derive(Debug, Clone)] struct Ci(String);
impl AsRef<str> for Ci { fn as_ref(&self) -> &str { &self.0 } }
impl PartialEq for Ci { fn eq(&self, o: &Ci) -> bool { self.0.eq_ignore_ascii_case(&o.0) } }
impl PartialEq<str> for Ci { fn eq(&self, o: &str) -> bool { self.0.eq_ignore_ascii_case(o) } }
impl PartialEq<&str> for Ci { fn eq(&self, o: &&str) -> bool { self.0.eq_ignore_ascii_case(o) } }
impl PartialEq<String> for Ci { fn eq(&self, o: &String) -> bool { self.0.eq_ignore_ascii_case(o) } }
/// an integer ordered the other way round
#[derive(Debug, Clone, Copy, PartialEq)] struct Rev(i32);
impl PartialOrd for Rev { fn partial_cmp(&self, o: &Rev) -> Option<Ordering> { o.0.partial_cmp(&self.0) } }
impl PartialEq<i32> for Rev { fn eq(&self, o: &i32) -> bool { self.0 == *o } }
impl PartialOrd<i32> for Rev { fn partial_cmp(&self, o: &i32) -> Option<Ordering> { o.partial_cmp(&self.0) } }
/// `ne` is not the negation of `eq` (both false for the odd ones)
#[derive(Debug, Clone, Copy)] struct Odd(i32);
impl PartialEq for Odd { fn eq(&self, o: &Odd) -> bool { self.0 == o.0 && self.0 % 2 == 0 } fn ne(&self, o: &Odd) -> bool { self.0 != o.0 && self.0 % 2 == 0 } }
/// a partial order: values of different parity are incomparable
#[derive(Debug, Clone, Copy, PartialEq)] struct Par(i32);
impl PartialOrd for Par { fn partial_cmp(&self, o: &Par) -> Option<Ordering> { if (self.0 - o.0) % 2 == 0 { self.0.partial_cmp(&o.0) } else { None } } }
#[derive(Debug, Clone)] struct Hd { name: Ci, boxed: Box<Ci>, opt: Option<Ci>, names: Vec<Ci>, r: Rev, odd: Odd, par: Par, x: f64, nan: f64, nz: f64 }
fn hd() -> Hd { Hd { name: Ci("content-type".into()), boxed: Box::new(Ci("Accept".into())), opt: Some(Ci("HOST".into())), names: vec![Ci("a".into()), Ci("B".into())],
  r: Rev(5), odd: Odd(3), par: Par(4), x: 1.5, nan: f64::NAN, nz: -0.0 } }
fn want(id: &str, b: bool) { println!("want {} {}", id, b); }
"""

# (pattern for `h: Hd`, the same comparison in plain Rust over `h`)
CASES = [
    ("Hd { name: == \"Content-Type\", .. }", "h.name == \"Content-Type\""), ("Hd { name: == \"content-type\", .. }", "h.name == \"content-type\""),
    ("Hd { name: == \"content-typ\", .. }", "h.name == \"content-typ\""), ("Hd { name: != \"CONTENT-TYPE\", .. }", "h.name != \"CONTENT-TYPE\""),
    ("Hd { name: != \"x\", .. }", "h.name != \"x\""), ("Hd { name: == Ci(\"CONTENT-type\".into()), .. }", "h.name == Ci(\"CONTENT-type\".into())"),
    ("Hd { name: == \"Content-Type\".to_string(), .. }", "h.name == \"Content-Type\".to_string()"),
    ("Hd { *boxed: == \"ACCEPT\", .. }", "*h.boxed == \"ACCEPT\""), ("Hd { *boxed: != \"accept\", .. }", "*h.boxed != \"accept\""),
    ("Hd { opt: Some(== \"host\"), .. }", "h.opt.as_ref().map_or(false, |c| *c == \"host\")"),
    ("Hd { opt: Some(!= \"Host\"), .. }", "h.opt.as_ref().map_or(false, |c| *c != \"Host\")"),
    ("Hd { names: [== \"A\", == \"b\"], .. }", "h.names[0] == \"A\" && h.names[1] == \"b\""), ("Hd { names: #(== \"b\", == \"A\"), .. }", "true"),
    ("_ { name: == \"CONTENT-TYPE\", .. }", "h.name == \"CONTENT-TYPE\""), ("Hd { name.clone(): == \"Content-type\", .. }", "h.name.clone() == \"Content-type\""),
    ("Hd { r: < 3, .. }", "h.r < 3"), ("Hd { r: > 3, .. }", "h.r > 3"), ("Hd { r: <= 5, .. }", "h.r <= 5"), ("Hd { r: >= 9, .. }", "h.r >= 9"),
    ("Hd { r: < Rev(9), .. }", "h.r < Rev(9)"), ("Hd { r: > Rev(9), .. }", "h.r > Rev(9)"), ("Hd { r: == 5, .. }", "h.r == 5"),
    ("Hd { odd: == Odd(3), .. }", "h.odd == Odd(3)"), ("Hd { odd: != Odd(3), .. }", "h.odd != Odd(3)"), ("Hd { odd: != Odd(4), .. }", "h.odd != Odd(4)"),
    ("Hd { odd: == Odd(4), .. }", "h.odd == Odd(4)"),
    ("Hd { par: < Par(6), .. }", "h.par < Par(6)"), ("Hd { par: < Par(7), .. }", "h.par < Par(7)"), ("Hd { par: >= Par(7), .. }", "h.par >= Par(7)"),
    ("Hd { par: > Par(2), .. }", "h.par > Par(2)"), ("Hd { par: <= Par(3), .. }", "h.par <= Par(3)"),
    ("Hd { nan: == f64::NAN, .. }", "h.nan == f64::NAN"), ("Hd { nan: != f64::NAN, .. }", "h.nan != f64::NAN"), ("Hd { nan: < 1.0, .. }", "h.nan < 1.0"),
    ("Hd { nan: >= 1.0, .. }", "h.nan >= 1.0"), ("Hd { nan: 0.0..=1.0, .. }", "(0.0..=1.0).contains(&h.nan)"), ("Hd { nan: ..1.0, .. }", "(..1.0).contains(&h.nan)"),
    ("Hd { nan: 0.0.., .. }", "(0.0..).contains(&h.nan)"), ("Hd { nz: == 0.0, .. }", "h.nz == 0.0"), ("Hd { nz: 0.0..1.0, .. }", "(0.0..1.0).contains(&h.nz)"),
    ("Hd { nz: < 0.0, .. }", "h.nz < 0.0"), ("Hd { nz: >= 0.0, .. }", "h.nz >= 0.0"), ("Hd { x: 1.5..=1.5, .. }", "(1.5..=1.5).contains(&h.x)"),
    ("Hd { x: != 1.5, .. }", "h.x != 1.5"),
]
ROOT_CASES = [
    ("h.name.clone()", "== \"CONTENT-TYPE\"", "h.name.clone() == \"CONTENT-TYPE\""), ("h.name", "!= \"Content-Type\"", "h.name != \"Content-Type\""),
    ("h.r", "< 3", "h.r < 3"), ("h.par", "< Par(7)", "h.par < Par(7)"), ("h.nan", "0.0..=1.0", "(0.0..=1.0).contains(&h.nan)"), ("h.nan", "!= f64::NAN", "h.nan != f64::NAN"),
    ("h.odd", "!= Odd(3)", "h.odd != Odd(3)"), ("&h.name", "== \"CONTENT-type\"", "h.name == \"CONTENT-type\""),
]


def run(res):
    name = "direct:comparison patterns give the verdict of the value type's own PartialEq / PartialOrd (user impls, floats; real macro under rustc)"
    res.obligations.append(name)
    cases = [("h", p, w) for p, w in CASES] + ROOT_CASES
    body = []
    for i, (v, p, w) in enumerate(cases):
        body.append("    { let h = hd(); want(\"%d\", %s); }" % (i, w))
        body.append("    run_case(\"%d\", || { let h = hd(); assert_struct!(%s, %s); });" % (i, v, p))
    src = e2e.PRELUDE + DECLS + "fn main() {\n    std::panic::set_hook(Box::new(|_| {}));\n" + "\n".join(body) + "\n}\n"
    o = e2e.compile_many([src], run=True, tag="ucmp")[0]
    e2e.cleanup("ucmp")
    bad = 0
    if not o["compiled"]:
        # find the offending cases one by one
        singles = [e2e.PRELUDE + DECLS + "fn main() { let h = hd(); assert_struct!(%s, %s); }\n" % (v, p) for v, p, w in cases]
        outs = e2e.compile_many(singles, run=False, tag="ucmp1")
        e2e.cleanup("ucmp1")
        for (v, p, w), so, ssrc in zip(cases, outs, singles):
            if not so["compiled"]:
                bad += 1
                if bad <= 3:
                    first = next((l for l in so["stderr"].splitlines() if l.startswith("error")), "?")
                    res.violation("failing-input", "`assert_struct!(%s, %s)` is rejected by rustc although `%s` is an ordinary comparison of that type: %s"
                                  % (v, p, w, first[:200]), {"usercmp_program": ssrc, "intended": "compiles"})
        if not bad:
            raise vlib_error("the user-comparison program does not compile: " + o["stderr"][-1500:])
        res.streams["user-comparisons"] = {"cases": len(cases), "failing": bad}
        return bad
    wants, got = {}, e2e.parse_case_lines(o.get("stdout", ""))
    for l in o.get("stdout", "").splitlines():
        if l.startswith("want "):
            _, i, b = l.split()
            wants[i] = b == "true"
    n_true = 0
    for i, (v, p, w) in enumerate(cases):
        r = got.get(str(i))
        verdict = r["verdict"] if r else "missing"
        exp = "pass" if wants.get(str(i)) else "fail"
        n_true += exp == "pass"
        if verdict != exp:
            bad += 1
            if bad <= 3:
                res.violation("failing-input", "`%s` is %s in plain Rust, but `assert_struct!(%s, %s)` %s" % (w, wants.get(str(i)), v, p, {"pass": "passes", "fail": "fails", "missing": "did not run"}[verdict]),
                              {"usercmp_program": e2e.PRELUDE + DECLS + "fn main() { let h = hd(); println!(\"plain Rust: {}\", %s); assert_struct!(%s, %s); }\n" % (w, v, p),
                               "intended": exp})
    res.streams["user-comparisons"] = {"cases": len(cases), "true_in_plain_rust": n_true, "failing": bad}
    if not bad:
        res.discharged.append(name)
    return bad


def vlib_error(msg):
    import vlib
    return vlib.CheckError(msg)


def replay(v):
    o = e2e.compile_many([v["usercmp_program"]], run=True, tag="ucmpr")[0]
    e2e.cleanup("ucmpr")
    if not o["compiled"]:
        print("rejected by rustc:", o["stderr"][-500:])
        return 0 if v.get("intended") == "rejected" else 1
    verdict = "pass" if o.get("exit") == 0 else "fail"
    print(o.get("stdout", "").strip(), "| assertion:", verdict, "| intended:", v.get("intended"))
    return 0 if v.get("intended") in (verdict, "compiles") else 1
