"""posuniform.py — the parser half of C11 asked of the REAL parser: a token sequence accepted as the root pattern must be
accepted, as the same tree up to node ids and source positions, wherever a pattern may be written — as a struct field value
(named, wildcard, after a field path), as a tuple / variant / Some element (positional and indexed), as a slice or set element, as
a map value, alone and beside siblings.  This is the statement of Props/C11p.v (Proofs/UniformP.v: the pattern parser does not
depend on fuel, node counter or scope; UniformCtxP.v: the contexts), evaluated in-process on harness/mac; it is the search for a
failing input that goes with those theorems."""
import random
import re

import maclib
import parsestage
import patgen
import vlib

# extra root patterns: forms whose tokens could confuse a context that looks ahead instead of calling Pattern::parse
EXTRA = [
    "|v: &i32| *v > 40", "|x: &(i32, i32)| x.0 > 1", "move |cl_a: &String| cl_a.len() > 1", "|cl_x: &Vec<u8>| -> bool { cl_x.is_empty() }",
    "|cl_x| { let y: i32 = *cl_x; y > 1 }", "'a: { break 'a 1 }", "if a { 1 } else { 2 }", "match x { _ => 1 }", "f::<A, B>(1)",
    "m::K::<{ 1 }>::C", "Vec::<u8>::new()", "<T as Tr>::C", "== <T as Tr>::C", "> a::b(1, 2)", "!= x.y.z", "== x[1..2]", "1..=m::MAX", "..", "..=5", "5..",
    "..5", "'a'..='z'", "-1", "- 1", "!true", "&1", "*p", "\"s\"", "r#\"a\"b\"#", "b'x'", "1_000u64", "0x1f", "1e3", "1.", "x", "f()", "a::b", "a::b()",
    "a::b(1)", "_", "_ { a: 1, .. }", "S {}", "S { .. }", "S { a: 1 }", "S { a.b.c(1, 2)[0].await: > 1, .. }", "()", "(1,)", "(1, 2)", "(0: 1, 1: 2)",
    "[]", "[..]", "[1, .., 2]", "#()", "#(..)", "#(1, ..)", "#(..5)", "#{}", "#{..}", "#{ \"k\": 1, .. }", "#{ 1: 2 }", "=~ r\"a\"", "=~ x", "=~ f(1)",
    "Some(|cl_v: &i32| *cl_v > 1)", "(|cl_v: &i32| *cl_v > 1, 2)", "[|cl_v: &i32| *cl_v > 1]", "S { a: |cl_v: &i32| *cl_v > 1 }",
    "Some(x: T)", "{ 1 }", "unsafe { 1 }", "loop { break 1 }", "x as u8", "x?", "x.await", "a = 1", "a += 1", "return", "|cl_a| cl_a: 1", "1: 2",
]

# (name, template with %s for the element, how the element is found in the wrapper's tree, rule)
CONTEXTS = [
    ("slice-only", "[%s]"), ("slice-first", "[%s, _]"), ("slice-last", "[_, %s]"), ("slice-trailing-comma", "[%s,]"),
    ("set-only", "#(%s)"), ("set-first", "#(%s, _)"), ("set-last", "#(_, %s)"), ("set-before-rest", "#(%s, ..)"),
    ("tuple-first", "(%s, _)"), ("tuple-last", "(_, %s)"), ("tuple-only", "(%s,)"), ("tuple-indexed", "(0: %s, 1: _)"), ("tuple-indexed-last", "(_, 1: %s)"),
    ("tuple-indexed-path", "(0.len(): %s, _)"),
    ("some", "Some(%s)"), ("variant-first", "m::V(%s, _)"), ("variant-last", "m::V(_, %s)"), ("ok-err", "Ok(Err(%s))"),
    ("field-only", "S { f: %s }"), ("field-first", "S { f: %s, g: _ }"), ("field-last", "S { g: _, f: %s }"), ("field-before-rest", "S { f: %s, .. }"),
    ("wild-field", "_ { f: %s, .. }"), ("field-path", "S { f.g.0: %s, .. }"), ("field-deref", "S { *f: %s, .. }"), ("field-method", "S { f.len(): %s, .. }"),
    ("field-index", "S { f[0]: %s, .. }"), ("field-await", "S { f.await: %s, .. }"), ("field-tuple-index", "S { 0: %s, .. }"),
    ("map-only", "#{ \"k\": %s }"), ("map-first", "#{ \"k\": %s, \"l\": _ }"), ("map-last", "#{ 1: _, k(): %s }"), ("map-before-rest", "#{ \"k\": %s, .. }"),
    ("nested", "Some([(%s, _)])"), ("nested-2", "S { f: #{ \"k\": #(%s, ..) }, .. }"),
]

NODE_KINDS = "struct|enum|tuple|slice|set|map|simple|string|cmp|range|regex|like|wild|closure"


def norm(tree):
    """a serialised tree (harness/mac ser.rs) up to node ids and source positions"""
    t = re.sub(r"\b\d+\.\d+\.\d+\.\d+\b", "@", tree)          # spans: line.col.line.col
    t = re.sub(r"@\d+\.\d+\.\d+\.\d+", "", t)                  # token positions inside (e ...) token lists
    t = re.sub(r"@@", "", t)
    t = re.sub(r"\((%s) \d+" % NODE_KINDS, r"(\1 #", t)       # node ids
    return t


def root_patterns(rng, tier):
    pats = list(EXTRA)
    for text, node, lay in patgen.corpus(random.Random(rng.random()), "quick")[::(4 if tier == "quick" else 1)]:
        t2, off = patgen.render(node, rng, "compact", value="v")
        pats.append(t2[off:].strip())
    for t in parsestage.SPECIAL_VALID:
        if t.startswith("v, "):
            pats.append(t[3:])
    seen, out = set(), []
    for p in pats:
        if p not in seen:
            seen.add(p)
            out.append(p)
    return out


def is_lone_rest(p):
    return p.replace(" ", "") in ("..", "..,")


def run(res, tier, seed):
    """Returns (n_roots_accepted, n_wrapped, failures) where failures is a list of dicts."""
    ok, out = maclib.build_mac()
    if not ok:
        raise vlib.CheckError("harness mac does not build against /repo/assert-struct-macros/src (treated as a broken correspondence): " + out[-1500:])
    rng = random.Random(seed * 104729 + 3)
    pats = root_patterns(rng, tier)
    roots = maclib.run_mac(["v, " + p for p in pats], mode="parse")
    accepted = []
    for p, l in zip(pats, roots):
        f = l.split("\t")
        if f[0] == "ok":
            accepted.append((p, norm(f[2])))
    jobs = []
    for p, nt in accepted:
        ctxs = CONTEXTS if tier != "quick" or len(p) < 40 else rng.sample(CONTEXTS, 12)
        for name, tmpl in ctxs:
            if name.startswith("set") or name == "nested-2":
                if is_lone_rest(p):
                    continue          # `#(..)`: the rest marker, stated exception of the theorem (peek_rest)
            jobs.append((p, nt, name, "v, " + tmpl % p))
    outs = maclib.run_mac([j[3] for j in jobs], mode="parse")
    failures = []
    by_ctx = {}
    for (p, nt, name, text), l in zip(jobs, outs):
        f = l.split("\t")
        d = by_ctx.setdefault(name, {"cases": 0, "failures": 0})
        d["cases"] += 1
        why = None
        if f[0] == "err":
            msg = vlib.unhx(f[1].split(" ")[0]).decode("utf-8", "replace")
            why = "accepted as the root pattern but rejected here (%s)" % msg
        elif f[0] == "panic":
            why = "accepted as the root pattern but the macro panics here"
        elif f[0] == "ok" and nt not in norm(f[2]):
            why = "accepted here as a different tree than at the root"
        if why:
            d["failures"] += 1
            failures.append({"pattern": p, "context": name, "invocation": text, "why": why})
    return len(accepted), len(pats), len(jobs), by_ctx, failures


def replay(v):
    ok, out = maclib.build_mac()
    if not ok:
        print("harness mac does not build")
        return 1
    root, wrapped = maclib.run_mac(["v, " + v["pattern"], v["invocation"]], mode="parse")
    fr, fw = root.split("\t"), wrapped.split("\t")
    bad = fr[0] == "ok" and (fw[0] != "ok" or norm(fr[2]) not in norm(fw[2]))
    print("root:", fr[0], "| in context %s:" % v["context"], fw[0], "->", "violation" if bad else "property holds on this input")
    return 1 if bad else 0
