"""C03 — every independent mismatch is reported, and nothing else."""
import semprops
import semstage


# independent mismatches that LOOK alike: the same sub-pattern tokens stamped out by a macro_rules! repetition (same span), failing with
# the same actual value.  Every one of them is an entry of its own in the rendered report.  (helper, value, failing call, the text of
# one annotation, how many of them the report must carry)
EQUAL_LOOKING = [
    ("($v:expr, $($f:ident),+) => { assert_struct!($v, _ { $($f: > 5,)+ .. }) }", "R3 { a: 0, b: 0, c: 9 }, a, b, c", "got 0", 2),
    ("($v:expr, $($f:ident),+) => { assert_struct!($v, R3 { $($f: == 7,)+ }) }", "R3 { a: 1, b: 1, c: 1 }, a, b, c", "got 1", 3),
    ("($v:expr, $($f:ident),+) => { assert_struct!($v, _ { $($f: 1..=3,)+ .. }) }", "R3 { a: 9, b: 2, c: 9 }, a, b, c", "got 9", 2),
    ("($v:expr, $($e:expr),+) => { assert_struct!($v, [ $(== $e),+ ]) }", "vec![0, 0, 3], 1, 1, 3", "got 0", 2),
    ("($v:expr, $($i:tt),+) => { assert_struct!($v, ( $($i: > 5,)+ )) }", "(0, 0, 9), 0, 1, 2", "got 0", 2),
    ("($v:expr, $($f:ident),+) => { assert_struct!($v, Some(_ { $($f: \"x\",)+ .. })) }", "Some(RS { s: \"y\".into(), t: \"y\".into() }), s, t", "got \"y\"", 2),
]
EQUAL_DECLS = """
#[derive(Debug, Clone, PartialEq)] struct R3 { a: i32, b: i32, c: i32 }
#[derive(Debug, Clone, PartialEq)] struct RS { s: String, t: String }
"""


def equal_looking(res):
    import e2e
    name = "direct:mismatches that look alike (same tokens from a macro repetition, same value) are each reported (rendered report)"
    res.obligations.append(name)
    progs = [e2e.PRELUDE + EQUAL_DECLS + "macro_rules! stamped { %s; }\nfn main() { std::panic::set_hook(Box::new(|_| {})); "
             "let _plain = assert_struct::__macro_support::PlainOutputGuard::new(); run_case(\"t\", || { stamped!(%s); }); }\n" % (h, call)
             for h, call, _, _ in EQUAL_LOOKING]
    out = e2e.compile_many(progs, run=True, tag="c03e")
    e2e.cleanup("c03e")
    bad = 0
    for (h, call, text, want), o, src in zip(EQUAL_LOOKING, out, progs):
        if not o["compiled"]:
            raise __import__("vlib").CheckError("an equal-looking program of C03 does not compile: " + o["stderr"][-1200:])
        c = e2e.parse_case_lines(o.get("stdout", "")).get("t")
        msg = (c or {}).get("msg") or ""
        n = msg.count(text)
        if c is None or c["verdict"] != "fail" or n != want:
            bad += 1
            if bad <= 2:
                res.violation("failing-input", "`stamped!(%s)` with `%s`: %d independent mismatches with the same look (`%s`), the rendered report carries %d of them"
                              % (call, h, want, text, n), {"equal_looking_program": src, "message": msg[:1500]})
    res.streams["equal-looking-mismatches"] = {"programs": len(progs), "wrong": bad}
    if not bad:
        res.discharged.append(name)
    return bad


def run(res):
    cases, bad, sem_dis, na, nc = semprops.common(res, "C03")
    failing = 0
    multi = 0
    for c in cases:
        spec = c["model"]["frontier"]
        real = semstage.real_entries(c)
        if spec is None:
            continue
        if len(real) >= 2:
            multi += 1
        if [e[0] for e in real] != [e[0] for e in spec]:
            failing += 1
            if failing <= 3:
                import collections
                cs, cr = collections.Counter(e[0] for e in spec), collections.Counter(r[0] for r in real)
                missing = sorted((cs - cr).elements())      # multiset differences: the same node may have to be reported more than once
                extra = sorted((cr - cs).elements())
                if not missing and not extra:
                    missing = "[none: same entries in another order]"
                res.violation("failing-input", "the report's entries differ from the failure frontier: not reported %s, reported without "
                              "being on the frontier %s" % (missing, extra), {"case": semprops.describe(c), "value_model": c["value_model"]})
        # the rendered message carries one annotation per entry
        msg = c["real"].get("msg")
        if msg is not None and real:
            for node, actual, _ in real:
                if actual not in msg:
                    failing += 1
                    if failing <= 3:
                        res.violation("failing-input", "the rendered message lacks the entry for %s" % node,
                                      {"case": semprops.describe(c), "message": msg[:1500]})
                    break
    failing += equal_looking(res)
    semprops.finish(res, "C03", cases, bad, sem_dis, na, nc, failing, multi,
                    "the shared semantic corpus (see C01): mismatches are planted at several places at once (leaf beside variant mismatch, "
                    "inside map values, after field operations, failing sets beside failing comparisons); the entries pushed by the real "
                    "run (through the cfg-guarded log) must equal the specification's frontier in order, and each must appear in the "
                    "rendered message; non-trivial = real runs with two or more entries",
                    [semprops.describe(c) for c in cases if len(c["real"]["pushes"]) >= 3][:2] or [semprops.describe(cases[0])])


def replay(res, path):
    import json
    if json.load(open(path)).get("equal_looking_program"):
        n = equal_looking(res)
        print("equal-looking programs re-run:", "violation" if n else "property holds on these inputs")
        return 1 if n else 0
    return semprops.replay_case(path)
