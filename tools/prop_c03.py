"""C03 — every independent mismatch is reported, and nothing else."""
import semprops
import semstage


def run(res):
    cases, bad, sem_dis, na, nc = semprops.common(res, "C03")
    failing = 0
    multi = 0
    for c in cases:
        spec = c["model"]["frontier"]
        real = semstage.real_entries(c)
        if spec is None:
            continue
        if len(real) >= 2:
            multi += 1
        if [e[0] for e in real] != [e[0] for e in spec]:
            failing += 1
            if failing <= 3:
                import collections
                cs, cr = collections.Counter(e[0] for e in spec), collections.Counter(r[0] for r in real)
                missing = sorted((cs - cr).elements())      # multiset differences: the same node may have to be reported more than once
                extra = sorted((cr - cs).elements())
                if not missing and not extra:
                    missing = "[none: same entries in another order]"
                res.violation("failing-input", "the report's entries differ from the failure frontier: not reported %s, reported without "
                              "being on the frontier %s" % (missing, extra), {"case": semprops.describe(c), "value_model": c["value_model"]})
        # the rendered message carries one annotation per entry
        msg = c["real"].get("msg")
        if msg is not None and real:
            for node, actual, _ in real:
                if actual not in msg:
                    failing += 1
                    if failing <= 3:
                        res.violation("failing-input", "the rendered message lacks the entry for %s" % node,
                                      {"case": semprops.describe(c), "message": msg[:1500]})
                    break
    semprops.finish(res, "C03", cases, bad, sem_dis, na, nc, failing, multi,
                    "the shared semantic corpus (see C01): mismatches are planted at several places at once (leaf beside variant mismatch, "
                    "inside map values, after field operations, failing sets beside failing comparisons); the entries pushed by the real "
                    "run (through the cfg-guarded log) must equal the specification's frontier in order, and each must appear in the "
                    "rendered message; non-trivial = real runs with two or more entries",
                    [semprops.describe(c) for c in cases if len(c["real"]["pushes"]) >= 3][:2] or [semprops.describe(cases[0])])


def replay(res, path):
    return semprops.replay_case(path)
