"""Case lines for the `label` / `display` / `fallback` commands of harness/rt (C05, C19)."""
from vlib import hx

TEXTS = ["5", "\"a b\"", "Some(\"x\")", "S { a: 1 }", "[1, 2]", "1.5", "'q'", "日本", "{\"k\": [1]}", ""]


# texts in which spacing is part of what was written (inside a literal token): runs of blanks, a tab, a line break, leading and
# trailing blanks.  A label must show them as they are: `== "a  b"` does not expect "a b"
SPACED = ["\"a  b\"", "\"a\tb\"", "\"first\nsecond\"", "\"  lead\"", "\"trail  \"", "r\"x   y\"", "\"a \n  b\"", "'\t'", "f(\"a  b\", 1)"]


# texts that look like the directives of a formatting or templating layer (a Debug form can contain any of them: a one-element
# set of 1 prints as `{1}`, a string can hold anything).  A label is the wording around the stored texts and nothing else: the
# stored texts are never themselves interpreted
FORMATLIKE = ["{0}", "{1}", "{2}", "{}", "{:?}", "{1} of {2}", "Some({1})", "[{1}, {2}]", "\"{0} {1} {2}\"", "{actual}", "{expected}", "{{", "}}",
              "{{1}}", "%s", "%1$s", "$1", "\\1", "{0", "1}", "expected {1}, got {0}", "got", "expected", ", got "]


def kind_specs(rng):
    out = []
    for n in range(0, 5):
        for rest in (0, 1):
            out += ["slice:%d:%d" % (n, rest), "set:%d:%d" % (n, rest), "map:%d:%d" % (n, rest),
                    "struct:%s:%d:%d" % (hx(rng.choice(["S", "m::S", "_"])), n, rest)]
        out.append("tuple:%d" % n)
        out.append("enum:%s:%s" % (hx(rng.choice(["Some", "E::V", "a::b::C"])), "none" if n == 0 else str(n)))
    for op in ("lt", "le", "gt", "ge", "eq", "ne"):
        out.append("cmp:%s:%s" % (op, hx(rng.choice(["30", "foo . bar", "\"s\""]))))
    out += ["simple:" + hx("5"), "range:" + hx("1 ..= 5"), "regex:" + hx("r\"^a\""), "like:" + hx("pat"),
            "wildcard", "closure:" + hx("| x | x > 5")]
    return out


def label_cases(rng, count):
    specs = kind_specs(rng)
    cases = []
    for s in specs:
        for _ in range(count):
            actual = rng.choice(TEXTS)
            exp = rng.choice(["none", hx(rng.choice(TEXTS)), hx("2 entries"), hx("at least 2 element(s)")])
            cases.append("label\t%s\t%s\t%s" % (s, hx(actual), exp))
        cases.append("display\t%s" % s)
    # every label kind with every spacing-sensitive text on the expected side and on the actual side
    for s in specs:
        for t in SPACED:
            cases.append("label\t%s\t%s\t%s" % (s, hx(rng.choice(TEXTS)), hx(t)))
            cases.append("label\t%s\t%s\t%s" % (s, hx(t), rng.choice(["none", hx(rng.choice(TEXTS))])))
    # every label kind with every directive-like text on either side, and on both
    for s in specs:
        for t in FORMATLIKE:
            cases.append("label\t%s\t%s\t%s" % (s, hx(rng.choice(TEXTS)), hx(t)))
            cases.append("label\t%s\t%s\t%s" % (s, hx(t), rng.choice(["none", hx(rng.choice(TEXTS))])))
            cases.append("label\t%s\t%s\t%s" % (s, hx(t), hx(rng.choice(FORMATLIKE))))
    return cases


def long_shared_pairs(rng, count):
    """(actual, expected) texts that share a long prefix in which characters of 1 to 4 bytes are mixed, and differ near the end or
    only in length: what a label that abbreviates, aligns or diffs its two texts has to cut - at every byte alignment"""
    alphabet = ["a", "b", " ", ",", "é", "ß", "日", "本", "😀", "\"", "\\", "{", "}"]
    out = []
    for k in range(count):
        n = rng.choice([40, 47, 48, 49, 60, 61, 62, 63, 64, 65, 100, 127, 128, 129, 255, 256, 257, 1023, 1024, 1025, 5000])
        pre = ""
        while len(pre.encode("utf-8")) < n:
            pre += rng.choice(alphabet) if rng.random() < 0.6 else rng.choice("abcdefgh ")
        pre = "a" * (k % 4) + pre                   # shift the alignment of everything after
        tail_a, tail_e = rng.choice([("5\"", "4\""), ("", "x"), ("é", "è"), ("日本", "日"), ("😀", "😀😀"), ("\"", "\"")])
        q = rng.choice(["\"", ""])
        out.append((q + pre + tail_a, q + pre + tail_e))
    return out


def report_cases(rng, count):
    """whole reports formatted through Display for ErrorReport (no readable source: the listing with one label per entry): every
    label kind with ordinary, spacing-sensitive, directive-like and long shared-prefix texts.  Formatting happens inside panic!, so a
    panic here is an abort."""
    specs = kind_specs(rng)
    pairs = [(a, e) for a in TEXTS[:4] for e in TEXTS[:3]] + [(t, t) for t in SPACED + FORMATLIKE] + long_shared_pairs(rng, count)
    cases = []
    for i, (a, e) in enumerate(pairs):
        for s in (specs if i % 7 == 0 else rng.sample(specs, min(4, len(specs))) + [x for x in specs if x.startswith("cmp")][:6]):
            cases.append("\t".join(["fallback", hx("tests/it.rs"), "2", s, "3", hx(a), hx(e), rng.choice(specs), "9", hx(e), "none"]))
    return cases


def fallback_cases(rng, count):
    specs = kind_specs(rng)
    cases = []
    for _ in range(count):
        n = rng.randint(1, 5)
        f = ["fallback", hx(rng.choice(["tests/it.rs", "a/b/src/lib.rs", "日本.rs"])), str(n)]
        for _ in range(n):
            f += [rng.choice(specs), str(rng.choice([0, 1, 7, 4294967295])), hx(rng.choice(TEXTS)),
                  rng.choice(["none", hx(rng.choice(TEXTS))])]
        cases.append("\t".join(f))
    return cases
