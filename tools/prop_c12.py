"""C12 — exhaustiveness and shape are enforced at compile time."""
import itertools
import json
import random

import e2e
import expstage
import vlib

FIELDS = ["a", "b", "c", "d"]

DECLS = r'''
#![allow(unused, non_snake_case)]
use assert_struct::assert_struct;
#[derive(Debug)] struct S1 { a: i32 }
#[derive(Debug)] struct S2 { a: i32, b: i32 }
#[derive(Debug)] struct S3 { a: i32, b: i32, c: i32 }
#[derive(Debug)] struct S4 { a: i32, b: i32, c: i32, d: i32 }
#[derive(Debug)] struct S0 {}
#[derive(Debug)] struct T3 { a: i32, b: i32, c: i32 }
#[derive(Debug)] enum E { V1 { a: i32 }, V2 { a: i32, b: i32 }, V3 { a: i32, b: i32, c: i32 }, V4 { a: i32, b: i32, c: i32, d: i32 },
                          P0, P1(i32), P2(i32, i32), P3(i32, i32, i32) }
#[derive(Debug)] enum F { V3 { a: i32, b: i32, c: i32 }, P2(i32, i32) }
#[derive(Debug)] struct TS2(i32, i32);
#[derive(Debug)] struct Outer<T> { inner: T, n: i32 }
#[derive(Debug)] struct Acc { userName: String, ID: i32, r#type: i32, snake_case: i32 }
fn acc() -> Acc { Acc { userName: "alice".to_string(), ID: 7, r#type: 1, snake_case: 2 } }
'''

# positions a struct pattern may occupy: (value wrapper, pattern wrapper)
POSITIONS = {
    "root": ("{V}", "{P}"),
    "some": ("Some({V})", "Some({P})"),
    "field": ("Outer {{ inner: {V}, n: 1 }}", "Outer {{ inner: {P}, n: 1 }}"),
    "wfield": ("Outer {{ inner: {V}, n: 1 }}", "_ {{ inner: {P}, .. }}"),
    "tuple": ("({V}, 1)", "({P}, 1)"),
    "slice": ("vec![{V}]", "[{P}]"),
    "set": ("vec![{V}]", "#({P})"),
    "map": ("std::collections::BTreeMap::from([(1, {V})])", "#{{ 1: {P} }}"),
    "nested2": ("Some(vec![({V}, 2)])", "Some([({P}, _)])"),
}


def value_of(kind, k):
    fs = ", ".join("%s: %d" % (f, i + 1) for i, f in enumerate(FIELDS[:k]))
    return ("S%d { %s }" % (k, fs)) if kind == "struct" else ("E::V%d { %s }" % (k, fs))


def pattern_of(kind, k, names, rest, path=None):
    path = path or (("S%d" % k) if kind == "struct" else ("E::V%d" % k))
    items = ["%s: %d" % (n, FIELDS.index(n) + 1 if n in FIELDS else 0) for n in names]
    if rest:
        items.append("..")
    return "%s { %s }" % (path, ", ".join(items))


def program(value, pattern, pos="root"):
    vw, pw = POSITIONS[pos]
    return DECLS + "fn main() { let v = %s; assert_struct!(v, %s); }\n" % (vw.format(V=value), pw.format(P=pattern))


def expected_struct(k, names, rest):
    """the rule of Shape.struct_pat_ok on the WRITTEN names (Props/C12.v c12_struct_checked_as_written)"""
    decl = FIELDS[:k]
    return all(n in decl for n in names) and (rest or all(d in names for d in decl))


def cases(rng, tier):
    out = []      # (description, program, expected accept, kind of case)
    for kind in ("struct", "variant"):
        for k in range(1, 5):
            decl = FIELDS[:k]
            for r in range(0, k + 1):
                for sub in itertools.combinations(decl, r):
                    for rest in (False, True):
                        names = list(sub)
                        out.append(("%s with %d fields, listing %s%s" % (kind, k, names, " + .." if rest else ""),
                                    program(value_of(kind, k), pattern_of(kind, k, names, rest)),
                                    expected_struct(k, names, rest), "subset"))
            # order and repetition do not matter
            perm = decl[::-1]
            out.append(("%s %d reversed order" % (kind, k), program(value_of(kind, k), pattern_of(kind, k, perm, False)), True, "order"))
            out.append(("%s %d repeated field" % (kind, k), program(value_of(kind, k), pattern_of(kind, k, decl + [decl[0]], False)), True, "repeat"))
            if k > 1:
                out.append(("%s %d repeated field hides an omission" % (kind, k),
                            program(value_of(kind, k), pattern_of(kind, k, decl[:-1] + [decl[0]], False)), False, "repeat"))
            # a field that does not exist
            for rest in (False, True):
                out.append(("%s %d unknown field%s" % (kind, k, " + .." if rest else ""),
                            program(value_of(kind, k), pattern_of(kind, k, decl + ["zz"], rest)), False, "unknown"))
            # a field that does not exist but LOOKS like one that does (case twin, stray underscore), after, before and instead
            # of the real one: whatever the expansion does with field names (bindings, de-duplication of repeated fields) must not
            # let rustc lose sight of a written name
            twin = decl[0].upper()
            for rest in (False, True):
                out.append(("%s %d case twin of a field, after it%s" % (kind, k, " + .." if rest else ""),
                            program(value_of(kind, k), pattern_of(kind, k, decl + [twin], rest)), False, "unknown"))
                out.append(("%s %d case twin of a field, before it%s" % (kind, k, " + .." if rest else ""),
                            program(value_of(kind, k), pattern_of(kind, k, [twin] + decl, rest)), False, "unknown"))
                out.append(("%s %d case twin instead of the field%s" % (kind, k, " + .." if rest else ""),
                            program(value_of(kind, k), pattern_of(kind, k, [twin] + decl[1:], rest)), False, "unknown"))
                out.append(("%s %d field with a stray underscore%s" % (kind, k, " + .." if rest else ""),
                            program(value_of(kind, k), pattern_of(kind, k, decl + [decl[0] + "_"], rest)), False, "unknown"))
    # field names of other lexical shapes (camel case, capitals, raw identifier, snake case), each with its near misses
    full_acc = ["userName: \"alice\"", "ID: 7", "r#type: 1", "snake_case: 2"]
    out.append(("mixed-case fields, all listed", program("acc()", "Acc { %s }" % ", ".join(full_acc)), True, "control"))
    out.append(("mixed-case fields, raw identifier written plainly is a keyword (parse error)", program("acc()", "Acc { userName: \"alice\", ID: 7, type: 1, snake_case: 2 }"), False, "unknown"))
    for wrong in ("username: \"alice\"", "username.len(): 5", "UserName: \"alice\"", "user_name: \"alice\"", "id: 7", "Id: 7", "*ID: 7", "snakeCase: 2", "Snake_Case: 2", "r#Type: 1", "TYPE: 1"):
        for rest in (False, True):
            out.append(("mixed-case fields, near miss `%s` next to the real ones%s" % (wrong, " + .." if rest else ""),
                        program("acc()", "Acc { %s, %s%s }" % (", ".join(full_acc), wrong, ", .." if rest else "")), False, "unknown"))
            out.append(("mixed-case fields, near miss `%s` first%s" % (wrong, " + .." if rest else ""),
                        program("acc()", "Acc { %s, %s%s }" % (wrong, ", ".join(full_acc), ", .." if rest else "")), False, "unknown"))
    # nested positions: every subset of the 3-field shapes
    positions = [p for p in POSITIONS if p != "root"]
    for kind in ("struct", "variant"):
        decl = FIELDS[:3]
        for pos in positions:
            subs = [s for r in range(0, 4) for s in itertools.combinations(decl, r)]
            if tier == "quick":
                subs = [(), ("a",), ("a", "b"), ("a", "b", "c"), ("b", "c")]
            for sub in subs:
                for rest in (False, True):
                    names = list(sub)
                    out.append(("%s 3 in position %s, listing %s%s" % (kind, pos, names, " + .." if rest else ""),
                                program(value_of(kind, 3), pattern_of(kind, 3, names, rest), pos),
                                expected_struct(3, names, rest), "position"))
    # a FIELD's pattern that accepts anything (`_`, or the range-full `..` the macro's grammar also reads in that place) says nothing
    # about the struct's other fields: only a `..` written at the struct's own level does
    v3w = value_of("struct", 3)
    for anyp in ("_", ".."):
        for lhs in ("a", "*a", "a.clone()", "a.abs()"):
            out.append(("struct 3, `%s: %s` beside one listed field, a third omitted" % (lhs, anyp), program(v3w, "S3 { %s: %s, b: 2 }" % (lhs, anyp)), False, "omission"))
            out.append(("variant 3, `%s: %s` beside one listed field, a third omitted" % (lhs, anyp), program(value_of("variant", 3), "E::V3 { %s: %s, b: 2 }" % (lhs, anyp)), False, "omission"))
        out.append(("struct 3, `zz: %s` (no such field) + .." % anyp, program(v3w, "S3 { zz: %s, .. }" % anyp), False, "unknown"))
        out.append(("struct 3, `zz: %s` (no such field) beside all real ones" % anyp, program(v3w, "S3 { a: 1, b: 2, c: 3, zz: %s }" % anyp), False, "unknown"))
        out.append(("struct 3, `zz.abs(): %s` (no such field) + .." % anyp, program(v3w, "S3 { zz.abs(): %s, .. }" % anyp), False, "unknown"))
        out.append(("nested: Some(S3 { a: %s, b: 2 })" % anyp, program("Some(%s)" % v3w, "Some(S3 { a: %s, b: 2 })" % anyp), False, "omission"))
    out.append(("struct 3, every field `_`", program(v3w, "S3 { a: _, b: _, c: _ }"), True, "control"))
    # a wildcard struct pattern without `..` wherever a pattern may stand (positional and INDEXED elements, nested): rejected everywhere
    for desc, val, pat in [("positional tuple element", "(%s, 2)" % v3w, "(_ { a: 1 }, 2)"), ("indexed tuple element", "(%s, 2)" % v3w, "(0: _ { a: 1 }, 1: 2)"),
                           ("second indexed element", "(2, %s)" % v3w, "(0: 2, 1: _ { a: 1 })"), ("under Some", "Some(%s)" % v3w, "Some(_ { a: 1 })"),
                           ("indexed variant argument", "Some(%s)" % v3w, "Some(0: _ { a: 1 })"), ("under Some under an indexed element", "(Some(%s), 2)" % v3w, "(0: Some(_ { a: 1 }), 1: 2)"),
                           ("slice element", "vec![%s]" % v3w, "[_ { a: 1 }]"), ("set element", "vec![%s]" % v3w, "#(_ { a: 1 })"),
                           ("field of a wildcard struct under an indexed element", "(%s, 2)" % v3w, "(0: _ { a: 1, b: 2, c: 3 }, 1: 2)"),
                           ("tuple variant, indexed", "E::P2(1, 2)", "E::P2(0: 1, 1: 2)")]:
        ok = desc == "tuple variant, indexed"
        out.append(("wildcard struct without `..` as %s" % desc if not ok else "control: %s elements" % desc, program(val, pat), ok, "wildcard" if not ok else "control"))
    # a type or variant that is not the value's
    v3 = value_of("struct", 3)
    full = ["a", "b", "c"]
    out += [
        ("another struct type with the same fields", program(v3, pattern_of("struct", 3, full, False, path="T3")), False, "wrong-type"),
        ("another struct type, with ..", program(v3, pattern_of("struct", 3, [], True, path="T3")), False, "wrong-type"),
        ("a variant of another enum", program(value_of("variant", 3), pattern_of("variant", 3, full, False, path="F::V3")), False, "wrong-type"),
        ("a variant that does not exist", program(value_of("variant", 3), pattern_of("variant", 3, full, False, path="E::Nope")), False, "wrong-type"),
        ("a struct pattern for a tuple variant", program("E::P2(1, 2)", "E::P2 { a: 1 }"), False, "wrong-type"),
        ("same enum, other variant (a run-time mismatch, not a compile error)", program(value_of("variant", 3), "E::V2 { a: 1, b: 2 }"), True, "control"),
        ("empty struct, empty pattern", program("S0 {}", "S0 {}"), True, "control"),
        ("empty struct, only ..", program("S0 {}", "S0 { .. }"), True, "control"),
        ("wildcard struct without ..", program(v3, "_ { a: 1 }"), False, "wildcard"),
        ("wildcard struct without .. (all fields listed)", program(v3, "_ { a: 1, b: 2, c: 3 }"), False, "wildcard"),
        ("wildcard struct with ..", program(v3, "_ { a: 1, .. }"), True, "control"),
        ("wildcard struct, unknown field", program(v3, "_ { zz: 1, .. }"), False, "unknown"),
    ]
    # arity
    arity = [("(1, 2, 3)", "(1, 2, 3)", True), ("(1, 2, 3)", "(1, 2)", False), ("(1, 2, 3)", "(1, 2, 3, 4)", False),
             ("(1, 2, 3)", "(1, 2, _)", True), ("(1, 2, 3)", "(0: 1, 1: 2)", False), ("(1, 2)", "(_, _, _)", False),
             ("(1, 2)", "()", False),
             # one written element is a ONE-tuple pattern (`( x , )` in the expansion; before fix F19 it was lowered to the parenthesised
             # pattern `( x )`, which imposes no shape at all: `(5,)` passed on a bare 5 and was rejected on (5,))
             ("5", "(5)", False), ("5", "(5,)", False), ("(1, 2, 3)", "(_)", False), ("(1, 2, 3)", "(_,)", False), ("(1, 2, 3)", "(5)", False),
             ("(5,)", "(5,)", True), ("(5,)", "(5)", True), ("(5,)", "(_,)", True), ("(5,)", "(0: 5)", True), ("(5,)", "(_, _)", False), ("(5,)", "()", False),
             ("Some((5,))", "Some((5,))", True), ("Some(5)", "Some((5,))", False), ("Some(5)", "Some((_,))", False), ("vec![(5,)]", "[(5,)]", True),
             ("vec![5]", "[(_,)]", False), ("((5,), 1)", "((_,), 1)", True), ("(5, 1)", "((_,), 1)", False),
             ("E::P2(1, 2)", "E::P2(1, 2)", True), ("E::P2(1, 2)", "E::P2(1)", False), ("E::P2(1, 2)", "E::P2(1, 2, 3)", False),
             ("E::P3(1, 2, 3)", "E::P3(1, 2)", False), ("E::P3(1, 2, 3)", "E::P3(_, _, _)", True), ("E::P1(1)", "E::P1()", False),
             ("E::P1(1)", "E::P1(1, _)", False), ("E::P0", "E::P0", True), ("E::P2(1, 2)", "F::P2(1, 2)", False),
             ("Some(1)", "Some(1, 2)", False), ("Some(1)", "Some()", False), ("TS2(1, 2)", "TS2(1)", False), ("TS2(1, 2)", "TS2(1, 2)", True),
             # arguments that are all `_` (nothing to bind, nothing to compare): the arity must still be checked
             ("E::P2(1, 2)", "E::P2(_)", False), ("E::P2(1, 2)", "E::P2(_, _, _)", False), ("E::P2(1, 2)", "E::P2(_, _)", True),
             ("E::P3(1, 2, 3)", "E::P3(_, _)", False), ("E::P1(1)", "E::P1(_, _)", False), ("Some(1)", "Some(_, _)", False),
             ("TS2(1, 2)", "TS2(_)", False), ("TS2(1, 2)", "TS2(_, _, _)", False), ("(1, 2, 3)", "(_, _)", False), ("(1, 2)", "(_, _, _)", False),
             ("Some(E::P2(1, 2))", "Some(E::P2(_))", False), ("vec![E::P2(1, 2)]", "[E::P2(_)]", False),
             ("Outer { inner: E::P2(1, 2), n: 1 }", "Outer { inner: E::P2(_), .. }", False), ("(E::P2(1, 2), 1)", "(E::P2(_, _, _), _)", False),
             ("Some((1, 2))", "Some((1, 2, 3))", False), ("vec![(1, 2)]", "[(1,)]", False), ("vec![E::P2(1, 2)]", "#(E::P2(1))", False),
             # an all-wildcard PLAIN tuple nested directly in another tuple, a variant, a slice, a set or behind an index: its arity
             # (and that the value is a tuple at all) must still be checked
             ("Some((1, 2, 3))", "Some((_, _))", False), ("Some((1, 2, 3))", "Some((_, _, _))", True), ("Some((1, 2, 3))", "Some((_, _, _, _))", False),
             ("((1, 2, 3), 9)", "((_, _), 9)", False), ("((1, 2, 3), 9)", "((_, _, _), 9)", True), ("((1, 2, 3), 9)", "((_, _), _)", False),
             ("((1, 2, 3), 9)", "(0: (_, _), 1: 9)", False), ("((1, 2, 3), 9)", "(0: (_, _, _), 1: 9)", True),
             ("vec![(1, 2, 3)]", "[(_, _), ..]", False), ("vec![(1, 2, 3)]", "[(_, _, _)]", True), ("vec![(1, 2, 3)]", "#((_, _))", False),
             ("vec![(1, 2, 3)]", "#((_, _, _))", True), ("Some(5)", "Some((_, _))", False), ("(((1, 2), 3), 4)", "(((_, _, _), _), _)", False),
             ("(((1, 2), 3), 4)", "(((_, _), _), _)", True), ("Ok::<(i32, i32), String>((1, 2))", "Ok((_, _, _))", False),
             ("Ok::<(i32, i32), String>((1, 2))", "Ok((_, _))", True),
             # `..` written as an ELEMENT of a parenthesised pattern that lists fewer positions than the declaration has: in a slice `..`
             # stands for the rest, in a tuple / tuple struct / tuple variant pattern it must not (wrong arity is rejected, never a partial match)
             ("(1, 2, 3)", "(1, ..)", False), ("(1, 2, 3)", "(.., 3)", False), ("(1, 2, 3, 4)", "(1, .., 4)", False), ("E::P3(1, 2, 3)", "E::P3(1, ..)", False),
             ("E::P3(1, 2, 3)", "E::P3(.., 3)", False), ("E::P3(1, 2, 3)", "E::P3(0: 1, 1: ..)", False), ("TS2(1, 2)", "TS2(..)", False),
             ("Some(E::P3(1, 2, 3))", "Some(E::P3(.., 3))", False), ("vec![(1, 2, 3)]", "[(1, ..)]", False),
             ("Outer { inner: E::P2(1, 2), n: 1 }", "Outer { inner: E::P2(..), .. }", False), ("((1, 2, 3), 9)", "((1, ..), 9)", False)]
    for v, p, ok in arity:
        out.append(("arity: %s against %s" % (p, v), program(v, p), ok, "arity"))
    return out


def run(res):
    res.trusted += ["Coq 8.16.1 kernel (coqc)", "Model/Shape.v: struct_pat_ok / tuple_pat_ok are definitional models of rustc's checks "
                    "(E0026, E0027, E0023, E0308), compared with rustc on every run",
                    "rustc; harness/mac (expander correspondence); tools/prop_c12.py (program generator)"]
    res.assumptions += ["field names are compared by spelling (syn::Ident equality ignores spans; raw identifiers are outside the generated corpus)"]
    vlib.build_coq()
    ths, rep = vlib.check_props("C12")
    res.obligations += ths
    res.discharged += ths
    res.coverage["print_assumptions"] = rep

    rng = random.Random(res.seed + 12)
    cs = cases(rng, res.tier)

    def compute():
        out = e2e.compile_many([c[1] for c in cs], run=False, tag="c12")
        e2e.cleanup("c12")
        return [(o["compiled"], sorted(set(e2e.error_codes(o["stderr"])))[:3], o["stderr"][-600:] if not o["compiled"] else "") for o in out]
    results = vlib.cached("shape", [res.tier, len(cs)], compute)
    name = "correspondence:shape-rules-vs-rustc(%d programs)" % len(cs)
    res.obligations.append(name)
    failing = 0
    wrongly_rejected = 0
    kinds = {}
    codes = {}
    for (desc, prog, expect, kind), (compiled, ec, err) in zip(cs, results):
        d = kinds.setdefault(kind, {"programs": 0, "accepted": 0, "rejected": 0})
        d["programs"] += 1
        d["accepted" if compiled else "rejected"] += 1
        for c in ec:
            codes[c] = codes.get(c, 0) + 1
        if compiled and not expect:
            failing += 1
            if failing <= 3:
                res.violation("failing-input", "a pattern that must be rejected at compile time compiles: " + desc,
                              {"case": desc, "program": prog})
        elif not compiled and expect:
            wrongly_rejected += 1
            if wrongly_rejected <= 2:
                res.violation("no-failing-input-found",
                              "the shape rule of Model/Shape.v says rustc accepts this program, rustc rejects it (%s): the model of rustc no "
                              "longer matches, Props/C12.v is about that model" % ",".join(ec), {"case": desc, "program": prog, "rustc": err})
    res.streams["shape-matrix"] = {"programs": len(cs), "by_kind": kinds, "error_codes": codes,
                                   "samples": [{"case": c[0], "expected_accept": c[2]} for c in cs[::max(1, len(cs) // 4)][:4]]}
    # the real expansion equals the model's (token-exact) on the shared corpus: what the theorems say about
    # `expand` holds of the real expander's output
    recs = expstage.run_stage(res, "quick", res.seed, ["v, S {}", "v, S { .. }", "v, E::V {}", "v, S { a: 1 }", "v, S { a: 1, .. }",
                                                       "v, S { a: 1, a: 2 }", "v, Some(S {})", "v, [S {}, ..]", "v, (1, 2, _)", "v, E::T(_, 1)"])
    dis = [r for r in recs if r.status == "ok" and r.tokens != r.model]
    n_struct = sum(1 for r in recs if r.status == "ok" and " { " in r.text)
    res.streams["expander"] = {"invocations": len(recs), "token_disagreements": len(dis), "with_struct_patterns": n_struct}
    res.obligations.append("correspondence:expander(token-exact)")
    if dis and not failing:
        res.violation("no-failing-input-found", "correspondence expander no longer checks: the real expansion and the model's differ on %d invocations"
                      % len(dis), {"first_disagreement": {"invocation": dis[0].text, "difference": expstage.maclib.first_diff(dis[0].tokens, dis[0].model)}})
    if not dis:
        res.discharged.append("correspondence:expander(token-exact)")
    if not failing and not wrongly_rejected:
        res.discharged.append(name)
    res.coverage.update({"evaluations": len(cs) + len(recs), "distinct_nontrivial": sum(1 for c in cs if not c[2]),
                         "rule": "every subset of the fields of structs and struct variants with 1-4 fields, with and without `..`, at the root; "
                                 "subsets of 3-field shapes in 8 nested positions; reversed order, repeated fields, unknown fields, wrong type / "
                                 "variant, wildcard struct with and without `..`, tuple / variant / tuple-struct arities; non-trivial = programs that must be rejected"})


def replay(res, path):
    v = json.load(open(path))
    if "program" not in v:
        print("replay file names a broken obligation:", v.get("what"))
        return 1
    out = e2e.compile_many([v["program"]], run=False, tag="c12r")
    e2e.cleanup("c12r")
    print("compiles" if out[0]["compiled"] else "rejected: " + ",".join(e2e.error_codes(out[0]["stderr"])))
    return 0
