"""vlib.py — shared machinery of the /verif check driver.

Everything here is plumbing: building the Coq development, the extracted OCaml
model runner and the Rust harnesses from /repo's current working tree; running
both sides on the same case lines; diffing; writing evidence and replay files.
"""
import fcntl
import hashlib
import json
import os
import re
import subprocess
import sys
import time

VERIF = os.path.dirname(os.path.dirname(os.path.abspath(__file__)))
REPO = os.environ.get("VERIF_REPO", "/repo")
COQ = os.path.join(VERIF, "coq")
OCAML = os.path.join(VERIF, "ocaml")
WORK = os.path.join(VERIF, ".work")
EVID = os.path.join(VERIF, "evidence")
GUARD = "assert_struct_verif"

ENV = dict(os.environ)
ENV.update({"CARGO_NET_OFFLINE": "true", "GOPROXY": "off", "PIP_NO_INDEX": "1"})
ENV.pop("RUST_BACKTRACE", None)
# build and run everything with the toolchain /repo pins
try:
    _m = re.search(r'channel\s*=\s*"([^"]+)"', open(os.path.join(REPO, "rust-toolchain.toml")).read())
    if _m:
        ENV["RUSTUP_TOOLCHAIN"] = _m.group(1)
except OSError:
    pass

FORBIDDEN = re.compile(
    r"\b(Admitted|admit|Axiom|Axioms|Parameter|Parameters|Conjecture|Conjectures|Admit Obligations)\b"
    r"|Unset Guard|bypass_check|type-in-type|impredicative-set|Unset Positivity|Unset Universe"
)
# Standard-library axioms that may appear under Print Assumptions (none are used so far;
# anything printed that is not listed here fails the check).
AXIOM_ALLOWLIST = set()


class CheckError(Exception):
    pass


def log(*a):
    print(*a, file=sys.stderr, flush=True)


def sh(cmd, cwd=None, timeout=3600, env=None, check=True, input=None):
    p = subprocess.run(cmd, cwd=cwd, env=env or ENV, timeout=timeout, input=input,
                       stdout=subprocess.PIPE, stderr=subprocess.STDOUT, text=True,
                       shell=isinstance(cmd, str))
    if check and p.returncode != 0:
        raise CheckError("command failed (%s): %s\n%s" % (p.returncode, cmd, p.stdout[-4000:]))
    return p


class BuildLock:
    def __enter__(self):
        os.makedirs(WORK, exist_ok=True)
        self.f = open(os.path.join(WORK, "build.lock"), "w")
        fcntl.flock(self.f, fcntl.LOCK_EX)
        return self

    def __exit__(self, *a):
        fcntl.flock(self.f, fcntl.LOCK_UN)
        self.f.close()


def sha_files(paths):
    h = hashlib.sha256()
    for p in sorted(paths):
        h.update(p.encode())
        try:
            with open(p, "rb") as f:
                h.update(f.read())
        except OSError:
            h.update(b"<missing>")
    return h.hexdigest()


def walk(root, exts):
    out = []
    for d, dirs, files in os.walk(root):
        dirs[:] = [x for x in dirs if x not in ("target", ".git", ".work")]
        for f in files:
            if f.endswith(exts):
                out.append(os.path.join(d, f))
    return out


# ---------------------------------------------------------------- Coq ------

def coq_sources():
    return [p for p in walk(COQ, (".v",)) if "/.#" not in p]


def grep_forbidden():
    bad = []
    for p in coq_sources():
        txt = open(p).read()
        # strip comments (non-nested is enough: the sources do not nest them)
        stripped = re.sub(r"\(\*.*?\*\)", "", txt, flags=re.S)
        for m in FORBIDDEN.finditer(stripped):
            bad.append("%s: %s" % (os.path.relpath(p, VERIF), m.group(0)))
    return bad


def build_coq():
    """Full .vo build of the development (make is incremental); returns seconds."""
    t0 = time.time()
    with BuildLock():
        if not os.path.exists(os.path.join(COQ, "Makefile")) or \
                os.path.getmtime(os.path.join(COQ, "Makefile")) < os.path.getmtime(os.path.join(COQ, "_CoqProject")):
            sh(["coq_makefile", "-f", "_CoqProject", "-o", "Makefile"], cwd=COQ)
        sh("timeout 3000 make -j16", cwd=COQ, timeout=3100)
    return time.time() - t0


COQ_ARGS = ["-Q", "Model", "ASModel", "-Q", "Proofs", "ASProofs", "-Q", "Props", "ASProps", "-Q", "gen", "ASGen",
            "-w", "-notation-overridden,-deprecated"]


def build_fact_dependents(files):
    """gen/RepoFacts.v is regenerated from /repo on every run; the files that depend on it are outside the
    Makefile (so that a change of the facts cannot break the build of the rest) and are re-checked here, in
    order, from scratch.  A failure is a broken proof obligation of the calling property only."""
    import repofacts
    with BuildLock():
        repofacts.write()
        for f in ["gen/RepoFacts.v"] + files:
            for ext in (".vo", ".vok", ".vos", ".glob"):
                try:
                    os.remove(os.path.join(COQ, f[:-2] + ext))
                except OSError:
                    pass
        for f in ["gen/RepoFacts.v"] + files:
            p = sh(["coqc"] + COQ_ARGS + [f], cwd=COQ, timeout=1200, check=False)
            if p.returncode != 0:
                raise CheckError("proof obligation no longer checks against the facts regenerated from /repo: %s\n%s" % (f, p.stdout[-1500:]))


def check_fact_props(res, prop_file, what):
    """Props/<prop_file>.v states facts regenerated from /repo's source text (gen/RepoFacts.v).  Returns None when it checks,
    else the error text: the caller reports `no-failing-input-found` naming it unless one of its streams exhibits a failing input."""
    name = "Props/%s.v against the facts regenerated from /repo (%s)" % (prop_file, what)
    res.obligations.append(name)
    try:
        build_fact_dependents([])
        ths, rep = check_props(prop_file)
        res.obligations += ths
        res.discharged += ths + [name]
        return None
    except CheckError as e:
        return str(e)


def report_fact_failure(res, prop_file, err, what):
    if err and not res.violations:
        res.violation("no-failing-input-found", "Props/%s.v no longer checks against the facts regenerated from /repo (%s): %s" % (prop_file, what, err[-900:]),
                      {"theorem_file": "coq/Props/%s.v" % prop_file})


def check_props(prop_file):
    """Compile Props/<prop_file>.v on its own, capture Print Assumptions output.
    Returns (theorems, assumptions_report) or raises CheckError."""
    bad = grep_forbidden()
    if bad:
        raise CheckError("forbidden declarations in the Coq development: " + "; ".join(bad))
    path = os.path.join(COQ, "Props", prop_file + ".v")
    src = open(path).read()
    theorems = re.findall(r"^\s*(?:Theorem|Corollary)\s+(\w+)", src, flags=re.M)
    # property files may only contain statements closed by `exact <lemma>`
    body = re.sub(r"\(\*.*?\*\)", "", src, flags=re.S)
    for m in re.finditer(r"(?:Theorem|Corollary)\s+(\w+).*?Proof\.(.*?)Qed\.", body, flags=re.S):
        steps = m.group(2).strip()
        if not re.fullmatch(r"exact\s+[\w.@() ]+\.", steps):
            raise CheckError("theorem %s in Props/%s.v is not closed by a bare `exact`: %s"
                             % (m.group(1), prop_file, steps[:80]))
    with BuildLock():
        p = sh(["coqc", "-Q", "Model", "ASModel", "-Q", "Proofs", "ASProofs", "-Q", "Props", "ASProps",
                "-Q", "gen", "ASGen", "-w", "-notation-overridden,-deprecated",
                os.path.join("Props", prop_file + ".v")], cwd=COQ, timeout=1200)
    out = p.stdout
    closed = out.count("Closed under the global context")
    axioms = []
    in_ax = False
    for line in out.splitlines():
        if line.startswith("Axioms:"):
            in_ax = True
            continue
        if in_ax:
            m = re.match(r"^(\S+)\s*:", line)
            if m:
                axioms.append(m.group(1))
            elif line and not line.startswith(" "):
                in_ax = False
    not_allowed = [a for a in axioms if a not in AXIOM_ALLOWLIST]
    if not_allowed:
        raise CheckError("theorems of %s depend on axioms outside the allowlist: %s" % (prop_file, not_allowed))
    n_pa = len(re.findall(r"Print Assumptions", body))
    if n_pa < len(theorems):
        raise CheckError("Props/%s.v: %d theorems but only %d Print Assumptions" % (prop_file, len(theorems), n_pa))
    if closed + len(axioms) < n_pa and closed < n_pa:
        raise CheckError("Print Assumptions: %d of %d closed in %s\n%s" % (closed, n_pa, prop_file, out[-2000:]))
    if len(theorems) == 0:
        raise CheckError("no theorem found in " + prop_file)
    return theorems, {"closed_under_global_context": closed, "axioms": axioms}


def coqchk(prop_file):
    """Re-check Props/<prop_file>.vo and everything it depends on with Coq's independent checker; returns its context summary.
    Thorough tier only (about a minute)."""
    p = sh(["coqchk", "-silent", "-o", "-Q", "Model", "ASModel", "-Q", "Proofs", "ASProofs", "-Q", "Props", "ASProps", "-Q", "gen", "ASGen",
            "ASProps." + prop_file], cwd=COQ, timeout=3000, check=False)
    out = p.stdout
    if p.returncode != 0 or "CONTEXT SUMMARY" not in out:
        raise CheckError("coqchk rejects Props/%s.vo or one of its dependencies:\n%s" % (prop_file, out[-1500:]))
    summ = out[out.index("CONTEXT SUMMARY"):]
    fields = {}
    key = None
    for line in summ.splitlines():
        if line.startswith("* ") and ":" in line:
            key, val = line[2:].split(":", 1)
            key = key.strip()
            fields[key] = val.strip()
        elif key and line.strip():
            fields[key] = (fields[key] + " " + line.strip()).strip()
    bad = [k for k, v in fields.items() if k != "Theory" and v not in ("<none>", "")]
    if bad:
        # axioms reported by coqchk must be on the allowlist too
        ax = fields.get("Axioms", "")
        names = [a for a in re.split(r"[\s,]+", ax) if a and a != "<none>"]
        others = [k for k in bad if k != "Axioms"]
        if others or any(a not in AXIOM_ALLOWLIST for a in names):
            raise CheckError("coqchk context summary for Props/%s.vo is not clean: %s" % (prop_file, {k: fields[k] for k in bad}))
    return fields


# ---------------------------------------------------------- extraction -----

def build_model_runner():
    """Extract the model and compile the OCaml runner if anything changed."""
    with BuildLock():
        vos = walk(os.path.join(COQ, "Model"), (".vo",))
        stamp = os.path.join(OCAML, ".stamp")
        inputs = walk(os.path.join(COQ, "Model"), (".v",)) + [os.path.join(COQ, "Extract.v"), os.path.join(COQ, "Proofs", "SemP.v")] + \
            [os.path.join(OCAML, f) for f in ("conv.ml", "irconv.ml", "parseconv.ml", "main.ml")]
        digest = sha_files(inputs)
        if os.path.exists(stamp) and open(stamp).read() == digest and os.path.exists(os.path.join(OCAML, "modelrun")):
            return
        if not vos:
            raise CheckError("Coq model not built")
        sh(["coqc", "-Q", "../coq/Model", "ASModel", "-Q", "../coq/Proofs", "ASProofs", "../coq/Extract.v"], cwd=OCAML, timeout=1200)
        mls = [f for f in ("conv.ml", "irconv.ml", "parseconv.ml", "main.ml") if os.path.exists(os.path.join(OCAML, f))]
        sh(["ocamlfind", "ocamlopt", "-w", "-a", "-package", "str", "model.mli", "model.ml"] + mls +
           ["-o", "modelrun"], cwd=OCAML, timeout=1200)
        open(stamp, "w").write(digest)


def run_model(lines, timeout=1800):
    p = subprocess.run([os.path.join(OCAML, "modelrun")], input="\n".join(lines) + "\n", text=True,
                       stdout=subprocess.PIPE, stderr=subprocess.PIPE, timeout=timeout)
    if p.returncode != 0:
        raise CheckError("model runner failed: " + p.stderr[-2000:])
    return p.stdout.splitlines()


def run_model_sharded(lines, shards=16, timeout=1800):
    """run_model over independent (stateless) command lines, split over several model-runner processes; results in input order"""
    import concurrent.futures
    if len(lines) < 4 * shards:
        return run_model(lines, timeout)
    size = (len(lines) + shards - 1) // shards
    chunks = [lines[i:i + size] for i in range(0, len(lines), size)]
    with concurrent.futures.ThreadPoolExecutor(max_workers=shards) as ex:
        outs = list(ex.map(lambda c: run_model(c, timeout), chunks))
    res = []
    for c, o in zip(chunks, outs):
        if len(o) != len(c):
            raise CheckError("model runner returned %d lines for %d commands" % (len(o), len(c)))
        res += o
    return res


# ------------------------------------------------------------ harnesses ----

def build_harness(name, features=None, extra_env=None):
    """cargo build of harness/<name> against /repo's current working tree.
    Returns (ok, output).  A build failure is reported to the caller, which
    treats it as a broken correspondence (DESIGN.md 4.1)."""
    d = os.path.join(VERIF, "harness", name)
    cmd = ["cargo", "build", "--offline", "--quiet"]
    if features is not None:
        cmd += ["--no-default-features"]
        if features:
            cmd += ["--features", ",".join(features)]
    env = dict(ENV)
    if extra_env:
        env.update(extra_env)
    with BuildLock():
        p = sh(cmd, cwd=d, timeout=3000, check=False, env=env)
    return p.returncode == 0, p.stdout


def run_harness(name, lines, env_extra=None, timeout=1800, binary=None):
    d = os.path.join(VERIF, "harness", name)
    exe = os.path.join(d, "target", "debug", binary or name)
    env = dict(ENV)
    os.makedirs(os.path.join(WORK, "tmp"), exist_ok=True)
    env["RT_TMP"] = os.path.join(WORK, "tmp")
    if env_extra:
        env.update(env_extra)
    p = subprocess.run([exe], input="\n".join(lines) + "\n", text=True, env=env,
                       stdout=subprocess.PIPE, stderr=subprocess.PIPE, timeout=timeout)
    if p.returncode != 0:
        raise CheckError("harness %s failed (%s): %s" % (name, p.returncode, p.stderr[-2000:]))
    return p.stdout.splitlines()


def run_harness_or_hang(name, prefix, lines, env_extra=None, timeout=240, each=30):
    """run_harness(prefix + lines) under `timeout`; when it does not finish, run every line on its own (after the prefix) under
    `each` seconds and return (None, first line that never finishes).  Otherwise (output lines after the prefix, None)."""
    try:
        return run_harness(name, prefix + lines, env_extra=env_extra, timeout=timeout)[len(prefix):], None
    except subprocess.TimeoutExpired:
        pass
    for l in lines:
        try:
            run_harness(name, prefix + [l], env_extra=env_extra, timeout=each)
        except subprocess.TimeoutExpired:
            return None, l
    return None, "(no single case hangs on its own; the whole stream of %d cases does not finish in %d s)" % (len(lines), timeout)


# --------------------------------------------------------------- misc ------

def hx(s):
    if isinstance(s, str):
        s = s.encode("utf-8")
    return "x" + s.hex()


def unhx(s):
    assert s.startswith("x"), s
    return bytes.fromhex(s[1:])


def seed_from_env():
    try:
        return int(os.environ.get("VERIF_SEED", "1"))
    except ValueError:
        return 1


def repo_rev():
    p = sh(["git", "-C", REPO, "rev-parse", "HEAD"], check=False)
    d = sh(["git", "-C", REPO, "status", "--porcelain"], check=False)
    return p.stdout.strip() + ("+dirty" if d.stdout.strip() else "")


def load_known_findings():
    p = os.path.join(VERIF, "known_findings.json")
    if not os.path.exists(p):
        return {"findings": [], "fixed": []}
    return json.load(open(p))


class Result:
    """Accumulates what one check run did; written as evidence at the end."""

    def __init__(self, pid, tier, seed):
        self.pid = pid
        self.tier = tier
        self.seed = seed
        self.t0 = time.time()
        self.violations = []      # list of dicts (replay content)
        self.known = []           # KNOWN-FINDING lines
        self.obligations = []     # names
        self.discharged = []      # names
        self.coverage = {}
        self.assumptions = []
        self.trusted = []
        self.streams = {}

    def violation(self, kind, what, replay):
        replay = dict(replay)
        replay.update({"property": self.pid, "kind": kind, "what": what, "repo": repo_rev(),
                       "replay_cmd": "./check %s --replay <this file>" % self.pid})
        self.violations.append(replay)

    def finish(self):
        os.makedirs(EVID, exist_ok=True)
        os.makedirs(os.path.join(WORK, "replay"), exist_ok=True)
        for line in self.known:
            print("KNOWN-FINDING: property=%s %s" % (self.pid, line))
        rc = 0
        for i, v in enumerate(self.violations[:5]):
            path = os.path.join(WORK, "replay", "%s_%d.json" % (self.pid, i))
            json.dump(v, open(path, "w"), indent=1, ensure_ascii=False)
            tail = " no-failing-input-found" if v["kind"] == "no-failing-input-found" else ""
            print("VIOLATION property=%s replay=%s%s" % (self.pid, path, tail))
            rc = 1
        cov = dict(self.coverage)
        cov.setdefault("obligations", len(self.obligations))
        cov.setdefault("discharged", len(self.discharged))
        cov.setdefault("checker_cmd", "cd /verif/coq && make -j16 && coqc Props/%s.v (Print Assumptions)" % self.pid)
        cov.setdefault("trusted_base", self.trusted)
        cov["obligation_names"] = self.obligations
        cov["streams"] = self.streams
        ev = {
            "property_id": self.pid,
            "tier": self.tier,
            "seed": self.seed,
            "level": "proof",
            "coverage": cov,
            "assumptions": self.assumptions,
            "wall_s": round(time.time() - self.t0, 2),
            "violations": len(self.violations),
        }
        if os.environ.get("VERIF_NO_EVIDENCE"):
            # development runs against a deliberately broken /repo must not replace the committed evidence
            json.dump(ev, open(os.path.join(WORK, "evidence_scratch_%s.json" % self.pid), "w"), indent=1, ensure_ascii=False)
            return rc
        json.dump(ev, open(os.path.join(EVID, self.pid + ".json"), "w"), indent=1, ensure_ascii=False)
        return rc


def correspond(res, stream, cases, impl_out, model_out, describe, nontrivial, oracle=None, samples=3):
    """Compare implementation and model line by line.
    describe(case) -> json-able description; nontrivial(case, impl_line) -> bool;
    oracle(case, impl_line) -> None if the property holds on what the implementation did,
    else a string describing the failure."""
    if len(impl_out) != len(cases) or len(model_out) != len(cases):
        raise CheckError("stream %s: %d cases, %d impl lines, %d model lines" %
                         (stream, len(cases), len(impl_out), len(model_out)))
    dis = []
    failing = []
    seen = set()
    nontriv = 0
    nt_idx = []
    for idx, (c, a, b) in enumerate(zip(cases, impl_out, model_out)):
        key = c
        if key not in seen:
            seen.add(key)
            if nontrivial(c, a):
                nontriv += 1
                nt_idx.append(idx)
        if oracle is not None:
            why = oracle(c, a)
            if why:
                failing.append((c, a, b, why))
        if a != b:
            dis.append((c, a, b))
    st = {"cases": len(cases), "distinct": len(seen), "distinct_nontrivial": nontriv,
          "disagreements": len(dis), "oracle_failures": len(failing),
          "samples": [{"case": describe(cases[i]), "impl": impl_out[i]}
                      for i in (nt_idx[::max(1, len(nt_idx) // samples)][:samples] or list(range(min(samples, len(cases)))))]}
    res.streams[stream] = st
    for c, a, b, why in failing[:3]:
        res.violation("failing-input", why,
                      {"stream": stream, "case": describe(c), "case_line": c, "impl": a, "model": b})
    if dis and not failing:
        c, a, b = dis[0]
        res.violation("no-failing-input-found",
                      "correspondence %s no longer checks: implementation and model disagree on %d of %d cases"
                      % (stream, len(dis), len(cases)),
                      {"stream": stream, "first_disagreement": {"case": describe(c), "case_line": c, "impl": a, "model": b}})
    return st


# ------------------------------------------------------------- stage cache ---

def repo_digest():
    """content hash of everything under /repo that the harnesses compile"""
    files = [p for p in walk(REPO, (".rs", ".toml", ".lock")) if "/target/" not in p]
    return sha_files(files)


def machinery_digest():
    files = walk(os.path.join(VERIF, "tools"), (".py",)) + walk(os.path.join(VERIF, "harness"), (".rs", ".toml")) + \
        walk(os.path.join(COQ, "Model"), (".v",)) + walk(OCAML, (".ml",))
    files = [f for f in files if "/target/" not in f]
    return sha_files(files)


def cached(stage, key_parts, compute):
    """Stage results are shared between the properties that use the same stage.  The key
    covers /repo's sources, the machinery, the seed and the tier, so any edit invalidates it."""
    import pickle
    if os.environ.get("VERIF_NO_CACHE"):
        return compute()
    key = hashlib.sha256(("|".join([stage, repo_digest(), machinery_digest()] + [str(k) for k in key_parts])).encode()).hexdigest()[:24]
    d = os.path.join(WORK, "cache")
    os.makedirs(d, exist_ok=True)
    path = os.path.join(d, "%s_%s.pkl" % (stage, key))
    if os.path.exists(path):
        try:
            return pickle.load(open(path, "rb"))
        except Exception:
            pass
    val = compute()
    for old in os.listdir(d):
        if old.startswith(stage + "_"):
            try:
                os.remove(os.path.join(d, old))
            except OSError:
                pass
    pickle.dump(val, open(path, "wb"))
    return val
