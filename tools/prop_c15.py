"""C15 — malformed patterns are rejected, not reinterpreted."""
import json
import os

import e2e
import parsestage
import vlib


# ---- accepted => every identifier / literal of the input is part of the parsed tree -------

def sexp(s):
    pos = [0]

    def one():
        while pos[0] < len(s) and s[pos[0]] == " ":
            pos[0] += 1
        if s[pos[0]] == "(":
            pos[0] += 1
            items = []
            while True:
                while s[pos[0]] == " ":
                    pos[0] += 1
                if s[pos[0]] == ")":
                    pos[0] += 1
                    return items
                items.append(one())
        st = pos[0]
        while pos[0] < len(s) and s[pos[0]] not in " ()":
            pos[0] += 1
        return s[st:pos[0]]
    return one()


def significant_tokens(tt):
    """(position, text) of the identifiers and literals of the invocation that are not pure syntax
    of the pattern language: not `_`, `await`, `move`, and not a tuple index (a literal next to `.`, `*` or `:`)."""
    out = []

    def walk(lst):
        for i, t in enumerate(lst):
            k = t[0]
            if k == "G":
                walk(t[5])
                continue
            prev = lst[i - 1] if i > 0 else None
            nxt = lst[i + 1] if i + 1 < len(lst) else None

            def punct(x, ch):
                return x is not None and x[0] == "P" and vlib.unhx(x[1]).decode() == ch
            if k == "I":
                text = vlib.unhx(t[1]).decode("utf-8", "replace")
                if text in ("_", "await", "move"):
                    continue
                out.append((t[2], text))
            elif k == "L":
                if t[3] in ("i", "f") and (punct(prev, ".") or punct(prev, "*") or punct(nxt, ":") or punct(nxt, ".")):
                    continue
                out.append((t[2], vlib.unhx(t[1]).decode("utf-8", "replace")))
    walk(sexp(tt))
    return out


def value_tokens_missing_from_expansion(r):
    """identifier / literal tokens of the ASSERTED EXPRESSION (everything before the first top-level comma) that do not occur, with
    their text and position, in the expansion: the value is spliced as written, so a token that is gone was dropped after parsing
    (an attribute in front of a parenthesised value, a stripped wrapper)"""
    if not r.exp_tokens or not r.tt:
        return []
    top = sexp(r.tt)
    cut = next((i for i, t in enumerate(top) if t[0] == "P" and vlib.unhx(t[1]).decode() == ","), None)
    if cut is None:
        return []
    missing = []

    def walk(lst):
        for t in lst:
            if t[0] == "G":
                walk(t[5])
            elif t[0] in ("I", "L"):
                if ("%s%s@%s" % (t[0], t[1], t[2])) not in r.exp_tokens:
                    missing.append("`%s` at %s" % (vlib.unhx(t[1]).decode("utf-8", "replace"), t[2]))
    total = []

    def count(lst):
        for t in lst:
            if t[0] == "G":
                count(t[5])
            elif t[0] in ("I", "L"):
                total.append(t)
    walk(top[:cut])
    count(top[:cut])
    if missing and len(missing) == len(total):
        return []       # the value is not in the expansion AT ALL: a pattern that asserts nothing expands to no code (C08's recorded finding), not a dropped token
    return missing


def dropped_tokens(r):
    """identifier / literal tokens of the input that are not tokens of the parsed value or pattern.  A token counts as
    present when it occurs as a token (text and position) of an expression, path, field name or literal of the tree, or
    is the string literal a regex node was made from.  (The position alone is not enough: a field-operation chain records
    the position of whatever token it started at.)"""
    import re
    have = r.real_value + " " + r.real_tree
    missing = []
    for pos, text in significant_tokens(r.tt):
        tokform = vlib.hx(text)[1:] + "@" + pos          # I<hex>@pos / L<hex>@pos
        if ("x" + tokform) in have:
            continue
        if text[:1] in ('"', "r") and re.search(r"\(regex \d+ x[0-9a-f]* " + re.escape(pos), have):
            continue
        if text.isdigit() and ("(unnamed %d " % int(text)) in have:
            continue        # a tuple index written as a field name: kept as a number, not as a token
        if re.fullmatch(r"\d+\.\d+", text) and all(("(unnamed %d " % int(x)) in have for x in text.split(".")):
            continue        # `.0.1` lexes as a float literal and becomes two tuple indices
        # syn re-spans the tokens of a NEGATIVE literal it parsed in pattern position inside a user expression (a closure parameter
        # `|-5| ..`): `-` and `5` both come back with the span of the whole `- 5`.  The token is there when the same text occurs in the
        # tree with a span that contains the written position
        ls, cs, le, ce = (int(x) for x in pos.split("."))
        hexed = vlib.hx(text)[1:]
        found = False
        for m in re.finditer(r"x" + re.escape(hexed) + r"@(\d+)\.(\d+)\.(\d+)\.(\d+)", have):
            a, b, c, d = (int(x) for x in m.groups())
            if (a, b) <= (ls, cs) and (le, ce) <= (c, d):
                found = True
                break
        if found:
            continue
        missing.append("`%s` at %s" % (text, pos))
    return missing


# ---- a second `..` in a slice: the macro accepts, rustc must reject ---------------------------

SLICE_PROGRAMS = [
    ("let v = vec![1, 2, 3];", "v", "[.., ..]"),
    ("let v = vec![1, 2, 3];", "v", "[_, .., _, ..]"),
    ("let v = vec![1, 2, 3];", "v", "[1, .., 2, .., 3]"),
    ("let v = vec![1, 2, 3];", "v", "[.., _, ..]"),
    ("let v = vec![1, 2, 3];", "v", "[.., .., ..]"),
    ("let v = vec![1, 2, 3];", "v", "[.., 3, ..]"),
    ("let v = Some(vec![1, 2, 3]);", "v", "Some([.., ..])"),
    ("let v = (vec![1, 2, 3], 1);", "v", "([_, .., ..], 1)"),
    ("let v = W { items: vec![1, 2, 3] };", "v", "W { items: [.., ..] }"),
    ("let v = W { items: vec![1, 2, 3] };", "v", "_ { items: [_, .., _, ..], .. }"),
    ("let v = vec![vec![1], vec![2]];", "v", "[[.., ..], ..]"),
    ("let v = vec![vec![1], vec![2]];", "v", "#([.., ..], ..)"),
    # the listed malformations under the REAL compiler, written so that the assertion would be well typed (and true) if the
    # offending tokens were dropped or ignored: a macro that stops looking at them compiles these (in-process, Span::join and the
    # fork / unexpected-token machinery behave differently from a stable rustc, so the in-process run alone is not enough)
    ("let v = P { x: 1, y: 2, z: 3 };", "v", "P { x: 1, .., y: 2 }"), ("let v = P { x: 1, y: 2, z: 3 };", "v", "P { x: 1, .., y: 2, z: 3 }"),
    ("let v = P { x: 1, y: 2, z: 3 };", "v", "_ { x: 1, .., y: 2 }"), ("let v = P { x: 1, y: 2, z: 3 };", "v", "_ { x: 1, .., y: 2, z: 3 }"),
    ("let v = P { x: 1, y: 2, z: 3 };", "v", "P { .., x: 1 }"), ("let v = P { x: 1, y: 2, z: 3 };", "v", "P { x: 1, .. y: 2 }"),
    ("let v = vec![1, 2, 3];", "v", "#(1, .., 2)"), ("let v = vec![1, 2, 3];", "v", "#(1, .., 2, 3)"), ("let v = vec![1, 2, 3];", "v", "#(.., 1)"),
    ("let v = BTreeMap::from([(\"a\", 1), (\"b\", 2)]);", "v", "#{ \"a\": 1, .., \"b\": 2 }"),
    ("let v = BTreeMap::from([(\"a\", 1), (\"b\", 2)]);", "v", "#{ .., \"a\": 1, \"b\": 2 }"),
    ("let v = Some(P { x: 1, y: 2, z: 3 });", "v", "Some(P { x: 1, .., y: 2 })"), ("let v = Some(P { x: 1, y: 2, z: 3 });", "v", "Some(P { x: 1, .., y: 2, z: 3 })"),
    ("let v = (P { x: 1, y: 2, z: 3 }, 1);", "v", "(P { x: 1, .., y: 2, z: 3 }, 1)"), ("let v: Result<Vec<i32>, ()> = Ok(vec![1, 2, 3]);", "v", "Ok(#(1, .., 2, 3))"),
    ("let v = (BTreeMap::from([(\"a\", 1), (\"b\", 2)]), 0);", "v", "(#{ \"a\": 1, .., \"b\": 2 }, 0)"),
    ("let v = vec![P { x: 1, y: 2, z: 3 }];", "v", "[P { x: 1, .., y: 2, z: 3 }]"), ("let v = W { items: vec![1, 2, 3] };", "v", "W { items: #(1, .., 2, 3) }"),
    ("let v = (1, 2);", "v", "(0: 1, 0: 2)"), ("let v = (1, 2);", "v", "(1: 2, 1)"), ("let v = Some(7);", "v", "Some(1: 7)"),
    ("let v = W { items: vec![1, 2, 3] };", "v", "W { items.get(0 7): Some(1), .. }"), ("let v = W { items: vec![1, 2, 3] };", "v", "W { items[0 7]: 1, .. }"),
]
SLICE_CONTROL = [
    ("let v = vec![1, 2, 3];", "v", "[1, .., 3]"),
    ("let v = vec![1, 2, 3];", "v", "[..]"),
    ("let v = vec![1, 2, 3];", "v", "[_, ..]"),
]


def slice_program(setup, value, pattern):
    return ("use assert_struct::assert_struct;\nuse std::collections::BTreeMap;\n#[derive(Debug)] struct W { items: Vec<i32> }\n#[derive(Debug)] struct P { x: i32, y: i32, z: i32 }\n"
            "fn main() { %s assert_struct!(%s, %s); }\n" % (setup, value, pattern))


def rustc_accepted_malformed(tag="c15m"):
    """the typed malformed programs (tokens after `..`, misplaced indices, leftover tokens in argument lists) that COMPILE under rustc"""
    typed = [p for p in SLICE_PROGRAMS if not (p[2].count("..") > 1 and "{" not in p[2] and "#" not in p[2] and "(" not in p[2].replace("Some(", "").replace("([", "["))]
    typed = [p for p in SLICE_PROGRAMS if p[2] in {q[2] for q in SLICE_PROGRAMS[12:]}]
    out = e2e.compile_many([slice_program(*p) for p in typed], run=False, tag=tag)
    e2e.cleanup(tag)
    return [p for p, o in zip(typed, out) if o["compiled"]], len(typed)


def run(res):
    res.trusted += ["Coq 8.16.1 kernel (coqc)", "extraction to OCaml (ExtrOcamlBasic only), ocaml/*.ml drivers",
                    "harness/mac (the macro's own sources, in-process, proc-macro2 fallback) and its oracle tables computed by the real syn",
                    "rustc as the judge of the lowered slice pattern (more than one `..`)",
                    "tools/patgen.py, tools/corrupt.py, tools/parsestage.py (generators: C15's malformations are malformed by construction)"]
    res.assumptions += ["token streams are those a Rust lexer produces (no None-delimited groups)",
                        "syn's expression / path / closure parsers are parameters of the model (any behaviour)"]
    vlib.build_coq()
    ths, rep = vlib.check_props("C15")
    res.obligations += ths
    res.discharged += ths
    res.coverage["print_assumptions"] = rep

    recs = parsestage.run_stage(res, res.tier, res.seed)
    name = "correspondence:front-end(outcome, error position, parsed tree, expansion)"
    res.obligations.append(name)
    dis = []
    failing = 0
    by_class = {}
    n_acc = 0
    n_sig = 0
    for r in recs:
        why = parsestage.agree(r)
        if why:
            dis.append((r, why))
        if r.cls:
            d = by_class.setdefault(r.cls, {"cases": 0, "rejected": 0})
            d["cases"] += 1
            if r.real_status in ("err", "lex"):
                d["rejected"] += 1
            elif r.real_status == "ok":
                failing += 1
                if failing <= 3:
                    res.violation("failing-input", "a malformed pattern (%s) is accepted by the macro" % r.cls,
                                  {"invocation": "assert_struct!(%s)" % r.text, "class": r.cls, "parsed_as": r.real_tree[:1500]})
        if r.real_status == "ok" and r.tt:
            vmiss = value_tokens_missing_from_expansion(r)
            if vmiss:
                failing += 1
                if failing <= 3:
                    res.violation("failing-input", "accepted, but tokens of the asserted expression are not part of the expansion (dropped after parsing): "
                                  + ", ".join(vmiss[:5]), {"invocation": "assert_struct!(%s)" % r.text, "origin": r.origin, "dropped": vmiss[:20]})
        if r.real_status == "ok" and r.tt:
            n_acc += 1
            miss = dropped_tokens(r)
            n_sig += len(significant_tokens(r.tt))
            if miss:
                failing += 1
                if failing <= 3:
                    res.violation("failing-input", "accepted, but tokens of the input are not part of the parsed pattern (silently dropped): "
                                  + ", ".join(miss[:5]),
                                  {"invocation": "assert_struct!(%s)" % r.text, "origin": r.origin, "dropped": miss[:20],
                                   "parsed_as": r.real_tree[:1500]})
    res.streams["malformed-by-construction"] = by_class
    res.streams["front-end"] = {"cases": len(recs), "by_origin": parsestage.stats(recs), "disagreements": len(dis),
                                "accepted_checked_for_dropped_tokens": n_acc, "identifier_and_literal_tokens_accounted_for": n_sig}
    res.obligations.append("direct:every-listed-malformation-rejected(%d cases)" % sum(d["cases"] for d in by_class.values()))
    res.obligations.append("direct:no-token-dropped(%d accepted invocations)" % n_acc)

    # more than one `..` in a slice: accepted by the macro, must be rejected by rustc
    progs = [slice_program(*p) for p in SLICE_PROGRAMS] + [slice_program(*p) for p in SLICE_CONTROL]
    out = e2e.compile_many(progs, run=False, tag="c15")
    accepted = []
    for p, o in zip(SLICE_PROGRAMS, out[:len(SLICE_PROGRAMS)]):
        if o["compiled"]:
            accepted.append(p)
    control_bad = [p for p, o in zip(SLICE_CONTROL, out[len(SLICE_PROGRAMS):]) if not o["compiled"]]
    e2e.cleanup("c15")
    res.streams["slice-with-two-rests(rustc)"] = {"programs": len(SLICE_PROGRAMS), "rejected": len(SLICE_PROGRAMS) - len(accepted),
                                                 "controls_compiled": len(SLICE_CONTROL) - len(control_bad)}
    res.obligations.append("direct:slice-with-more-than-one-rest-rejected(%d programs)" % len(SLICE_PROGRAMS))
    for p in accepted[:2]:
        failing += 1
        res.violation("failing-input", "a malformed pattern (%s) compiles under rustc: the offending tokens are reinterpreted or dropped instead of rejected"
                      % ("more than one `..` in a slice" if p[2].count("..") > 1 and "[" in p[2] and "{" not in p[2] and "#" not in p[2] else "tokens after `..`, an index that does not match its position, or leftover tokens in an argument list"),
                      {"program": slice_program(*p), "pattern": p[2]})
    if control_bad:
        raise vlib.CheckError("control programs with a single `..` do not compile: the e2e harness is broken: %s" % control_bad[:1])

    res.coverage.update({
        "evaluations": len(recs) + len(progs),
        "distinct_nontrivial": sum(d["cases"] for d in by_class.values()) + sum(1 for r in recs if r.origin.startswith(("corrupt", "truncation", "random"))),
        "rule": "the front-end corpus (see C13) with, in particular, every malformation the property names (11 classes, each fragment bare and embedded at a "
                "random position of random patterns of depth 1-3) which must all be rejected, and every single-token corruption / truncation / random stream, "
                "on which an accepted outcome must account for every identifier and literal token of the input; plus %d programs with more than one `..` in a "
                "slice pattern under rustc; non-trivial = malformed-by-construction cases and corrupted streams" % len(SLICE_PROGRAMS),
        "samples": [{"invocation": r.text, "class": r.cls, "outcome": r.real_status, "error_at": r.real_pos} for r in [x for x in recs if x.cls][::max(1, len([x for x in recs if x.cls]) // 5)][:5]],
    })
    if dis:
        if not failing:
            r, why = dis[0]
            res.violation("no-failing-input-found",
                          "correspondence front-end no longer checks: the real parser/expander and the model differ on %d of %d token streams "
                          "(the theorems of Props/C15.v are about the model)" % (len(dis), len(recs)),
                          {"stream": "front-end", "first_disagreement": {"invocation": r.text, "difference": why,
                                                                         "implementation": (r.real_status, r.real_pos, r.msg),
                                                                         "model": (r.model_status, r.model_pos)}})
    else:
        res.discharged.append(name)
    if not failing:
        res.discharged += [o for o in res.obligations if o.startswith("direct:")]


def replay(res, path):
    v = json.load(open(path))
    if "program" in v:
        out = e2e.compile_many([v["program"]], run=False, tag="c15r")
        e2e.cleanup("c15r")
        bad = out[0]["compiled"]
        print("replayed program:", "compiles (violation)" if bad else "rejected by rustc (property holds on this input)")
        if bad:
            res.violation("failing-input", "a slice pattern with more than one `..` compiles", {"program": v["program"]})
        return res.finish()
    inv = v.get("invocation") or v.get("first_disagreement", {}).get("invocation")
    if inv is None:
        print("replay file names a broken obligation:", v.get("what"))
        return 1
    text = inv[len("assert_struct!("):-1] if inv.startswith("assert_struct!(") else inv
    import maclib
    vlib.build_model_runner()
    maclib.build_mac()
    r = parsestage.run_texts([text])[0]
    bad = None
    if v.get("class") and r.real_status == "ok":
        bad = "malformed pattern (%s) accepted" % v["class"]
    elif r.real_status == "ok" and dropped_tokens(r):
        bad = "tokens dropped: " + ", ".join(dropped_tokens(r)[:5])
    print("replayed:", text, "->", r.real_status, r.real_pos or "", bad or "property holds on this input")
    if bad:
        res.violation("failing-input", bad, {"invocation": inv})
    return res.finish()
