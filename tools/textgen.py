"""Generators for source texts and positions (C04, C06)."""

ALPHABET = ["a", "b", "x", " ", " ", "\t", "{", ":", "\"", "é", "ß", "日", "本", "😀", "\r", "/"]


def rand_text(rng, max_lines=6, max_len=14):
    lines = []
    for _ in range(rng.randint(0, max_lines)):
        style = rng.random()
        n = rng.randint(0, max_len)
        if style < 0.25:
            chars = [rng.choice("abc x:{") for _ in range(n)]
        else:
            chars = [rng.choice(ALPHABET) for _ in range(n)]
        if rng.random() < 0.2:
            chars.append("\r")            # CR LF line ending
        lines.append("".join(chars))
    text = "\n".join(lines)
    if lines and rng.random() < 0.6:
        text += "\n"
    return text


def linecol(text, i):
    """What the compiler records for the character with index i: 1-based line,
    0-based column in characters (independent re-statement of proc_macro2::LineColumn)."""
    before = text[:i]
    line = 1 + before.count("\n")
    col = len(before) - (before.rfind("\n") + 1)
    return line, col


BOM = "\ufeff"


def strip_bom(text):
    """what the compiler sees of a file: a leading byte-order mark is dropped before positions are assigned"""
    return text[1:] if text.startswith(BOM) else text


def file_offset(text, i):
    """byte offset, in the file as it is read back, of the character the compiler calls number i"""
    seen = strip_bom(text)
    return len(text.encode("utf-8")) - len(seen.encode("utf-8")) + prefix_bytes(seen, i)


def prefix_bytes(text, i):
    return len(text[:i].encode("utf-8"))


def is_boundary(text, b):
    data = text.encode("utf-8")
    if b >= len(data):
        return True
    return (data[b] & 0xC0) != 0x80
