"""C11 — a pattern means the same in every position."""
import json

import e2e
import matrix
import semprops
import vlib

KNOWN_POS = {"wild_deref": "C11-wild-deref"}
# (target, form) -> known finding: the cell is rejected in some positions for the recorded reason
KNOWN_FORMS = {("str_ref", "str_eq"): "C11-eq-on-a-string-slice"}

# closure forms over values that are not Copy: where the asserted value is a PLACE handed over by value (the root expression, a
# field / index / deref chain) the closure call moves it and the later mention for the message is a use after move (E0382 /
# E0507) - the recorded finding C11-closure-by-value seen from its other side.  Everywhere else (destructured bindings, results
# of calls and methods, references) these forms must be accepted and give the same verdict as on a struct field.
CLOSURE_NC_FORMS = {("string", "closure_nc"), ("string", "closure_nc_move"), ("vec", "closure_vec"), ("struct", "closure_struct"), ("opt_string", "closure_opt")}
BY_VALUE_PLACES = {"root", "root_field_expr", "root_via_macro", "root_deref", "nested_field", "tuple_index_op", "index_op", "deref_op", "deref2_op",
                   "wild_nested", "wild_index"}

WITNESS_CLOSURE = {
    "id": "C11-closure-by-value",
    "what": "closure patterns receive the value expression by value: the parameter is T at the root / after field operations and &T "
            "under destructuring, so `|x| *x > 6` is accepted on a struct field and rejected at the root (and `|x| x > 6` the other way round)",
}


WITNESS_ITER = {
    "id": "C11-method-call-comparison-on-iterator",
    "what": "comparison patterns expand to a method call (`(value).eq(&x)`): on a root value whose type is itself an Iterator (a Range) "
            "Iterator::eq is found first, so `== (1..3)` is accepted on a struct field of type Range<i32> and rejected (E0277) as the root pattern",
    "decl": "#[derive(Debug)] struct RS { r: std::ops::Range<i32> }",
    "field": "let v = RS { r: 1..3 }; assert_struct!(v, RS { r: == (1..3) });",
    "root": "let v = 1..3; assert_struct!(v, == (1..3));",
}


def iter_programs():
    return [e2e.PRELUDE + WITNESS_ITER["decl"] + "\nfn main() { std::panic::set_hook(Box::new(|_| {})); run_case(\"c\", || { %s }); }\n" % WITNESS_ITER[k]
            for k in ("field", "root")]


def closure_cells():
    # the same closure text in the reference position and at the root
    return [("field", "|x| *x > 6"), ("root", "|x| *x > 6"), ("field", "|x| x > 6"), ("root", "|x| x > 6")]


def parser_half(res):
    """The theorems of Props/C11p.v are about Model/Parser.v: (1) its tie to the real parser is the front-end correspondence;
    (2) the statement itself is asked of the real parser (tools/posuniform.py): every root-accepted pattern wrapped in every
    context that holds a pattern must be accepted as the same tree up to ids and positions.  Returns the number of failing inputs."""
    import parsestage
    import posuniform
    name_u = "direct:a pattern accepted at the root is accepted, as the same tree, in every position (real parser, in-process)"
    res.obligations.append(name_u)
    acc, npats, njobs, by_ctx, fails = posuniform.run(res, res.tier, res.seed)
    res.streams["parser-positions"] = {"root_patterns": npats, "accepted_at_root": acc, "wrapped_invocations": njobs,
                                        "contexts": len(posuniform.CONTEXTS), "failures": len(fails),
                                        "by_context": {k: v for k, v in by_ctx.items() if v["failures"]} or "none failing"}
    for f in fails[:3]:
        res.violation("failing-input", "pattern `%s` is %s: position `%s`, invocation `%s`" % (f["pattern"], f["why"], f["context"], f["invocation"]),
                      {"posuniform": True, "pattern": f["pattern"], "context": f["context"], "invocation": f["invocation"]})
    if not fails:
        res.discharged.append(name_u)
    name_f = "correspondence:front-end(real parser == Model/Parser.v: outcome, error position, tree)"
    res.obligations.append(name_f)
    precs = parsestage.run_stage(res, res.tier, res.seed)
    pdis = [(r, parsestage.agree(r, with_expansion=False)) for r in precs if parsestage.agree(r, with_expansion=False)]
    res.streams["front-end"] = {"cases": len(precs), "accepted": sum(1 for r in precs if r.real_status == "ok"), "disagreements": len(pdis)}
    if pdis and not fails:
        r, why = pdis[0]
        res.violation("no-failing-input-found", "correspondence front-end no longer checks: the real parser and the model differ on %d of %d token "
                      "streams (the theorems of Props/C11p.v are about the model)" % (len(pdis), len(precs)),
                      {"first_disagreement": {"invocation": r.text, "difference": why}})
    if not pdis:
        res.discharged.append(name_f)
    return len(fails)


def run(res):
    res.trusted += ["Coq 8.16.1 kernel (coqc)", "extraction to OCaml (ExtrOcamlBasic only), ocaml/*.ml",
                    "Model/Sem.v (model of rustc's semantics for the templates) and Model/Modes.v (which uses rustc accepts in which "
                    "kind of position): compared with rustc on the matrix on every run, not proved",
                    "rustc; tools/matrix.py"]
    res.assumptions += ["acceptance half is PARTIAL: exhaustive at depth 1 (every form x every position) plus one depth-3 chain, "
                        "validated against rustc; deeper chains rest on the mode abstraction"]
    vlib.build_coq()
    ths, rep = vlib.check_props("C11")
    # parser half: the pattern parser is the same function with the same answer in every position (Props/C11p.v)
    ths2, rep2 = vlib.check_props("C11p")
    ths = ths + ths2
    rep = {"closed_under_global_context": rep["closed_under_global_context"] + rep2["closed_under_global_context"], "axioms": rep["axioms"] + rep2["axioms"]}
    res.obligations += ths
    res.discharged += ths
    res.coverage["print_assumptions"] = rep
    parser_half_bad = parser_half(res)
    kf = {f["id"] for f in vlib.load_known_findings()["findings"]}

    def compute():
        cells = list(matrix.cells(mismatches=True))
        if res.tier == "quick":
            # every matching cell, and the mismatching twin for every third form
            keep = []
            seen = {}
            only_mismatch = {(t, f) for t, (_, _, forms) in matrix.TARGETS.items() for f, pm, pn in forms if pm is None}
            for c in cells:
                k = (c[0], c[1])
                seen.setdefault(k, len(seen))
                if c[4] or seen[k] % 3 == 0 or k in only_mismatch:      # a form that can only fail on the target has no other cell
                    keep.append(c)
            cells = keep
        srcs = [matrix.program(t, pos, pat) for (t, f, pos, pat, m) in cells]
        out = e2e.compile_many(srcs, run=True, tag="c11")
        e2e.cleanup("c11")
        return [(c, matrix.outcome(o), o["stderr"][-700:] if not o["compiled"] else "") for c, o in zip(cells, out)]
    results = vlib.cached("matrix", [res.tier], compute)
    name = "correspondence:form x position matrix under rustc (acceptance and verdict uniform)"
    res.obligations.append(name)
    rows = {}
    for (t, f, pos, pat, m), oc, err in results:
        rows.setdefault((t, f, pat, m), {})[pos] = (oc, err)
    failing = 0
    known_hits = {}
    uniform_shift = []
    for key, row in rows.items():
        ref = row[matrix.REFERENCE][0]
        want = "pass" if key[3] else "fail"
        if ref != want:
            # the struct-field cell is not what it is on the tree the generator was validated on.  If every position agrees with it
            # the pattern still means the same everywhere (a change of meaning, not of uniformity: reported without a failing input
            # of C11's own); otherwise take a position that still gives the intended outcome as the reference
            others = {oc for pos, (oc, _) in row.items() if not (pos in KNOWN_POS and oc.startswith("reject"))}
            if len(others) == 1:
                uniform_shift.append((key, ref))
                continue
            if any(oc == want for oc, _ in row.values()):
                ref = want
        for pos, (oc, err) in row.items():
            if oc == ref:
                continue
            if pos in KNOWN_POS and KNOWN_POS[pos] in kf and oc.startswith("reject"):
                known_hits[KNOWN_POS[pos]] = known_hits.get(KNOWN_POS[pos], 0) + 1
                continue
            if ((key[0], key[1]) in CLOSURE_NC_FORMS and pos in BY_VALUE_PLACES and WITNESS_CLOSURE["id"] in kf
                    and (oc.startswith("reject:E0382") or oc.startswith("reject:E0507"))):
                known_hits["closure-moves-a-place"] = known_hits.get("closure-moves-a-place", 0) + 1
                continue
            if (key[0], key[1]) in KNOWN_FORMS and KNOWN_FORMS[(key[0], key[1])] in kf and oc.startswith("reject:E0277"):
                known_hits[KNOWN_FORMS[(key[0], key[1])]] = known_hits.get(KNOWN_FORMS[(key[0], key[1])], 0) + 1
                continue
            failing += 1
            if failing <= 3:
                res.violation("failing-input",
                              "pattern `%s` on a %s value is %s %s but %s in position `%s`"
                              % (key[2], key[0], ref, "as a struct field" if row[matrix.REFERENCE][0] == ref else "in position `%s`" % next(p for p, (o, _) in row.items() if o == ref), oc, pos),
                              {"target": key[0], "form": key[1], "pattern": key[2], "position": pos,
                               "reference_outcome": ref, "outcome": oc, "rustc": err,
                               "program": matrix.program(key[0], pos, key[2])})
    if uniform_shift and not failing:
        res.violation("no-failing-input-found", "correspondence form x position matrix: %d (value, pattern) pairs no longer give the outcome they give on the tree the "
                      "generator was validated on, in EVERY position alike (so no position disagrees with another), first: %s -> %s"
                      % (len(uniform_shift), uniform_shift[0][0], uniform_shift[0][1]), {"stream": "matrix", "pairs": [list(map(str, k)) for k, _ in uniform_shift[:10]]})
    if known_hits.get("C11-eq-on-a-string-slice"):
        res.known.append("`== \"literal\"` on a value of type &str is accepted where the value is a destructured binding (struct field, tuple / variant / slice "
                         "element) and rejected (E0277 `str: PartialEq<&str>`) as the root pattern and after a field operation: the generated method call "
                         "`(value).eq(&(\"literal\"))` finds `str`'s impl first when the receiver is `&str` itself (%d matrix cells)" % known_hits["C11-eq-on-a-string-slice"])
    if known_hits.get("C11-wild-deref"):
        res.known.append("`*field` inside a wildcard struct dereferences one level more than in a named struct: `_ { *bx: 7, .. }` on "
                         "Box<i32> is rejected (E0614) where `W { *bx: 7, .. }` is accepted (%d matrix cells)" % known_hits["C11-wild-deref"])
    res.streams["closure_forms_over_noncopy_values"] = {"cells_rejected_where_a_place_is_handed_over_by_value (the recorded finding C11-closure-by-value)": known_hits.get("closure-moves-a-place", 0)}
    # closures: known finding, replayed
    srcs = [matrix.program("i32", pos, pat) for pos, pat in closure_cells()]
    out = e2e.compile_many(srcs, run=True, tag="c11c")
    e2e.cleanup("c11c")
    oc = [matrix.outcome(o) for o in out]
    res.streams["closure_witness"] = dict(zip(["field:*x", "root:*x", "field:x", "root:x"], oc))
    if oc[0] != oc[1] or oc[2] != oc[3]:
        if WITNESS_CLOSURE["id"] in kf:
            res.known.append(WITNESS_CLOSURE["what"])
        else:
            failing += 1
            res.violation("failing-input", WITNESS_CLOSURE["what"], {"outcomes": res.streams["closure_witness"]})
    # comparison on an iterator-typed root value: known finding, replayed
    out = e2e.compile_many(iter_programs(), run=True, tag="c11i")
    e2e.cleanup("c11i")
    oi = [matrix.outcome(o) for o in out]
    res.streams["iterator_comparison_witness"] = {"field": oi[0], "root": oi[1]}
    if oi[0] != "pass":
        raise vlib.CheckError("the reference program of the iterator-comparison witness does not pass: %s" % oi[0])
    if oi[1] != oi[0]:
        if WITNESS_ITER["id"] in kf and oi[1].startswith("reject"):
            res.known.append(WITNESS_ITER["what"])
        else:
            failing += 1
            res.violation("failing-input", WITNESS_ITER["what"] + " (now: %s)" % oi[1], {"program": iter_programs()[1], "outcomes": oi})
    res.streams["matrix"] = {"cells": len(results), "rows": len(rows), "positions": len(matrix.POSITIONS),
                             "non_uniform_cells": failing, "known_finding_cells": sum(known_hits.values()),
                             "outcomes": {k: sum(1 for r in results if r[1].split(":")[0] == k) for k in ("pass", "fail", "reject", "crash")}}
    if not failing:
        res.discharged.append(name)
    failing += parser_half_bad
    res.coverage.update({
        "evaluations": len(results), "distinct_nontrivial": sum(1 for r in results if r[0][2] != matrix.REFERENCE),
        "rule": "every pattern form (by target type: integers, strings, Option, tuples incl. non-Copy parts, Vec, map, struct, enum) in every "
                "position a pattern can occupy (%d positions: root by value / by reference / place / temporary / deref, named and wildcard "
                "field, tuple and variant elements, Some/Ok/Err, slice, set, map value, and after nested-field, tuple-index, index, deref, "
                "method-by-value and method-by-reference operations, depth 3), matching and non-matching values, each cell one program "
                "compiled by rustc and run; non-trivial = cells outside the reference position" % len(matrix.POSITIONS),
        "samples": [{"target": r[0][0], "form": r[0][1], "position": r[0][2], "pattern": r[0][3], "outcome": r[1]} for r in results[40:43]],
    })


def replay(res, path):
    v = json.load(open(path))
    if v.get("posuniform"):
        import posuniform
        return posuniform.replay(v)
    if "program" not in v:
        print("no program in replay file")
        return 1
    out = e2e.compile_many([v["program"], matrix.program(v["target"], matrix.REFERENCE, v["pattern"])], run=True, tag="c11r")
    e2e.cleanup("c11r")
    a, b = matrix.outcome(out[0]), matrix.outcome(out[1])
    print("position %s: %s   reference: %s" % (v["position"], a, b))
    return 1 if a != b else 0
