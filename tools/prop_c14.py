"""C14 — accepted input yields a well-formed, reproducible expansion."""
import json
import random

import expstage
import maclib
import vlib

FIXED_REJECTED = ["v, S { a: }", "v, Some(_ { value: 42 })", "v, Some(>)", "v, E::V(0: 1, 0: 2)", "v, (1, _ { a: 1 })",
                  "v, [1, =]", "v, #(1, .., 2)", "v, S { a: 1 } extra", "v, E::T(0.len(: 1)", "v, (*x: 1)"]
FIXED = ["v, S { .. }", "v, E::V { .. }", "v, [1, .., 2]", "v, [..]", "v, m::S { a: _ { .. }, .. }",
         "S { a: 1 }, S { a: 1 }", "S { a: 1 }.a, 0..=2", "S { a: 1 }, E::V(1)", "S { a: 1 }, (1, 2)", "if c { S { a: 1 } } else { t }, S { a: 1 }"]

# every syntactic form of asserted expression under every template that uses it, judged by rustc: the expansion must at least
# PARSE wherever the pieces are spliced (a struct literal is not allowed as a bare match scrutinee, a block-like expression not as
# a method receiver statement, ...).  Every assertion is well typed and true, so any compile error is reported.
RUSTC_DECLS = """
#[derive(Debug, Clone, PartialEq)] struct P { a: i32, s: String }
#[derive(Debug, Clone, PartialEq)] enum EV { V(i32), U }
fn mkp() -> P { P { a: 1, s: "x".to_string() } }
"""
INT_VALUES = ["P { a: 1, s: String::new() }.a", "if c { 1 } else { 2 }", "{ 1 }", "match c { true => 1, false => 2 }", "-m", "-m as i32", "(|| 1)()",
              "loop { break 1 }", "unsafe { 1 }", "mkp().a", "[1, 2][0]", "(1, 2).0", "*&1", "1 + 0", "{ let cl_t = P { a: 1, s: String::new() }; cl_t }.a"]
INT_PATTERNS = ["1", "== 1", "!= 2", "0..=2", "> 0", "|cl_x| cl_x > 0", "_"]
TYPED = [
    ("P { a: 1, s: \"x\".to_string() }", ["P { a: 1, s: \"x\" }", "P { a: > 0, .. }", "_ { a: 1, .. }", "P { s.len(): 1, .. }", "_"]),
    ("if c { mkp() } else { mkp() }", ["P { a: 1, .. }", "_ { s: \"x\", .. }"]),
    ("(P { a: 1, s: String::new() }, 2)", ["(P { a: 1, .. }, 2)", "(_, > 1)", "(0: P { a: 1, .. }, 1: 2)"]),
    ("Some(P { a: 1, s: String::new() })", ["Some(P { a: 1, .. })", "Some(_)"]),
    ("EV::V(1)", ["EV::V(1)", "EV::V(> 0)"]), ("if c { EV::U } else { EV::V(1) }", ["EV::U"]),
    ("vec![P { a: 1, s: String::new() }]", ["[P { a: 1, .. }]", "#(P { a: 1, .. })", "[..]", "#(..)"]),
    ("if c { vec![1, 2] } else { vec![] }", ["[1, 2]", "#(2, 1)", "[1, ..]"]),
    ("std::collections::BTreeMap::from([(\"k\".to_string(), P { a: 1, s: String::new() })])", ["#{ \"k\": P { a: 1, .. } }", "#{ .. }"]),
    ("P { a: 1, s: \"xy\".to_string() }.s", ["\"xy\"", "== \"xy\"", "=~ r\"^x\""]),
    ("if c { \"xy\".to_string() } else { String::new() }", ["\"xy\"", "=~ r\"y$\""]),
]


def rustc_value_forms(res):
    import e2e
    cases = [(v, p) for v in INT_VALUES for p in INT_PATTERNS] + [(v, p) for v, ps in TYPED for p in ps]
    progs = []
    for v, p in cases:
        progs.append("use assert_struct::assert_struct;\n" + RUSTC_DECLS +
                     "#[allow(unused, clippy::all)] fn main() { let c = true; let m = -1; assert_struct!(%s, %s); }\n" % (v, p))
    # the same value expressions handed over by a caller's macro_rules! helper as an `$v:expr` fragment (it reaches the macro as
    # ONE invisibly delimited group, which rustc drops again when it re-parses the expansion: a template that treats a single
    # token tree as atomic splices the fragment bare)
    direct = len(progs)
    for v, p in cases:
        progs.append("use assert_struct::assert_struct;\n" + RUSTC_DECLS +
                     "macro_rules! check_it { ($v:expr) => { assert_struct!($v, %s) }; }\n"
                     "#[allow(unused, clippy::all)] fn main() { let c = true; let m = -1; check_it!(%s); }\n" % (p, v))
    cases = cases + [(v + "   [as the $v:expr fragment of a macro_rules! helper]", p) for v, p in cases]
    out = e2e.compile_many(progs, run=True, tag="c14v")
    e2e.cleanup("c14v")
    bad = 0
    for (v, p), o, src in zip(cases, out, progs):
        if o["compiled"] and o.get("exit", 0) == 0:
            continue
        bad += 1
        if bad <= 3:
            first = next((l for l in o["stderr"].splitlines() if l.startswith("error")), o["stderr"][:200]) if not o["compiled"] else "the true assertion failed at run time"
            res.violation("failing-input", "`assert_struct!(%s, %s)` is accepted by the macro but its expansion is rejected by rustc: %s" % (v, p, first[:300]),
                          {"program": src, "stderr": o["stderr"][-1500:]})
    res.streams["value-expression-forms(rustc)"] = {"programs": len(cases), "rejected_or_failed": bad}
    return bad


# patterns stamped out by a caller's macro_rules! repetition: the tokens of sibling sub-patterns are then THE SAME tokens of the
# helper's body (same spans, same line and column), which never happens in a hand-written pattern.  Every node must still be
# defined exactly once and referred to by its own name.  (helper definition, call that passes, call that fails)
REPEATED = [
    ("wildcard struct, one comparison per listed field",
     "($v:expr, $($f:ident),+) => { assert_struct!($v, _ { $($f: > 0,)+ .. }) }", "R3 { a: 1, b: 2, c: 3 }, a, b, c", "R3 { a: 1, b: 0, c: 0 }, a, b, c"),
    ("named struct, one range per listed field",
     "($v:expr, $($f:ident),+) => { assert_struct!($v, R3 { $($f: 1..=9,)+ }) }", "R3 { a: 1, b: 2, c: 3 }, a, b, c", "R3 { a: 1, b: 0, c: 0 }, a, b, c"),
    ("named struct, one closure per listed field",
     "($v:expr, $($f:ident),+) => { assert_struct!($v, R3 { $($f: |cl_x| *cl_x > 0,)+ .. }) }", "R3 { a: 1, b: 2, c: 3 }, a, b", "R3 { a: 1, b: 0, c: 0 }, b, c"),
    ("nested: Some(_ { f: == e, .. }) per pair",
     "($v:expr, $($f:ident = $e:expr),+) => { assert_struct!($v, Some(_ { $($f: == $e,)+ .. })) }", "Some(R3 { a: 1, b: 2, c: 3 }), a = 1, b = 2, c = 3", "Some(R3 { a: 1, b: 2, c: 3 }), a = 1, b = 3, c = 4"),
    ("slice, one `== e` per element",
     "($v:expr, $($e:expr),+) => { assert_struct!($v, [ $(== $e,)+ ]) }", "vec![1, 2, 3], 1, 2, 3", "vec![1, 2, 3], 1, 3, 2"),
    ("slice, one nested struct pattern per element",
     "($v:expr, $($e:expr),+) => { assert_struct!($v, [ $(R3 { a: == $e, .. },)+ ]) }", "vec![R3 { a: 1, b: 0, c: 0 }, R3 { a: 2, b: 0, c: 0 }], 1, 2", "vec![R3 { a: 1, b: 0, c: 0 }, R3 { a: 2, b: 0, c: 0 }], 2, 1"),
    ("set, one `== e` per element",
     "($v:expr, $($e:expr),+) => { assert_struct!($v, #( $(== $e),+ )) }", "vec![1, 2, 3], 3, 1, 2", "vec![1, 2, 3], 3, 3, 2"),
    ("set with rest, one comparison per element",
     "($v:expr, $($e:expr),+) => { assert_struct!($v, #( $(> $e,)+ .. )) }", "vec![1, 2, 3], 0, 1", "vec![1, 2, 3], 2, 2"),
    ("tuple, one indexed element per index",
     "($v:expr, $($i:tt),+) => { assert_struct!($v, ( $($i: > 0,)+ )) }", "(1, 2, 3), 0, 1, 2", "(1, 0, 0), 0, 1, 2"),
    ("tuple variant, one string pattern per argument",
     "($v:expr, $($e:expr),+) => { assert_struct!($v, RV::T( $(== $e),+ )) }", "RV::T(1, 2), 1, 2", "RV::T(1, 2), 2, 1"),
    ("map, one value comparison per bound (the key is written in the helper: a key token from the caller's context is O17 again)",
     "($v:expr, $($e:expr),+) => { assert_struct!($v, #{ $(\"x\": >= $e,)+ .. }) }", "rmap(), 0, 1", "rmap(), 1, 2"),
    ("regex per listed field",
     "($v:expr, $($f:ident),+) => { assert_struct!($v, _ { $($f: =~ r\"^h\",)+ .. }) }", "RS { s: \"hi\".into(), t: \"ho\".into() }, s, t", "RS { s: \"hi\".into(), t: \"no\".into() }, t, s"),
    ("string literal per listed field",
     "($v:expr, $($f:ident),+) => { assert_struct!($v, _ { $($f: \"hi\",)+ .. }) }", "RS { s: \"hi\".into(), t: \"hi\".into() }, s, t", "RS { s: \"hi\".into(), t: \"no\".into() }, s, t"),
    # (a sub-pattern handed over by the CALLER of the helper is not tried: pattern tokens from another hygiene context than the
    # invocation's do not see the expansion's own locals at all, observation O17 of DESIGN.md, no property states otherwise)
    ("two levels of repetition",
     "($v:expr, $([$($e:expr),+]),+) => { assert_struct!($v, [ $([ $(== $e),+ ]),+ ]) }", "vec![vec![1, 2], vec![3, 4]], [1, 2], [3, 4]", "vec![vec![1, 2], vec![3, 4]], [1, 2], [4, 3]"),
]
REPEATED_DECLS = """
#[derive(Debug, Clone, PartialEq)] struct R3 { a: i32, b: i32, c: i32 }
#[derive(Debug, Clone, PartialEq)] struct RS { s: String, t: String }
#[derive(Debug, Clone, PartialEq)] enum RV { T(i32, i32) }
fn rmap() -> std::collections::BTreeMap<String, i32> { std::collections::BTreeMap::from([("x".to_string(), 1), ("y".to_string(), 2), ("z".to_string(), 0)]) }
"""


def repeated_program(helper, ok_call, bad_call):
    return ("use assert_struct::assert_struct;\n" + REPEATED_DECLS + "macro_rules! stamped { %s; }\n" % helper +
            "#[allow(unused, clippy::all)] fn main() { std::panic::set_hook(Box::new(|_| {})); stamped!(%s);\n"
            "  let r = std::panic::catch_unwind(|| { stamped!(%s); }); if r.is_ok() { std::process::exit(3); } }\n" % (ok_call, bad_call))


def rustc_repeated_patterns(res):
    import e2e
    progs = [repeated_program(h, a, b) for _, h, a, b in REPEATED]
    out = e2e.compile_many(progs, run=True, tag="c14m")
    e2e.cleanup("c14m")
    bad = 0
    for (d, h, a, b), o, src in zip(REPEATED, out, progs):
        if o["compiled"] and o.get("exit", 0) == 0:
            continue
        bad += 1
        if bad <= 3:
            if not o["compiled"]:
                first = next((l for l in o["stderr"].splitlines() if l.startswith("error")), o["stderr"][:200])
                why = "is accepted by the macro but its expansion is rejected by rustc: " + first[:300]
            else:
                why = "gives the wrong verdict (exit %s: 101 = the true assertion failed, 3 = the false one passed)" % o.get("exit")
            res.violation("failing-input", "a pattern stamped out by a macro_rules! repetition (%s: `%s`) %s" % (d, h, why),
                          {"program": src, "stderr": o["stderr"][-1500:]})
    res.streams["patterns-from-macro-repetitions(rustc)"] = {"programs": len(progs), "rejected_or_wrong": bad}
    return bad


def run(res):
    res.trusted += ["Coq 8.16.1 kernel (coqc)", "extraction to OCaml (ExtrOcamlBasic only), ocaml/conv.ml, ocaml/irconv.ml, ocaml/main.ml",
                    "harness/mac: the macro crate's own parse.rs/pattern*/expand* compiled as a binary with a shim root, "
                    "proc-macro2's fallback implementation instead of the compiler's (spans of literals that quote! parses at "
                    "run time are normalised to the call site; Span::join succeeds there and not under a stable rustc)",
                    "syn as the judge of `syntactically valid Rust` (the expansion must parse as an expression)",
                    "tools/patgen.py (pattern generator), tools/expstage.py (read-back oracle)"]
    res.assumptions += ["the Pattern tree given to the model is the one the real parser produced (serialised by harness/mac/src/ser.rs)"]
    vlib.build_coq()
    ths, rep = vlib.check_props("C14")
    res.obligations += ths
    res.discharged += ths
    res.coverage["print_assumptions"] = rep
    # the streams that need nothing but the real compiler come first: they are judged even when the in-process harness no longer
    # builds against /repo
    name_v = "direct:every form of asserted expression under every template compiles (rustc)"
    res.obligations.append(name_v)
    vbad = rustc_value_forms(res)
    if not vbad:
        res.discharged.append(name_v)
    name_m = "direct:patterns stamped out by macro_rules! repetitions (sibling sub-patterns made of the same tokens) compile and run (rustc)"
    res.obligations.append(name_m)
    mbad = rustc_repeated_patterns(res)
    if not mbad:
        res.discharged.append(name_m)
    recs = expstage.run_stage(res, res.tier, res.seed, FIXED)
    name = "correspondence:expander(token-exact expansion, node table)"
    res.obligations.append(name)
    dis = expstage.correspondence(res, recs)
    # property oracle on what the implementation produced, independent of the model
    failing = 0
    nontrivial = 0
    for r in recs:
        if r.status != "ok":
            continue
        probs = expstage.check_tree(r)
        if r.node is not None and len(list(r.node.walk())) >= 3:
            nontrivial += 1
        if probs:
            failing += 1
            if failing <= 3:
                res.violation("failing-input", "accepted invocation with a malformed expansion: " + "; ".join(probs[:3]),
                              {"invocation": r.text, "problems": probs[:10]})
    # history independence: the same invocation expanded first in a fresh process
    rng = random.Random(res.seed + 77)
    oks = [r for r in recs if r.status == "ok"]
    sample = rng.sample(oks, min(len(oks), 30 if res.tier == "quick" else 300))
    hist_bad = 0
    for r in sample:
        alone = maclib.run_mac([r.text])[0].split("\t")
        if alone[0] != "ok" or alone[4] != r.tokens:
            hist_bad += 1
            if hist_bad <= 2:
                res.violation("failing-input", "the expansion depends on which invocations were expanded before it",
                              {"invocation": r.text, "after_history": expstage.maclib.text_of_tokens(r.tokens)[:2000],
                               "alone": expstage.maclib.text_of_tokens(alone[4])[:2000] if alone[0] == "ok" else alone[0]})
    # rejected invocations interleaved: single-edit corruptions of corpus patterns (most are rejected, at
    # every stage of parsing, including inside speculative look-ahead), each followed by a valid invocation
    # whose expansion must be what it was under the other history
    import corrupt
    withnode = [r for r in oks if r.node is not None and "poff" in r.node.info]
    srcs = rng.sample(withnode, min(len(withnode), 120 if res.tier == "quick" else 1200))
    rejected = FIXED_REJECTED[:]
    for r in srcs:
        pat = r.text[r.node.info["poff"]:]
        for kind, new in corrupt.corruptions(pat, rng, 2):
            rejected.append("v, " + new)
    inter = []
    followers = []
    for k, bad_inv in enumerate(rejected):
        f = oks[(k * 7) % len(oks)]
        inter += [bad_inv, f.text]
        followers.append(f)
    out = maclib.run_mac(inter)
    n_rej = 0
    for k, f in enumerate(followers):
        prev = out[2 * k].split("\t")[0]
        n_rej += prev != "ok"
        g = out[2 * k + 1].split("\t")
        if g[0] != "ok" or g[4] != f.tokens:
            hist_bad += 1
            if hist_bad <= 3:
                res.violation("failing-input", "the expansion of a valid invocation changed after a rejected invocation was "
                              "expanded on the same thread (%s)" % ("now " + g[0] if g[0] != "ok" else "different tokens"),
                              {"invocation": inter[2 * k + 1], "previous_invocation": inter[2 * k], "previous_outcome": prev,
                               "difference": maclib.first_diff(f.tokens, g[4]) if g[0] == "ok" else g[1][:300]})
    res.streams["history"] = {"fresh_process_comparisons": len(sample), "after_corrupted_invocations": len(followers),
                              "of_which_rejected": n_rej, "differences": hist_bad}
    failing += vbad + mbad
    expstage.report_disagreement(res, name, dis, failing > 0 or hist_bad > 0)
    if not dis and not failing and not hist_bad:
        res.discharged.append(name)
    # the ids: the theorems of the second half of Props/C14.v are about Parser.v; its tie is the front-end stage
    # (real parser vs extracted model, whole tree with node ids, and the expansion printed from the MODEL's tree)
    import parsestage
    name2 = "correspondence:front-end(parsed tree with node ids, expansion from the model's own parse)"
    res.obligations.append(name2)
    precs = parsestage.run_stage(res, res.tier, res.seed)
    pdis = [(r, parsestage.agree(r)) for r in precs if parsestage.agree(r)]
    dup_ids = 0
    for r in precs:
        if r.real_status == "ok":
            import re as _re
            ids = [int(x) for x in _re.findall(r"\((?:simple|string|cmp|range|regex|like|wild|closure|struct|enum|tuple|slice|set|map) (\d+) ", r.real_tree)]
            if len(ids) != len(set(ids)):
                dup_ids += 1
                if dup_ids <= 2:
                    res.violation("failing-input", "two nodes of one parsed pattern carry the same id", {"invocation": r.text, "ids": ids[:40]})
    res.streams["front-end"] = {"cases": len(precs), "accepted": sum(1 for r in precs if r.real_status == "ok"),
                                "disagreements": len(pdis), "trees_with_duplicate_ids": dup_ids}
    if pdis and not (failing or hist_bad or dup_ids):
        r, why = pdis[0]
        res.violation("no-failing-input-found", "correspondence front-end no longer checks: the real parser/expander and the model differ on %d of %d "
                      "token streams" % (len(pdis), len(precs)), {"first_disagreement": {"invocation": r.text, "difference": why}})
    if not pdis and not dup_ids:
        res.discharged.append(name2)
    st = res.streams["expander"]
    res.coverage.update({
        "evaluations": st["cases"], "distinct_nontrivial": nontrivial,
        "rule": "every pattern kind in every parent kind with every field-operation kind and both rest settings (exhaustive depth 2) "
                "plus seeded random compositions to depth 6 under six layouts; each accepted invocation: real expansion == model "
                "expansion token by token (text, spacing, span), expansion parses as Rust, node table read back from the real "
                "expansion == written pattern (kinds, child order, parent links, rest flags), references defined exactly once; "
                "non-trivial = at least 3 pattern nodes",
        "samples": [{"invocation": r.text, "status": r.status, "tokens": len(r.tokens.split(" ")) if r.tokens else 0}
                    for r in recs[5:9]],
    })


def replay(res, path):
    v = json.load(open(path))
    if "program" in v:
        import e2e
        o = e2e.compile_many([v["program"]], run=True, tag="c14r")[0]
        e2e.cleanup("c14r")
        bad = not o["compiled"] or o.get("exit", 0) != 0
        print("the program", "is rejected by rustc or fails (violation)" if bad else "compiles and passes: property holds on this input")
        return 1 if bad else 0
    inv = v.get("invocation") or v.get("first_disagreement", {}).get("invocation")
    ok, out = maclib.build_mac()
    if not ok:
        raise vlib.CheckError(out[-1500:])
    m = maclib.run_mac([inv])[0].split("\t")
    print("status:", m[0])
    if m[0] != "ok":
        return 0
    bad = m[3] != "valid=1"
    print("expansion parses as Rust:", not bad)
    return 1 if bad else 0
