"""expstage.py — the shared expander stage: the generated pattern corpus run through
the macro's real parser + expander (in-process, harness/mac) and through the
extracted Coq model of the expander; token-exact comparison."""
import json
import random

import maclib
import patgen
import vlib


class Rec:
    __slots__ = ("text", "node", "layout", "status", "value", "tree", "valid", "tokens", "readback", "model", "raw")


def run_stage(res, tier, seed, extra_invocations=None):
    """Builds both sides, runs the corpus.  Returns the list of Rec."""
    vlib.build_model_runner()
    ok, out = maclib.build_mac()
    if not ok:
        raise vlib.CheckError("harness mac does not build against /repo/assert-struct-macros/src "
                              "(treated as a broken correspondence): " + out[-1500:])
    rng = random.Random(seed * 1000003 + 14)
    corp = patgen.corpus(rng, tier)
    if extra_invocations:
        corp = [(t, None, "fixed") for t in extra_invocations] + corp
    mac = maclib.run_mac([c[0] for c in corp])
    mod = maclib.model_expand(mac)
    recs = []
    for (text, node, lay), m, o in zip(corp, mac, mod):
        r = Rec()
        r.text, r.node, r.layout, r.raw = text, node, lay, m
        f = m.split("\t")
        r.status = f[0]
        r.value = r.tree = r.tokens = r.readback = None
        r.valid = False
        if f[0] == "ok":
            r.value, r.tree, r.valid, r.tokens = f[1], f[2], f[3] == "valid=1", f[4]
            try:
                r.readback = json.loads(f[5])
            except Exception:
                r.readback = {"parse": False}
        r.model = o
        recs.append(r)
    return recs


def correspondence(res, recs, name="expander"):
    """Token-exact comparison of the whole expansion.  Returns the list of disagreeing recs."""
    dis = []
    kinds = {}
    for r in recs:
        if r.status == "ok" and r.tokens != r.model:
            dis.append(r)
        if r.node is not None:
            for n in r.node.walk():
                kinds[n.kind] = kinds.get(n.kind, 0) + 1
    st = {"cases": len(recs), "accepted": sum(1 for r in recs if r.status == "ok"),
          "rejected": sum(1 for r in recs if r.status == "err"),
          "panicked": sum(1 for r in recs if r.status == "panic"),
          "token_disagreements": len(dis),
          "tokens_compared": sum(len(r.tokens.split(" ")) for r in recs if r.status == "ok"),
          "pattern_nodes_by_kind": kinds,
          "layouts": {l: sum(1 for r in recs if r.layout == l) for l in set(r.layout for r in recs)}}
    res.streams[name] = st
    return dis


def report_disagreement(res, name, dis, failing_found):
    """A broken correspondence with no failing input found is still a violation."""
    if dis and not failing_found:
        r = dis[0]
        res.violation("no-failing-input-found",
                      "correspondence %s no longer checks: the real expansion and the model's differ on %d invocations"
                      % (name, len(dis)),
                      {"stream": name, "first_disagreement": {"invocation": r.text, "difference": maclib.first_diff(r.tokens, r.model)}})


# ---------------------------------------------------------------- oracles ---

KIND_MAP = {"simple": "Simple", "string": "Simple", "cmp": "Comparison", "range": "Range", "regex": "Regex",
            "like": "Like", "wild": "Wildcard", "closure": "Closure", "unit": "EnumVariant", "enum": "EnumVariant",
            "struct": "Struct", "wstruct": "Struct", "tuple": "Tuple", "slice": "Slice", "set": "Set", "map": "Map"}
OPS = {"<": "Less", "<=": "LessEqual", ">": "Greater", ">=": "GreaterEqual", "==": "Equal", "!=": "NotEqual"}


def static_table(rb):
    tab = {}
    dup = []
    for s in rb.get("statics", []):
        if s["id"] in tab:
            dup.append(s["id"])
        tab[s["id"]] = s["def"]
    return tab, dup


def kind_name(defn):
    k = defn["kind"]
    return k if isinstance(k, str) else k["_"]


def parent_of(defn):
    p = defn["parent"]
    if p == "None":
        return None
    return p["args"][0]


def child_ids(defn):
    k = defn["kind"]
    if isinstance(k, str):
        return []
    n = k["_"]
    if n in ("Slice", "Set", "Tuple"):
        return list(k["items"])
    if n in ("Map",):
        return [e[1] for e in k["entries"]]
    if n == "Struct":
        return [e[1] for e in k["fields"]]
    if n == "EnumVariant":
        a = k["args"]
        return [] if a == "None" else list(a["args"][0])
    return []


def check_tree(rec):
    """Compare the node table read back from the real expansion with the pattern as the
    generator wrote it.  Returns a list of problems (strings)."""
    rb = rec.readback
    probs = []
    if not rec.valid or not rb.get("parse"):
        return ["the expansion is not syntactically valid Rust"]
    tab, dup = static_table(rb)
    if dup:
        probs.append("node ids defined more than once: %s" % dup)
    for r in rb["refs"]:
        if r not in tab:
            probs.append("assertion code refers to undefined node %s" % r)
    if rb["root"] not in tab:
        probs.append("pattern tree root %s undefined" % rb["root"])
        return probs
    if rec.node is None:
        return probs
    seen = set()

    def go(node, nid, parent):
        if nid not in tab:
            probs.append("node %s (%s) undefined" % (nid, node.kind))
            return
        seen.add(nid)
        d = tab[nid]
        kn = kind_name(d)
        if kn != KIND_MAP[node.kind]:
            probs.append("node %s: kind %s for a written %s pattern" % (nid, kn, node.kind))
            return
        if parent_of(d) != parent:
            probs.append("node %s: parent link %s, written parent %s" % (nid, parent_of(d), parent))
        kids = node.children()
        k = d["kind"]
        if node.kind in ("struct", "wstruct", "slice", "set", "map"):
            if k["rest"] != bool(node.info["rest"]):
                probs.append("node %s (%s): rest flag %s, written %s" % (nid, node.kind, k["rest"], node.info["rest"]))
        if node.kind == "cmp" and k["op"] != OPS[node.info["op"]]:
            probs.append("node %s: operator %s, written %s" % (nid, k["op"], node.info["op"]))
        if node.kind in ("unit",) and k["args"] != "None":
            probs.append("node %s: unit variant recorded with arguments" % nid)
        if node.kind == "enum" and k["args"] == "None":
            probs.append("node %s: tuple variant recorded without arguments" % nid)
        ids = child_ids(d)
        if len(ids) != len(kids):
            probs.append("node %s (%s): %d children recorded, %d written" % (nid, node.kind, len(ids), len(kids)))
            return
        for c, cid in zip(kids, ids):
            go(c, cid, nid)
        # source position: inside the node's own text
        if node.extent and d["line_start"] > 0:
            pass

    go(rec.node, rb["root"], None)
    extra = set(tab) - seen
    if extra:
        probs.append("nodes defined but not part of the tree: %s" % sorted(extra))
    return probs
