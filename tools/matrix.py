"""matrix.py — the form x position matrix: the same (value, pattern) wrapped in every
position a pattern may occupy, each cell one program compiled by the real rustc with
the real macro (and run).  Used by C11 (same acceptance and verdict everywhere),
C09 (the value is still usable afterwards) and C20 (type faults)."""
import e2e

COMMON = r'''
#[derive(Debug, Clone, PartialEq)] struct Leaf { n: i32, s: String }
#[derive(Debug, Clone, PartialEq)] enum Kind { Unit, Other, Tup(i32, String), Rec { a: i32, b: String } }
#[derive(Debug, Clone, PartialEq)] struct NC(String);     // not Copy
#[derive(Debug, Clone)] struct NoEq(i32);                  // neither PartialEq nor PartialOrd
#[derive(Debug, Clone, PartialEq)] struct TP { pair: ((i32, i32), i32) }
#[derive(Debug, Clone, PartialEq)] struct Dom(&'static str);
#[derive(Debug, Clone, PartialEq)] struct Em(String);
impl assert_struct::Like<Dom> for Em { fn like(&self, d: &Dom) -> bool { self.0.ends_with(d.0) } }
#[derive(Debug, Clone, PartialEq)] struct TwoR { s: String, e: Em, n: i32 }
/// a collection wrapper that DEREFS to a Vec and has an AsRef impl of its own to something that is no slice
#[derive(Debug, Clone, PartialEq)] struct RawV(Vec<i32>);
impl std::ops::Deref for RawV { type Target = Vec<i32>; fn deref(&self) -> &Vec<i32> { &self.0 } }
impl AsRef<str> for RawV { fn as_ref(&self) -> &str { "raw" } }
'''

# target types: (rust type, value expression, [(form name, matching pattern, non-matching pattern)])
TARGETS = {
    "i32": ("i32", "7", [
        ("simple", "7", "8"), ("eq", "== 7", "== 8"), ("ne", "!= 8", "!= 7"), ("gt", "> 6", "> 7"), ("le", "<= 7", "<= 6"),
        ("range", "1..=7", "1..7"), ("range_to", "..8", "..7"), ("range_to_incl", "..=7", "..=6"), ("range_from", "7..", "8.."),
        ("wild", "_", None),
        # the operand is a REFERENCE held by the caller (a loop variable, a function parameter): one reference level more than the value
        ("gt_refvar", "> rv6", "> rv7"), ("eq_refvar", "== rv7", "== rv6"),
        # a closure written so that it reads the value through auto-deref (it is handed the value or a reference to it)
        ("closure", "|cl_n| cl_n.abs() == 7", "|cl_n| cl_n.abs() == 8")]),
    "string": ("String", "\"hello\".to_string()", [
        ("string", "\"hello\"", "\"jello\""), ("eq", "== \"hello\"", "== \"x\""), ("ne", "!= \"x\"", "!= \"hello\""),
        ("regex", "=~ r\"^he\"", "=~ r\"^je\""), ("like", "=~ pat", "=~ nopat"),
        ("closure_nc", "|cl_s| cl_s.len() == 5", "|cl_s| cl_s.len() == 4"), ("closure_nc_move", "move |cl_s| cl_s.starts_with(pat.trim_start_matches('^'))", None)]),
    "option": ("Option<i32>", "Some(7)", [
        ("some", "Some(7)", "Some(8)"), ("some_cmp", "Some(> 6)", "Some(> 7)"), ("none", None, "None"), ("some_wild", "Some(_)", None)]),
    "tuple": ("(i32, String)", "(7, \"hello\".to_string())", [
        ("tuple", "(7, \"hello\")", "(8, \"hello\")"), ("tuple_idx", "(0: 7, _)", "(0: 8, _)"), ("tuple_cmp", "(> 6, =~ r\"^h\")", "(> 7, _)"),
        ("tuple_wild", "(_, _)", None)]),
    "vec": ("Vec<i32>", "vec![1, 2, 3]", [
        ("slice", "[1, 2, 3]", "[1, 2]"), ("slice_rest", "[1, ..]", "[2, ..]"), ("slice_mid", "[1, .., 3]", "[.., 4]"),
        ("set", "#(3, 1, 2)", "#(1, 2)"), ("set_rest", "#(3, ..)", "#(4, ..)"),
        # forms that check nothing but the shape (every sub-pattern a wildcard): an expander may treat them specially
        ("set_wild", "#(_, _, _)", "#(_, _)"), ("set_any", "#(..)", None), ("set_wild_rest", "#(_, ..)", None), ("set_empty", None, "#()"),
        ("slice_wild", "[_, _, _]", "[_, _]"), ("slice_any", "[..]", None),
        # empty composites: they claim the value has NO elements, and fail on this one
        ("slice_empty", None, "[]"), ("closure_vec", "|cl_v| cl_v.len() == 3", "|cl_v| cl_v.contains(&9)")]),
    # slice-like values that are not collections: an iterator with an inherent as_slice() (consumed by next / collect / drain)
    "into_iter": ("std::vec::IntoIter<i32>", "vec![1, 2, 3].into_iter()", [
        ("iter_slice", "[1, 2, 3]", "[1, 2]"), ("iter_slice_rest", "[1, ..]", "[2, ..]"), ("iter_slice_any", "[..]", None), ("iter_wild", "_", None)]),
    "nc_vec": ("Vec<NC>", "vec![NC(\"a\".to_string()), NC(\"b\".to_string())]", [
        ("slice_nc", "[NC(\"a\"), NC(\"b\")]", "[NC(\"a\")]"), ("set_nc", "#(NC(\"b\"), NC(\"a\"))", "#(NC(\"b\"), NC(\"b\"))"),
        ("set_nc_wild", "#(_, _)", "#(_)"), ("set_nc_any", "#(..)", None), ("slice_nc_wild", "[_, ..]", None)]),
    "map": ("BTreeMap<String, i32>", "BTreeMap::from([(\"a\".to_string(), 1), (\"b\".to_string(), 2)])", [
        ("map", "#{ \"a\": 1, \"b\": 2 }", "#{ \"a\": 1 }"), ("map_rest", "#{ \"a\": 1, .. }", "#{ \"a\": 2, .. }"),
        ("map_missing", None, "#{ \"z\": 1, .. }"), ("map_any", "#{ .. }", None), ("map_empty", None, "#{}"), ("map_wild", "#{ \"a\": _, \"b\": _ }", "#{ \"a\": _ }")]),
    "struct": ("Leaf", "Leaf { n: 7, s: \"hello\".to_string() }", [
        ("struct", "Leaf { n: 7, s: \"hello\" }", "Leaf { n: 8, s: \"hello\" }"), ("struct_rest", "Leaf { n: > 6, .. }", "Leaf { n: > 7, .. }"),
        ("wstruct", "_ { n: 7, .. }", "_ { n: 8, .. }"), ("struct_ops", "Leaf { s.len(): 5, .. }", "Leaf { s.len(): 4, .. }"),
        ("struct_any", "Leaf { .. }", None), ("wstruct_wild", "_ { n: _, .. }", None), ("closure_struct", "|cl_l| cl_l.n == 7 && cl_l.s.len() == 5", "|cl_l| cl_l.n == 8")]),
    "enum": ("Kind", "Kind::Tup(7, \"hello\".to_string())", [
        ("variant", "Kind::Tup(7, \"hello\")", "Kind::Tup(8, _)"), ("unit", None, "Kind::Unit"), ("variant_rec", None, "Kind::Rec { a: 1, .. }"),
        ("variant_wild", "Kind::Tup(_, _)", None)]),
    "nc_tuple": ("(NC, NC)", "(NC(\"a\".to_string()), NC(\"b\".to_string()))", [
        ("tuple_nc", "(NC(\"a\"), NC(\"b\"))", "(NC(\"a\"), NC(\"c\"))"), ("tuple_nc_wild", "(_, NC(\"b\"))", None)]),
    "box": ("Box<i32>", "Box::new(7)", [("boxed_via_clone", None, None)]),
    # further leaf and collection types (literal forms, signs, suffixes; string slices; arrays and hash collections)
    "char": ("char", "'q'", [("char_lit", "'q'", "'z'"), ("char_range", "'a'..='z'", "'A'..='Z'"), ("char_ne", "!= 'z'", "!= 'q'")]),
    "f64": ("f64", "1.5", [("float_lit", "1.5", "2.5"), ("float_gt", "> 1.0", "> 2.0"), ("float_range", "1.0..2.0", "2.0..3.0")]),
    "str_ref": ("&'static str", "\"hello\"", [("str_lit", "\"hello\"", "\"jello\""), ("str_eq", "== \"hello\"", "== \"x\""),
                                            ("str_regex", "=~ r\"^he\"", "=~ r\"^je\""), ("str_like", "=~ pat", "=~ nopat")]),
    "u64": ("u64", "7", [("u_suffix", "7u64", "8u64"), ("u_hex", "0x7", "0x8"), ("u_range", "..=7", "..7")]),
    "neg": ("i64", "-3", [("neg_lit", "-3", "-4"), ("neg_cmp", "< -2", "< -3"), ("neg_range", "-5..=-3", "-5..-3")]),
    "array": ("[i32; 3]", "[1, 2, 3]", [("arr_slice", "[1, 2, 3]", "[1, 2]"), ("arr_rest", "[1, ..]", "[2, ..]"), ("arr_set", "#(3, 2, 1)", "#(1, 2)")]),
    "hashset": ("HashSet<i32>", "HashSet::from([1, 2, 3])", [("hs_set", "#(3, 1, 2)", "#(1, 2)"), ("hs_rest", "#(2, ..)", "#(4, ..)")]),
    "hashmap": ("HashMap<String, i32>", "HashMap::from([(\"a\".to_string(), 1)])", [("hm_map", "#{ \"a\": 1 }", "#{ \"a\": 2 }"), ("hm_rest", "#{ \"a\": > 0, .. }", "#{ \"b\": 1, .. }")]),
    # strings reached only through auto-deref (a regex / Like pattern must find the String behind the pointer in every position), bytes
    "rc_string": ("std::rc::Rc<String>", "std::rc::Rc::new(\"hello\".to_string())", [("rc_regex", "=~ r\"^he\"", "=~ r\"^je\""), ("rc_like", "=~ pat", "=~ nopat")]),
    "box_string": ("Box<String>", "Box::new(\"hello\".to_string())", [("bx_regex", "=~ r\"^he\"", "=~ r\"^je\"")]),
    "u8": ("u8", "b'a'", [("byte_lit", "b'a'", "b'b'"), ("byte_int", "97", "98"), ("byte_range", "b'a'..=b'z'", "b'A'..=b'Z'")]),
    # a user wrapper that derefs to a Vec (and has an unrelated AsRef impl): slice forms must find the Vec behind it in every position
    "deref_vec": ("RawV", "RawV(vec![1, 2, 3])", [("dv_slice", "[1, 2, 3]", "[1, 2]"), ("dv_rest", "[1, ..]", "[2, ..]"), ("dv_any", "[..]", None)]),
    "opt_string": ("Option<String>", "Some(\"hello\".to_string())", [("some_str", "Some(\"hello\")", "Some(\"jello\")"), ("some_regex", "Some(=~ r\"^he\")", "Some(=~ r\"^je\")"),
                                                                        ("closure_opt", "|cl_o| cl_o.is_some()", "|cl_o| cl_o.is_none()"), ("some_closure", "Some(|cl_s| cl_s.len() == 5)", "Some(|cl_s| cl_s.is_empty())")]),
}

# positions: name -> (extra declarations, setup statements, root expression, pattern wrapper)
# {T} = target type, {V} = target value expression, {P} = the form under test
POSITIONS = {
    "field": ("#[derive(Debug, Clone)] struct W {{ f: {T}, g: i32 }}", "let v = W {{ f: {V}, g: 1 }};", "v", "W {{ f: {P}, .. }}"),
    "root": ("", "let v: {T} = {V};", "v", "{P}"),
    "root_ref": ("", "let x: {T} = {V}; let v = &x;", "v", "{P}"),
    # the asserted expression is a `&mut` reference (only C09 uses this position: the value behind it must be unchanged afterwards)
    "root_mut_ref": ("", "let mut x: {T} = {V}; let v = &mut x;", "v", "{P}"),
    # ... and a `&mut` reference held in a struct field / reached through a field chain (C09 only)
    "mutref_field": ("#[derive(Debug)] struct WM<'a> {{ f: &'a mut {T}, g: i32 }}", "let mut x: {T} = {V}; let v = WM {{ f: &mut x, g: 1 }};", "v", "WM {{ f: {P}, .. }}"),
    "mutref_field_expr": ("#[derive(Debug)] struct WM<'a> {{ f: &'a mut {T}, g: i32 }}", "let mut x: {T} = {V}; let w = WM {{ f: &mut x, g: 1 }};", "w.f", "{P}"),
    "mutref_nested": ("#[derive(Debug)] struct WM<'a> {{ f: &'a mut {T}, g: i32 }} #[derive(Debug)] struct OM<'a> {{ w: WM<'a> }}",
                      "let mut x: {T} = {V}; let v = OM {{ w: WM {{ f: &mut x, g: 1 }} }};", "v", "OM {{ w.f: {P}, .. }}"),
    "root_field_expr": ("#[derive(Debug, Clone)] struct W {{ f: {T}, g: i32 }}", "let w = W {{ f: {V}, g: 1 }};", "w.f", "{P}"),
    "root_call": ("fn mk() -> {T} {{ {V} }}", "", "mk()", "{P}"),
    # computed asserted expressions whose value is a REFERENCE (the pattern must see it as it sees a reference variable):
    # a function call, a method call, an Option unwrapped by reference, a block
    "root_call_ref": ("fn pick<'a>(x: &'a {T}) -> &'a {T} {{ x }}", "let x: {T} = {V};", "pick(&x)", "{P}"),
    "root_method_ref": ("#[derive(Debug, Clone)] struct W {{ f: {T}, g: i32 }} impl W {{ fn get_ref(&self) -> &{T} {{ &self.f }} }}",
                        "let w = W {{ f: {V}, g: 1 }};", "w.get_ref()", "{P}"),
    "root_unwrap_ref": ("", "let o: Option<{T}> = Some({V});", "o.as_ref().unwrap()", "{P}"),
    "root_block_ref": ("", "let x: {T} = {V};", "{{ let r = &x; r }}", "{P}"),
    # the asserted expression is a binary expression (lower precedence than the `&`, `.` and `as` the templates put around it);
    # only for the targets that have such an identity (LOWPREC)
    "root_lowprec": ("", "let x: {T} = {V};", "<LOWPREC>", "{P}"),
    # the asserted expression reaches the macro as a `$v:expr` fragment of a caller's macro_rules! helper (a None-delimited group)
    # (the pattern is written in the helper: pattern tokens forwarded from another hygiene context cannot see the expansion's
    # own locals at all, observation O17)
    "root_via_macro": ("", "let v: {T} = {V};", "v", "{P}"),
    "root_deref": ("", "let b: Box<{T}> = Box::new({V});", "*b", "{P}"),
    "wfield": ("#[derive(Debug, Clone)] struct W {{ f: {T}, g: i32 }}", "let v = W {{ f: {V}, g: 1 }};", "v", "_ {{ f: {P}, .. }}"),
    "tuple_elem": ("", "let v: ({T}, i32) = ({V}, 1);", "v", "({P}, _)"),
    "tuple_idx": ("", "let v: ({T}, i32) = ({V}, 1);", "v", "(0: {P}, _)"),
    "variant_arg": ("#[derive(Debug, Clone)] enum EE {{ A({T}, i32), B }}", "let v = EE::A({V}, 1);", "v", "EE::A({P}, _)"),
    "variant_field": ("#[derive(Debug, Clone)] enum EF {{ A {{ f: {T} }}, B }}", "let v = EF::A {{ f: {V} }};", "v", "EF::A {{ f: {P} }}"),
    "some": ("", "let v: Option<{T}> = Some({V});", "v", "Some({P})"),
    "ok": ("", "let v: Result<{T}, String> = Ok({V});", "v", "Ok({P})"),
    "err": ("", "let v: Result<i32, {T}> = Err({V});", "v", "Err({P})"),
    "slice_elem": ("", "let v: Vec<{T}> = vec![{V}];", "v", "[{P}]"),
    "slice_elem_rest": ("", "let v: Vec<{T}> = vec![{V}, {V}];", "v", "[{P}, ..]"),
    "set_elem": ("", "let v: Vec<{T}> = vec![{V}];", "v", "#({P})"),
    "map_value": ("", "let v: BTreeMap<String, {T}> = BTreeMap::from([(\"k\".to_string(), {V})]);", "v", "#{{ \"k\": {P} }}"),
    "nested_field": ("#[derive(Debug, Clone)] struct W {{ f: {T}, g: i32 }} #[derive(Debug, Clone)] struct O {{ w: W }}",
                     "let v = O {{ w: W {{ f: {V}, g: 1 }} }};", "v", "O {{ w.f: {P}, .. }}"),
    "tuple_index_op": ("#[derive(Debug, Clone)] struct W2 {{ pair: ({T}, i32) }}", "let v = W2 {{ pair: ({V}, 1) }};", "v", "W2 {{ pair.0: {P}, .. }}"),
    "index_op": ("#[derive(Debug, Clone)] struct W3 {{ xs: Vec<{T}> }}", "let v = W3 {{ xs: vec![{V}] }};", "v", "W3 {{ xs[0]: {P}, .. }}"),
    "deref_op": ("#[derive(Debug, Clone)] struct W4 {{ bx: Box<{T}> }}", "let v = W4 {{ bx: Box::new({V}) }};", "v", "W4 {{ *bx: {P}, .. }}"),
    "deref2_op": ("#[derive(Debug, Clone)] struct W5 {{ bb: Box<Box<{T}>> }}", "let v = W5 {{ bb: Box::new(Box::new({V})) }};", "v", "W5 {{ **bb: {P}, .. }}"),
    "method_val": ("#[derive(Debug, Clone)] struct W {{ f: {T}, g: i32 }} impl W {{ fn get(&self) -> {T} {{ self.f.clone() }} }} #[derive(Debug, Clone)] struct H {{ h: W }}",
                   "let v = H {{ h: W {{ f: {V}, g: 1 }} }};", "v", "H {{ h.get(): {P}, .. }}"),
    "method_ref": ("#[derive(Debug, Clone)] struct W {{ f: {T}, g: i32 }} impl W {{ fn get_ref(&self) -> &{T} {{ &self.f }} }} #[derive(Debug, Clone)] struct H {{ h: W }}",
                   "let v = H {{ h: W {{ f: {V}, g: 1 }} }};", "v", "H {{ h.get_ref(): {P}, .. }}"),
    "wild_deref": ("#[derive(Debug, Clone)] struct W4 {{ bx: Box<{T}> }}", "let v = W4 {{ bx: Box::new({V}) }};", "v", "_ {{ *bx: {P}, .. }}"),
    "wild_nested": ("#[derive(Debug, Clone)] struct W {{ f: {T}, g: i32 }} #[derive(Debug, Clone)] struct O {{ w: W }}",
                    "let v = O {{ w: W {{ f: {V}, g: 1 }} }};", "v", "_ {{ w.f: {P}, .. }}"),
    "wild_index": ("#[derive(Debug, Clone)] struct W3 {{ xs: Vec<{T}> }}", "let v = W3 {{ xs: vec![{V}] }};", "v", "_ {{ xs[0]: {P}, .. }}"),
    "depth3": ("#[derive(Debug, Clone)] struct W {{ f: {T}, g: i32 }}", "let v: Option<Vec<(i32, W)>> = Some(vec![(1, W {{ f: {V}, g: 1 }})]);",
               "v", "Some([(_, W {{ f: {P}, .. }})])"),
}

REFERENCE = "field"
ONLY_ON_REQUEST = {"root_mut_ref", "mutref_field", "mutref_field_expr", "mutref_nested"}
LOWPREC = {"i32": "x + 0", "string": "x.clone() + \"\""}


def program(target, pos, pattern, reuse=False):
    ty, val, _ = TARGETS[target]
    decl, setup, root, wrap = POSITIONS[pos]
    decl = decl.format(T=ty, V=val)
    setup = setup.format(T=ty, V=val)
    pat = wrap.format(P=pattern)
    if root == "<LOWPREC>":
        root = LOWPREC[target]
    after = ""
    before = ""
    if reuse:
        # ... and unchanged: its Debug form before and after the assertion (a drained iterator, a sorted or truncated collection)
        before = "let _before = format!(\"{:?}\", &(%s)); " % root

        # the asserted expression must still be fully usable: move it (or, for place
        # expressions that cannot be moved, borrow it) after the assertion
        after = " let _still_usable = &(%s); let _debug = format!(\"{:?}\", _still_usable); if _debug != _before { std::process::abort(); }" % root
        if root == "v" and not setup.strip().endswith("&x;"):
            after += " let _moved = v;"
    if pos.endswith("_via_macro"):
        call = "macro_rules! fwd { ($v:expr) => { assert_struct!($v, %s) } } fwd!(%s);" % (pat, root)
    else:
        call = "assert_struct!(%s, %s);" % (root, pat)
    body = ("%s let pat = \"^he\"; let nopat = \"^zz\"; let rv6: &i32 = &6; let rv7: &i32 = &7; let (hs, js) = (\"hello\".to_string(), \"jello\".to_string()); "
            "let rhello: &String = &hs; let rjello: &String = &js; %s%s%s" % (setup, before, call, after))
    return (e2e.PRELUDE + COMMON + decl +
            "\nfn main() { std::panic::set_hook(Box::new(|_| {})); run_case(\"c\", || { %s }); }\n" % body)


def cells(targets=None, positions=None, mismatches=True, extra_positions=()):
    """yields (target, form, pos, pattern, expect_match)"""
    for tname, (ty, val, forms) in TARGETS.items():
        if targets and tname not in targets:
            continue
        for fname, pm, pn in forms:
            for pos in POSITIONS:
                if positions and pos not in positions:
                    continue
                if pos in ONLY_ON_REQUEST and pos not in extra_positions:
                    continue
                if pos == "root_lowprec" and tname not in LOWPREC:
                    continue
                if pm is not None:
                    yield (tname, fname, pos, pm, True)
                if pn is not None and mismatches:
                    yield (tname, fname, pos, pn, False)


def outcome(res):
    if not res["compiled"]:
        return "reject:" + ",".join(sorted(set(e2e.error_codes(res["stderr"])))[:3])
    c = e2e.parse_case_lines(res.get("stdout", "")).get("c")
    if c is None:
        return "crash"
    return c["verdict"]
