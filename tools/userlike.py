"""userlike.py — `=~ "literal"` on a value of a USER type means that type's own `Like<Regex>` impl (the documented equivalence of the
literal form with `=~ expr`): the verdict of the assertion must be what a direct call of `Like::like(&value, &Regex::new(lit))`
answers, in every position, for types whose other views of themselves (AsRef<str>, Display, Debug, PartialEq<str>) disagree with that
impl or do not exist.  Compiled with the real macro; the expected verdict is computed in the program by the direct call.
Used by C02 (the impl says yes => the assertion passes) and C01 (the assertion passes => the impl said yes)."""
import e2e
import vlib

DECLS = r"""
use assert_struct::Like;
use assert_struct::__macro_support::Regex;
/// header names compare case-insensitively; as_ref() gives the text as written
#[derive(Debug, Clone, PartialEq)] struct HeaderName(String);
impl AsRef<str> for HeaderName { fn as_ref(&self) -> &str { &self.0 } }
impl Like<Regex> for HeaderName { fn like(&self, re: &Regex) -> bool { re.is_match(&self.0.to_lowercase()) } }
/// a number matched through its decimal rendering; no string view at all
#[derive(Debug, Clone, PartialEq)] struct Code(u32);
impl Like<Regex> for Code { fn like(&self, re: &Regex) -> bool { re.is_match(&self.0.to_string()) } }
/// matches on one field only; Display and as_ref show another
#[derive(Debug, Clone, PartialEq)] struct Route { path: String, label: String }
impl AsRef<str> for Route { fn as_ref(&self) -> &str { &self.label } }
impl std::fmt::Display for Route { fn fmt(&self, f: &mut std::fmt::Formatter<'_>) -> std::fmt::Result { write!(f, "{}", self.label) } }
impl Like<Regex> for Route { fn like(&self, re: &Regex) -> bool { re.is_match(&self.path) } }
#[derive(Debug, Clone)] struct Req { name: HeaderName, code: Code, route: Route, names: Vec<HeaderName>, opt: Option<Code>, by: BTreeMap<String, Route>, pair: (Code, HeaderName) }
fn req() -> Req { Req { name: HeaderName("Content-Type".into()), code: Code(404), route: Route { path: "/api/v1".into(), label: "home".into() },
  names: vec![HeaderName("Accept".into()), HeaderName("HOST".into())], opt: Some(Code(200)),
  by: BTreeMap::from([("k".to_string(), Route { path: "/x".into(), label: "api".into() })]), pair: (Code(7), HeaderName("ETag".into())) } }
fn direct<T: Like<Regex>>(v: &T, p: &str) -> bool { v.like(&Regex::new(p).unwrap()) }
"""

# (pattern with one regex literal LIT at @, expression of the sub-value the literal is applied to, [literals])
PLACES = [
    ("Req { name: =~ @, .. }", "&r.name", [r"^content-type$", r"^Content-Type$", r"type$", r"^x"]),
    ("_ { name: =~ @, .. }", "&r.name", [r"^content-type$", r"^Content"]),
    ("Req { code: =~ @, .. }", "&r.code", [r"^4\d\d$", r"^2", r"04"]),
    ("Req { route: =~ @, .. }", "&r.route", [r"^/api", r"^home$", r"v1$"]),
    ("Req { names: [=~ @, _], .. }", "&r.names[0]", [r"^accept$", r"^Accept$"]),
    ("Req { names: [_, =~ @], .. }", "&r.names[1]", [r"^host$", r"^HOST$"]),
    ("Req { names: #(=~ @, _), .. }", "&r.names[1]", [r"^host$"]),
    ("Req { opt: Some(=~ @), .. }", "r.opt.as_ref().unwrap()", [r"^200$", r"^3"]),
    ("Req { by: #{ \"k\": =~ @ }, .. }", "&r.by[\"k\"]", [r"^/x$", r"^api$"]),
    ("Req { pair: (=~ @, _), .. }", "&r.pair.0", [r"^7$", r"^8$"]),
    ("Req { pair: (_, =~ @), .. }", "&r.pair.1", [r"^etag$", r"^ETag$"]),
    ("Req { pair.1: =~ @, .. }", "&r.pair.1", [r"^etag$"]),
]
ROOTS = [("r.name", "&r.name", [r"^content-type$", r"^Content-Type$"]), ("r.code", "&r.code", [r"^404$", r"^5"]), ("&r.route", "&r.route", [r"api", r"home"])]


def run(res, direction):
    name = "direct:a regex literal on a user type means that type's Like<Regex> impl (every position)"
    res.obligations.append(name)
    body, cases = [], []
    for pat, sub, lits in PLACES:
        for lit in lits:
            cases.append(("r", pat.replace("@", 'r"%s"' % lit), sub, lit))
    for root, sub, lits in ROOTS:
        for lit in lits:
            cases.append((root, '=~ r"%s"' % lit, sub, lit))
    for i, (root, pat, sub, lit) in enumerate(cases):
        body.append('    { let r = req(); println!("expect %d {}", direct(%s, r"%s")); run_case("%d", std::panic::AssertUnwindSafe(|| { assert_struct!(%s, %s); })); }'
                    % (i, sub, lit, i, root, pat))
    prog = e2e.PRELUDE + DECLS + "\nfn main() { std::panic::set_hook(Box::new(|_| {}));\n" + "\n".join(body) + "\n}\n"
    o = e2e.compile_many([prog], run=True, tag="ulike")[0]
    e2e.cleanup("ulike")
    if not o["compiled"]:
        first = next((l for l in o["stderr"].splitlines() if l.startswith("error")), o["stderr"][:200])
        # a true assertion that does not compile is C02's business (a matching value must not fail); for C01 it is a stream that
        # could not be run
        res.violation("failing-input" if direction == "complete" else "no-failing-input-found", "regex literals applied to user types that implement Like<Regex> (and have no, or a disagreeing, string view) "
                      "are rejected by rustc: " + first[:300], {"user_like_program": True, "stderr": o["stderr"][-1500:]})
        res.streams["user-like-regex-literals"] = {"cases": len(cases), "compiled": False}
        return 1 if direction == "complete" else 0
    got = e2e.parse_case_lines(o["stdout"])
    expect = {l.split(" ")[1]: l.split(" ")[2] == "true" for l in o["stdout"].splitlines() if l.startswith("expect ")}
    failing = other = 0
    dist = {"impl_yes": 0, "impl_no": 0}
    for i, (root, pat, sub, lit) in enumerate(cases):
        c = got.get(str(i))
        want = expect.get(str(i))
        if c is None or want is None:
            raise vlib.CheckError("user-like case %d produced no result" % i)
        dist["impl_yes" if want else "impl_no"] += 1
        passed = c["verdict"] == "pass"
        if passed == want:
            continue
        mine = (direction == "complete" and want) or (direction == "sound" and not want)
        if not mine:
            other += 1
            continue
        failing += 1
        if failing <= 2:
            res.violation("failing-input", "`assert_struct!(%s, %s)`: the value's own Like<Regex> impl answers %s for this pattern but the assertion %s"
                          % (root, pat, "true" if want else "false", "passed" if passed else "failed"),
                          {"user_like_program": True, "root": root, "pattern": pat})
    res.streams["user-like-regex-literals"] = {"cases": len(cases), "impl_answers": dist, "disagreements_this_direction": failing, "disagreements_other_direction": other}
    if other and not failing and not res.violations:
        res.violation("no-failing-input-found", "correspondence user Like<Regex> impls: %d assertions disagree with the direct call in the other direction "
                      "(the other of C01 / C02 reports them as failing inputs)" % other, {"stream": "user-like-regex-literals"})
    if not failing and not other:
        res.discharged.append(name)
    return failing
