fn main() {}
// 6a7483f1
