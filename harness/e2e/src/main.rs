fn main() {}
// cabb2193
