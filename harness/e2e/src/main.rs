fn main() {}
// 766f6167
