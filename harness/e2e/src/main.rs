fn main() {}
// 1dedf6f1
