fn main() {}
// e33333f4
