fn main() {}
// bf86d7c6
