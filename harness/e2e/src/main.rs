fn main() {}
// c46ba2d2
