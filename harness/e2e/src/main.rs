fn main() {}
// 746b293b
