fn main() {}
// a8e6c462
