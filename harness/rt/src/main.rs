//! rt — drives the runtime support functions of /repo/assert-struct (built with
//! --cfg assert_struct_verif) on inputs read from stdin, one case per line, and
//! prints one canonical result line per case.  The OCaml driver built from the
//! extracted Coq model prints the same lines for the same inputs.
use assert_struct::__macro_support::{
    set_match, verif, ComparisonOp, ErrorReport, NodeKind, PatternNode, PlainOutputGuard,
};
use std::cell::RefCell;
use std::io::{BufRead, Write};

fn unhex(s: &str) -> Vec<u8> {
    let s = s.strip_prefix('x').expect("hex field must start with x");
    (0..s.len() / 2)
        .map(|i| u8::from_str_radix(&s[2 * i..2 * i + 2], 16).unwrap())
        .collect()
}
fn unhex_s(s: &str) -> String {
    String::from_utf8(unhex(s)).expect("utf8")
}
fn hex(b: &[u8]) -> String {
    let mut o = String::from("x");
    for c in b {
        o.push_str(&format!("{:02x}", c));
    }
    o
}
fn leak_str(s: String) -> &'static str {
    Box::leak(s.into_boxed_str())
}
fn wild() -> &'static PatternNode {
    Box::leak(Box::new(PatternNode {
        kind: NodeKind::Wildcard,
        parent: None,
        line_start: 0,
        col_start: 0,
        line_end: 0,
        col_end: 0,
    }))
}
fn wilds(n: usize) -> &'static [&'static PatternNode] {
    Box::leak((0..n).map(|_| wild()).collect::<Vec<_>>().into_boxed_slice())
}
fn named_wilds(n: usize) -> &'static [(&'static str, &'static PatternNode)] {
    Box::leak(
        (0..n)
            .map(|i| (leak_str(format!("f{}", i)), wild()))
            .collect::<Vec<_>>()
            .into_boxed_slice(),
    )
}
fn kind_of(spec: &str) -> NodeKind {
    let p: Vec<&str> = spec.split(':').collect();
    let b = |s: &str| s == "1";
    let n = |s: &str| s.parse::<usize>().unwrap();
    match p[0] {
        "slice" => NodeKind::Slice { items: wilds(n(p[1])), rest: b(p[2]) },
        "set" => NodeKind::Set { items: wilds(n(p[1])), rest: b(p[2]) },
        "tuple" => NodeKind::Tuple { items: wilds(n(p[1])) },
        "map" => NodeKind::Map { entries: named_wilds(n(p[1])), rest: b(p[2]) },
        "struct" => NodeKind::Struct {
            name: leak_str(unhex_s(p[1])),
            fields: named_wilds(n(p[2])),
            rest: b(p[3]),
        },
        "enum" => NodeKind::EnumVariant {
            path: leak_str(unhex_s(p[1])),
            args: if p[2] == "none" { None } else { Some(wilds(n(p[2]))) },
        },
        "simple" => NodeKind::Simple { value: leak_str(unhex_s(p[1])) },
        "cmp" => NodeKind::Comparison {
            op: match p[1] {
                "lt" => ComparisonOp::Less,
                "le" => ComparisonOp::LessEqual,
                "gt" => ComparisonOp::Greater,
                "ge" => ComparisonOp::GreaterEqual,
                "eq" => ComparisonOp::Equal,
                "ne" => ComparisonOp::NotEqual,
                o => panic!("op {o}"),
            },
            value: leak_str(unhex_s(p[2])),
        },
        "range" => NodeKind::Range { pattern: leak_str(unhex_s(p[1])) },
        "regex" => NodeKind::Regex { pattern: leak_str(unhex_s(p[1])) },
        "like" => NodeKind::Like { expr: leak_str(unhex_s(p[1])) },
        "wildcard" => NodeKind::Wildcard,
        "closure" => NodeKind::Closure { closure: leak_str(unhex_s(p[1])) },
        k => panic!("kind {k}"),
    }
}
fn node(kind: NodeKind, loc: (u32, u32, u32, u32)) -> &'static PatternNode {
    Box::leak(Box::new(PatternNode {
        kind,
        parent: None,
        line_start: loc.0,
        col_start: loc.1,
        line_end: loc.2,
        col_end: loc.3,
    }))
}
fn opt(s: &str) -> Option<String> {
    if s == "none" { None } else { Some(unhex_s(s)) }
}
fn opt_hex(o: &Option<String>) -> String {
    match o {
        None => "none".into(),
        Some(s) => hex(s.as_bytes()),
    }
}

fn do_setmatch(f: &[&str]) -> String {
    let n: usize = f[1].parse().unwrap();
    let rest = f[2] == "1";
    let k: usize = f[3].parse().unwrap();
    let rows: Vec<Vec<bool>> = (0..k)
        .map(|i| {
            let r = f[4 + i];
            if r == "-" { vec![] } else { r.bytes().map(|c| c == b'1').collect() }
        })
        .collect();
    let calls: RefCell<Vec<(usize, usize)>> = RefCell::new(Vec::new());
    let closures: Vec<Box<dyn Fn(usize) -> bool + '_>> = rows
        .iter()
        .enumerate()
        .map(|(p, row)| {
            let calls = &calls;
            Box::new(move |e: usize| {
                calls.borrow_mut().push((p, e));
                row[e]
            }) as Box<dyn Fn(usize) -> bool + '_>
        })
        .collect();
    let preds: Vec<&dyn Fn(usize) -> bool> = closures.iter().map(|c| &**c as &dyn Fn(usize) -> bool).collect();
    let mut report = ErrorReport::new_probe();
    let nd = node(NodeKind::Set { items: wilds(k), rest }, (0, 0, 0, 0));
    let _ = verif::take_pushes();
    set_match(n, rest, &preds, &mut report, nd);
    let pushes = verif::take_pushes();
    let calls_s = calls
        .borrow()
        .iter()
        .map(|(p, e)| format!("{p}:{e}"))
        .collect::<Vec<_>>()
        .join(",");
    let verdict = match pushes.len() {
        0 => "pass".to_string(),
        1 => format!("fail {} {}", hex(pushes[0].actual.as_bytes()), opt_hex(&pushes[0].expected)),
        m => format!("MULTI{m}"),
    };
    assert_eq!(report.is_empty(), pushes.is_empty());
    format!("{verdict} calls={calls_s}")
}

fn tmpdir() -> std::path::PathBuf {
    let d = std::env::var("RT_TMP").expect("RT_TMP must be set");
    std::path::PathBuf::from(d)
}

fn do_span(f: &[&str]) -> String {
    // span <mode> <xsrc> ls cs le ce      mode: ok | missing | dir | nonutf8 | stale
    let mode = f[1];
    let src = unhex(f[2]);
    let q: Vec<u32> = f[3..7].iter().map(|x| x.parse().unwrap()).collect();
    let dir = tmpdir();
    let path = dir.join("span_src.rs");
    let _ = std::fs::remove_file(&path);
    let _ = std::fs::remove_dir(&path);
    verif::clear_source_cache();
    match mode {
        "ok" => std::fs::write(&path, &src).unwrap(),
        "missing" => {}
        "dir" => std::fs::create_dir(&path).unwrap(),
        "nonutf8" => std::fs::write(&path, [0x66u8, 0xff, 0xfe, 0x0a]).unwrap(),
        "stale" => {
            // the file is read and cached, then replaced by something shorter
            std::fs::write(&path, &src).unwrap();
            let mut warm = ErrorReport::new(dir.to_str().unwrap(), "span_src.rs");
            warm.push(node(NodeKind::Wildcard, (1, 0, 1, 1)), "W".into(), None);
            let _ = std::panic::catch_unwind(std::panic::AssertUnwindSafe(|| format!("{}", warm)));
            std::fs::write(&path, b"x").unwrap();
        }
        m => panic!("mode {m}"),
    }
    let mut report = ErrorReport::new(dir.to_str().unwrap(), "span_src.rs");
    let nd = node(NodeKind::Wildcard, (q[0], q[1], q[2], q[3]));
    report.push(nd, "ACTUAL".into(), None);
    let _ = verif::take_spans();
    let r = std::panic::catch_unwind(std::panic::AssertUnwindSafe(|| format!("{}", report)));
    let spans = verif::take_spans();
    // the same failure once more in the same process (nothing cleared in between): the second report must be produced
    // and be the same text
    let mut report2 = ErrorReport::new(dir.to_str().unwrap(), "span_src.rs");
    report2.push(node(NodeKind::Wildcard, (q[0], q[1], q[2], q[3])), "ACTUAL".into(), None);
    let r2 = std::panic::catch_unwind(std::panic::AssertUnwindSafe(|| format!("{}", report2)));
    let _ = verif::take_spans();
    let again = match (&r, &r2) {
        (Ok(a), Ok(b)) => (a == b) as u8,
        (Err(_), Err(_)) => 1,
        _ => 0,
    };
    let _ = std::fs::remove_file(&path);
    let _ = std::fs::remove_dir(&path);
    let line = match r {
        Ok(text) => {
            let hdr = text.contains("assert_struct! failed");
            let lbl = text.contains("got ACTUAL");
            match spans.as_slice() {
                [(s, e)] => format!("span {s} {e} hdr={} lbl={}", hdr as u8, lbl as u8),
                [] => format!("fallback {}", hex(text.as_bytes())),
                _ => format!("MULTISPAN hdr={} lbl={}", hdr as u8, lbl as u8),
            }
        }
        Err(_) => match spans.as_slice() {
            [(s, e)] => format!("span {s} {e} PANIC"),
            _ => "PANIC".into(),
        },
    };
    format!("{line} again={again}")
}


// ---- C17: the plain-output guard, the source cache under contention, the renderer choice ----

fn do_fshist(f: &[&str]) -> String {
    // fshist <xsrc> <ops> ls cs le ce     one process, one source file whose content (when it can be read) is always <src>:
    //   W = the file is there (written with <src>), D = the file cannot be read (removed), R = a failure in that file is reported,
    //   T = the next R happens on another thread.  Prints the message of every R (hex), in order.
    let src = unhex(f[1]);
    let q: Vec<u32> = f[3..7].iter().map(|x| x.parse().unwrap()).collect();
    let dir = tmpdir();
    let path = dir.join("hist_src.rs");
    let _ = std::fs::remove_file(&path);
    verif::clear_source_cache();
    let _guard = PlainOutputGuard::new();
    let mut out: Vec<String> = Vec::new();
    let mut other_thread = false;
    for o in f[2].chars() {
        match o {
            'W' => std::fs::write(&path, &src).unwrap(),
            'D' => { let _ = std::fs::remove_file(&path); }
            'T' => other_thread = true,
            'R' => {
                let d = dir.to_str().unwrap().to_string();
                let qq = q.clone();
                let one = move || {
                    let _g = PlainOutputGuard::new();
                    let mut report = ErrorReport::new(&d, "hist_src.rs");
                    report.push(node(NodeKind::Wildcard, (qq[0], qq[1], qq[2], qq[3])), "ACTUAL".into(), None);
                    match std::panic::catch_unwind(std::panic::AssertUnwindSafe(|| format!("{}", report))) {
                        Ok(t) => hex(t.as_bytes()),
                        Err(_) => "PANIC".to_string(),
                    }
                };
                let m = if other_thread { std::thread::spawn(one).join().unwrap_or_else(|_| "PANIC".into()) } else { one() };
                other_thread = false;
                out.push(m);
            }
            c => panic!("fshist op {c}"),
        }
    }
    let _ = std::fs::remove_file(&path);
    let _ = verif::take_spans();
    out.join(" ")
}

fn do_guard(f: &[&str]) -> String {
    // guard <ops>   N = create a guard, D = drop the newest live guard, F = drop the oldest live guard.
    // Prints the thread's plain-output flag after every operation.  Runs on a fresh thread so
    // that the flag starts clear.
    let ops: Vec<char> = f[1].chars().collect();
    std::thread::spawn(move || {
        let mut live: Vec<PlainOutputGuard> = Vec::new();
        let mut out = String::new();
        for o in ops {
            match o {
                'N' => live.push(PlainOutputGuard::new()),
                'D' => {
                    live.pop();
                }
                'F' => {
                    if !live.is_empty() {
                        live.remove(0);
                    }
                }
                _ => panic!("guard op"),
            }
            out.push(if verif::plain_output_flag() { '1' } else { '0' });
        }
        out
    })
    .join()
    .unwrap()
}

fn c17_dir() -> std::path::PathBuf {
    tmpdir().join("c17")
}

fn c17_report(dir: &str, file: &str, who: usize) -> ErrorReport {
    // a report with two entries whose labels and lines depend on the thread
    let mut r = ErrorReport::new(dir, file);
    let l1 = 1 + (who as u32 % 3);
    r.push(node(NodeKind::Wildcard, (l1, 0, l1, 2)), format!("T{who}-first"), None);
    r.push(
        node(NodeKind::Comparison { op: ComparisonOp::Greater, value: leak_str(format!("{who}")) }, (l1 + 1, 1, l1 + 1, 3)),
        format!("T{who}-second"),
        Some(format!("E{who}")),
    );
    r
}

fn render(r: &ErrorReport) -> String {
    match std::panic::catch_unwind(std::panic::AssertUnwindSafe(|| format!("{}", r))) {
        Ok(t) => t,
        Err(_) => "PANIC".into(),
    }
}

fn do_contend(f: &[&str]) -> String {
    // contend <cold|warm> <rounds> <file names, one per thread (hex)>...
    // Per round: (cold: clear the cache) barrier, every thread formats its own report, join.
    // Prints, per round, whether each thread's message equals the message of the same failure
    // formatted alone from an empty cache, and the cache event log of the round.
    let cold = f[1] == "cold";
    let rounds: usize = f[2].parse().unwrap();
    let files: Vec<String> = f[3..].iter().map(|x| unhex_s(x)).collect();
    let dir = c17_dir();
    let dirs = dir.to_str().unwrap().to_string();
    let _g = PlainOutputGuard::new();
    // alone: empty cache before each
    let mut alone = Vec::new();
    for (i, file) in files.iter().enumerate() {
        verif::clear_source_cache();
        alone.push(render(&c17_report(&dirs, file, i)));
    }
    if !cold {
        // warm: every file has been seen once (sequentially)
        verif::clear_source_cache();
        for (i, file) in files.iter().enumerate() {
            let _ = render(&c17_report(&dirs, file, i));
        }
    }
    let mut out = Vec::new();
    for _ in 0..rounds {
        if cold {
            verif::clear_source_cache();
        }
        let _ = verif::take_cache_log();
        let barrier = std::sync::Arc::new(std::sync::Barrier::new(files.len()));
        let mut hs = Vec::new();
        for (i, file) in files.iter().enumerate() {
            let b = barrier.clone();
            let file = file.clone();
            let dirs = dirs.clone();
            hs.push(std::thread::spawn(move || {
                let _g = PlainOutputGuard::new();
                let r = c17_report(&dirs, &file, i);
                b.wait();
                let m = render(&r);
                (format!("{:?}", std::thread::current().id()), m)
            }));
        }
        let res: Vec<(String, String)> = hs.into_iter().map(|h| h.join().unwrap()).collect();
        let log = verif::take_cache_log();
        let same: String = res.iter().zip(alone.iter()).map(|((_, m), a)| if m == a { '1' } else { '0' }).collect();
        let evs: Vec<String> = log
            .iter()
            .map(|(tid, what, path, content)| {
                let t = res.iter().position(|(id, _)| id == tid).map(|x| x as i64).unwrap_or(-1);
                let name = std::path::Path::new(path).file_name().map(|n| n.to_string_lossy().to_string()).unwrap_or_default();
                format!("{}:{}:{}:{}", t, what, hex(name.as_bytes()), match content { Some(c) => hex(c.as_bytes()), None => "none".into() })
            })
            .collect();
        out.push(format!("same={} log={}", same, evs.join(";")));
    }
    // the messages themselves (alone), for the header/entries oracle
    let msgs: Vec<String> = alone.iter().map(|m| hex(m.as_bytes())).collect();
    format!("{} | alone={}", out.join(" | "), msgs.join(","))
}

#[cfg(feature = "regex")]
fn do_like(f: &[&str]) -> String {
    // like <xpattern> <xtext>: the six built-in Like impls on (text, pattern), next to the answer of the regex crate
    // itself (compiled here, independently of the crate under test): match / nomatch / invalid
    use assert_struct::Like;
    // the pattern is handed over in a buffer that is REUSED from one case to the next (a table-driven loop that edits one String in
    // place, a line buffer): same address, often the same length, other contents
    thread_local! { static PATBUF: std::cell::RefCell<String> = std::cell::RefCell::new(String::with_capacity(1 << 16)); }
    let pat_owned = unhex_s(f[1]);
    let text = unhex_s(f[2]);
    PATBUF.with(|b| { let mut b = b.borrow_mut(); b.clear(); b.push_str(&pat_owned); });
    PATBUF.with(|b| do_like_with(&b.borrow(), &text))
}
#[cfg(feature = "regex")]
fn do_like_with(pat: &String, text: &String) -> String {
    use assert_struct::Like;
    let oracle = match regex::Regex::new(&pat) {
        Ok(re) => if re.is_match(&text) { "match" } else { "nomatch" },
        Err(_) => "invalid",
    };
    let s: String = text.clone();
    let r: &str = text;
    let mut out = Vec::new();
    out.push(<String as Like<&str>>::like(&s, &pat.as_str()));
    out.push(<String as Like<String>>::like(&s, pat));
    out.push(<&str as Like<&str>>::like(&r, &pat.as_str()));
    out.push(<&str as Like<String>>::like(&r, pat));
    if let Ok(re) = assert_struct::__macro_support::Regex::new(&pat) {
        out.push(<String as Like<assert_struct::__macro_support::Regex>>::like(&s, &re));
        out.push(<&str as Like<assert_struct::__macro_support::Regex>>::like(&r, &re));
    }
    format!("oracle={} impls={}", oracle, out.iter().map(|b| if *b { "1" } else { "0" }).collect::<String>())
}
#[cfg(not(feature = "regex"))]
fn do_like(_f: &[&str]) -> String {
    "no-regex-feature".into()
}

fn do_crossdir(f: &[&str]) -> String {
    // crossdir <seq|par> <rounds> (<xdir> <xfile>)...: failures located by (manifest dir, file!() string) pairs that may
    // share the file!() string across different manifest dirs (two packages both failing in "src/lib.rs").
    // seq: one warm process history: every report formatted in the given order, `rounds` times over, cache never cleared;
    // par: per round the cache is cleared and all reports are formatted at once behind a barrier.
    // Prints per round whether each message equals the message of the same failure formatted alone from an empty cache.
    let par = f[1] == "par";
    let rounds: usize = f[2].parse().unwrap();
    let pairs: Vec<(String, String)> = f[3..].chunks(2).map(|c| (unhex_s(c[0]), unhex_s(c[1]))).collect();
    let _g = PlainOutputGuard::new();
    let mut alone = Vec::new();
    for (i, (d, file)) in pairs.iter().enumerate() {
        verif::clear_source_cache();
        alone.push(render(&c17_report(d, file, i)));
    }
    verif::clear_source_cache();
    let mut out = Vec::new();
    for _ in 0..rounds {
        let msgs: Vec<String> = if par {
            verif::clear_source_cache();
            let barrier = std::sync::Arc::new(std::sync::Barrier::new(pairs.len()));
            let hs: Vec<_> = pairs
                .iter()
                .cloned()
                .enumerate()
                .map(|(i, (d, file))| {
                    let b = barrier.clone();
                    std::thread::spawn(move || {
                        let _g = PlainOutputGuard::new();
                        let r = c17_report(&d, &file, i);
                        b.wait();
                        render(&r)
                    })
                })
                .collect();
            hs.into_iter().map(|h| h.join().unwrap()).collect()
        } else {
            pairs.iter().enumerate().map(|(i, (d, file))| render(&c17_report(d, file, i))).collect()
        };
        let same: String = msgs.iter().zip(alone.iter()).map(|(m, a)| if m == a { '1' } else { '0' }).collect();
        out.push(same);
    }
    let _ = verif::take_cache_log();
    let msgs: Vec<String> = alone.iter().map(|m| hex(m.as_bytes())).collect();
    format!("{} | alone={}", out.join(","), msgs.join(","))
}

fn do_colour(f: &[&str]) -> String {
    // colour <ops|-> <xdir> <xfile>: one report formatted after a history of guard operations
    // (N = new, D = drop newest, F = drop oldest; `-` = none) with the surviving guards alive; the
    // process environment (NO_COLOR, what stderr is) is set by the caller.
    let ops: Vec<char> = f[1].chars().filter(|c| *c != '-').collect();
    let (dir, file) = (unhex_s(f[2]), unhex_s(f[3]));
    std::thread::spawn(move || {
        let r = c17_report(&dir, &file, 0);
        let mut live: Vec<PlainOutputGuard> = Vec::new();
        for o in ops {
            match o {
                'N' => live.push(PlainOutputGuard::new()),
                'D' => {
                    live.pop();
                }
                'F' => {
                    if !live.is_empty() {
                        live.remove(0);
                    }
                }
                // X: ANOTHER thread, holding no guard, formats a report of its own now; Y: another thread does so under a guard of its
                // own.  Neither is this thread's business: its guards are its own
                'X' | 'Y' => {
                    let (d2, f2, guarded) = (dir.clone(), file.clone(), o == 'Y');
                    std::thread::spawn(move || {
                        let _g = if guarded { Some(PlainOutputGuard::new()) } else { None };
                        let r2 = c17_report(&d2, &f2, 0);
                        let _ = render(&r2);
                    })
                    .join()
                    .unwrap();
                }
                _ => panic!("guard op"),
            }
        }
        let m = render(&r);
        drop(live);
        hex(m.as_bytes())
    })
    .join()
    .unwrap()
}

fn do_mspan(f: &[&str]) -> String {
    // mspan <xsrc> <n> (ls cs le ce)*n : one report with n entries, in the given order, formatted once.
    // Prints the span handed to the renderer for every entry, in order, and how many of the labels appear.
    let src = unhex(f[1]);
    let n: usize = f[2].parse().unwrap();
    let dir = tmpdir();
    let path = dir.join("mspan_src.rs");
    let _ = std::fs::remove_file(&path);
    verif::clear_source_cache();
    std::fs::write(&path, &src).unwrap();
    let mut report = ErrorReport::new(dir.to_str().unwrap(), "mspan_src.rs");
    for i in 0..n {
        let q: Vec<u32> = f[3 + 4 * i..7 + 4 * i].iter().map(|x| x.parse().unwrap()).collect();
        report.push(node(NodeKind::Wildcard, (q[0], q[1], q[2], q[3])), format!("ACT{i}_"), None);
    }
    let _ = verif::take_spans();
    let r = std::panic::catch_unwind(std::panic::AssertUnwindSafe(|| format!("{}", report)));
    let spans = verif::take_spans();
    let _ = std::fs::remove_file(&path);
    let sp: Vec<String> = spans.iter().map(|(s, e)| format!("{s}:{e}")).collect();
    match r {
        Ok(text) => {
            let lbls = (0..n).filter(|i| text.contains(&format!("got ACT{i}_"))).count();
            format!("spans {} hdr={} lbls={}", sp.join(","), text.contains("assert_struct! failed") as u8, lbls)
        }
        Err(_) => format!("spans {} PANIC", sp.join(",")),
    }
}

fn main() {
    if std::env::var("RT_QUIET").is_ok() { std::panic::set_hook(Box::new(|_| {})); }
    let stdin = std::io::stdin();
    let out = std::io::stdout();
    let mut out = std::io::BufWriter::new(out.lock());
    for line in stdin.lock().lines() {
        let line = line.unwrap();
        if line.is_empty() {
            continue;
        }
        let f: Vec<&str> = line.split('\t').collect();
        let res = match f[0] {
            "setmatch" => do_setmatch(&f),
            "offset" => {
                let src = unhex_s(f[1]);
                let (l, c): (u32, u32) = (f[2].parse().unwrap(), f[3].parse().unwrap());
                match std::panic::catch_unwind(|| verif::byte_offset_of(&src, l, c)) {
                    Ok(r) => format!("{r}"),
                    Err(_) => "PANIC".into(),
                }
            }
            "span" => do_span(&f),
            "mspan" => do_mspan(&f),
            "guard" => do_guard(&f),
            "fshist" => do_fshist(&f),
            "contend" => do_contend(&f),
            "colour" => do_colour(&f),
            "crossdir" => do_crossdir(&f),
            "like" => do_like(&f),
            "c17file" => {
                // c17file <xname> <xcontent|none>: (re)create or remove a file under RT_TMP/c17
                let p = c17_dir().join(unhex_s(f[1]));
                std::fs::create_dir_all(p.parent().unwrap()).unwrap();
                let _ = std::fs::remove_file(&p);
                if f[2] != "none" {
                    std::fs::write(&p, unhex(f[2])).unwrap();
                }
                "ok".into()
            }
            "c17link" => {
                // c17link <xlink> <xtarget>: (re)create a symbolic link under RT_TMP/c17 (target relative to the link's directory)
                let p = c17_dir().join(unhex_s(f[1]));
                std::fs::create_dir_all(p.parent().unwrap()).unwrap();
                let _ = std::fs::remove_file(&p);
                #[cfg(unix)]
                std::os::unix::fs::symlink(unhex_s(f[2]), &p).unwrap();
                "ok".into()
            }
            "fsclear" => {
                // remove everything the previous layout created under RT_TMP/fs
                let _ = std::fs::remove_dir_all(tmpdir().join("fs"));
                "ok".into()
            }
            "fs" => {
                let p = std::path::PathBuf::from(unhex_s(f[1]));
                assert!(p.starts_with(tmpdir().join("fs")), "fs path outside RT_TMP/fs");
                std::fs::create_dir_all(p.parent().unwrap()).unwrap();
                std::fs::write(&p, b"// file\n").unwrap();
                "ok".into()
            }
            "abspath" => {
                // the path a report made for (manifest dir, file!()) will READ: through ErrorReport::new, not only through the
                // pure function (whatever else the constructor consults - the process environment, the current directory - is
                // then part of what is observed)
                let (m, fl) = (unhex_s(f[1]), unhex_s(f[2]));
                let r = verif::absolute_source_path(&m, &fl);
                let report = ErrorReport::new(&m, &fl);
                let (abs, _rel) = verif::report_paths(&report);
                if abs != r {
                    format!("REPORT-READS {} FUNCTION-SAYS {}", hex(abs.to_str().unwrap().as_bytes()), hex(r.to_str().unwrap().as_bytes()))
                } else {
                    hex(r.to_str().unwrap().as_bytes())
                }
            }
            "setenv" => {
                // setenv <name> <xvalue|->  : what the test process inherits from cargo (or from the user's shell)
                if f[2] == "-" { unsafe { std::env::remove_var(f[1]) } } else { unsafe { std::env::set_var(f[1], unhex_s(f[2])) } }
                "ok".into()
            }
            "chdir" => {
                let _ = std::env::set_current_dir(unhex_s(f[1]));
                "ok".into()
            }
            "label" => {
                let nd = node(kind_of(f[1]), (0, 0, 0, 0));
                hex(verif::error_label(nd, unhex_s(f[2]), opt(f[3])).as_bytes())
            }
            "display" => {
                let nd = node(kind_of(f[1]), (0, 0, 0, 0));
                hex(format!("{}", nd).as_bytes())
            }
            "fallback" => {
                // fallback <xrel> <n> (kind line xactual xexp)*
                let rel = unhex_s(f[1]);
                let n: usize = f[2].parse().unwrap();
                let mut report = ErrorReport::new("/nonexistent-dir-for-assert-struct-verif", &rel);
                for i in 0..n {
                    let b = 3 + 4 * i;
                    let line: u32 = f[b + 1].parse().unwrap();
                    let nd = node(kind_of(f[b]), (line, 0, line, 1));
                    report.push(nd, unhex_s(f[b + 2]), opt(f[b + 3]));
                }
                let r = std::panic::catch_unwind(std::panic::AssertUnwindSafe(|| format!("{}", report)));
                match r {
                    Ok(t) => hex(t.as_bytes()),
                    Err(_) => "PANIC".into(),
                }
            }
            c => panic!("unknown command {c}"),
        };
        writeln!(out, "{res}").unwrap();
    }
}
