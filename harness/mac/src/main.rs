//! mac — runs the macro crate's own parser and expander in-process.
//! `src/{expand.rs,expand/,parse.rs,pattern.rs,pattern/}` are copied from
//! /repo/assert-struct-macros/src before every build (tools/vlib.py prepare_mac);
//! this file is the shim crate root that replaces lib.rs.
#![allow(dead_code, unused_imports)]
mod expand;
mod parse;
mod pattern;
mod oracle;
mod readback;
mod ser;
use pattern::Pattern;

pub struct AssertStruct {
    value: syn::Expr,
    pattern: Pattern,
}

use std::io::{BufRead, Write};

fn unhex(s: &str) -> String {
    let s = s.strip_prefix('x').expect("hex field");
    let b: Vec<u8> = (0..s.len() / 2)
        .map(|i| u8::from_str_radix(&s[2 * i..2 * i + 2], 16).unwrap())
        .collect();
    String::from_utf8(b).unwrap()
}

fn panic_msg(e: Box<dyn std::any::Any + Send>) -> String {
    if let Some(s) = e.downcast_ref::<&str>() {
        s.to_string()
    } else if let Some(s) = e.downcast_ref::<String>() {
        s.clone()
    } else {
        "?".into()
    }
}

enum Outcome {
    Ok(String),
    Err(String),
    Lex(String),
}

fn run_expand(src: &str, want_tokens: bool) -> Outcome {
    let ts: proc_macro2::TokenStream = match src.parse() {
        Ok(t) => t,
        Err(e) => return Outcome::Lex(e.to_string()),
    };
    ser::set_input(&ts);
    match syn::parse2::<AssertStruct>(ts) {
        Err(e) => {
            let sp = e.span();
            Outcome::Err(format!(
                "{} {}",
                ser::hex(e.to_string().as_bytes()),
                ser::span_str(sp)
            ))
        }
        Ok(a) => {
            let tree = ser::pattern(&a.pattern);
            let value = ser::uexpr(&a.value);
            if want_tokens {
                let out = expand::expand(&a);
                // the expansion must itself be valid Rust (a block expression)
                let valid = syn::parse2::<syn::Expr>(out.clone()).is_ok();
                let rb = readback::readback(&out);
                Outcome::Ok(format!(
                    "{}\t{}\tvalid={}\t{}\t{}",
                    value,
                    tree,
                    valid as u8,
                    ser::flat_tokens(out),
                    rb
                ))
            } else {
                Outcome::Ok(format!("{}\t{}", value, tree))
            }
        }
    }
}

fn main() {
    std::panic::set_hook(Box::new(|_| {}));
    let stdin = std::io::stdin();
    let out = std::io::stdout();
    let mut out = std::io::BufWriter::new(out.lock());
    for line in stdin.lock().lines() {
        let line = line.unwrap();
        if line.is_empty() {
            continue;
        }
        let f: Vec<&str> = line.split('\t').collect();
        let res = match f[0] {
            "expand" | "parse" => {
                let src = unhex(f[1]);
                let want = f[0] == "expand";
                let t0 = std::time::Instant::now();
                let r = std::panic::catch_unwind(|| run_expand(&src, want));
                let ms = t0.elapsed().as_millis();
                let slow = if ms > 5000 { format!("\tslow={ms}") } else { String::new() };
                match r {
                    Ok(Outcome::Ok(s)) => format!("ok\t{s}{slow}"),
                    Ok(Outcome::Err(s)) => format!("err\t{s}{slow}"),
                    Ok(Outcome::Lex(s)) => format!("lex\t{}", ser::hex(s.as_bytes())),
                    Err(e) => format!("panic\t{}", ser::hex(panic_msg(e).as_bytes())),
                }
            }
            "poracle" => {
                // the front end as a whole (parse, then expand: both must not panic), together
                // with the token trees and the table of what syn's own parsers do on every suffix
                let src = unhex(f[1]);
                let t0 = std::time::Instant::now();
                let r = std::panic::catch_unwind(|| run_expand(&src, true));
                let ms = t0.elapsed().as_millis();
                let status = match r {
                    Ok(Outcome::Ok(s)) => {
                        let mut it = s.split('\t');
                        let value = it.next().unwrap_or("");
                        let tree = it.next().unwrap_or("");
                        let valid = it.next().unwrap_or("");
                        let tokens = it.next().unwrap_or("");
                        format!("ok\t{value}\t{tree}\t{valid}\t{tokens}")
                    }
                    Ok(Outcome::Err(s)) => format!("err\t{s}"),
                    Ok(Outcome::Lex(s)) => format!("lex\t{}", ser::hex(s.as_bytes())),
                    Err(e) => format!("panic\t{}", ser::hex(panic_msg(e).as_bytes())),
                };
                match src.parse::<proc_macro2::TokenStream>() {
                    Ok(ts) => {
                        ser::set_input(&ts);
                        let tabs = std::panic::catch_unwind(|| (oracle::trees(&ts), oracle::tables(&ts)));
                        match tabs {
                            Ok((tt, or)) => format!("{status}\tms={ms}\tTT\t({tt})\tOR\t({or})"),
                            Err(e) => format!("{status}\tms={ms}\tTT\tfailed\tOR\t{}", ser::hex(panic_msg(e).as_bytes())),
                        }
                    }
                    Err(_) => format!("{status}\tms={ms}"),
                }
            }
            c => panic!("unknown command {c}"),
        };
        writeln!(out, "{res}").unwrap();
    }
}
