//! What the Coq parser model (coq/Model/Parser.v) takes as given: the invocation's token
//! trees as syn sees them (with syn's classification of each literal), and, for every
//! non-empty suffix of every delimited group (and of the top level), what syn's own
//! `Expr`, `Path` and `ExprClosure` parsers do on it: how many token trees they take and
//! what they produce, or where they fail.
use crate::ser::{hex, span_str, uexpr};
use proc_macro2::{Delimiter, Span, TokenStream, TokenTree};
use quote::{quote, ToTokens};
use std::cell::RefCell;
use syn::parse::{ParseStream, Parser};
use syn::spanned::Spanned;

fn delim_char(d: Delimiter) -> char {
    match d {
        Delimiter::Parenthesis => 'p',
        Delimiter::Brace => 'b',
        Delimiter::Bracket => 'k',
        Delimiter::None => 'n',
    }
}

fn lit(l: &proc_macro2::Literal) -> String {
    let text = l.to_string();
    let kind = match syn::Lit::new(l.clone()) {
        syn::Lit::Str(s) => format!("s {}", hex(s.value().as_bytes())),
        syn::Lit::Int(i) => match i.base10_parse::<usize>() {
            Ok(n) => format!("i {}", n),
            Err(_) => "i none".to_string(),
        },
        syn::Lit::Float(_) => "f".to_string(),
        _ => "o".to_string(),
    };
    format!("(L {} {} {})", hex(text.as_bytes()), span_str(l.span()), kind)
}

pub fn tree(tt: &TokenTree) -> String {
    match tt {
        TokenTree::Ident(i) => format!("(I {} {})", hex(i.to_string().as_bytes()), span_str(i.span())),
        TokenTree::Punct(p) => format!(
            "(P {} {} {})",
            hex(p.as_char().to_string().as_bytes()),
            if p.spacing() == proc_macro2::Spacing::Joint { 'j' } else { 'a' },
            span_str(p.span())
        ),
        TokenTree::Literal(l) => lit(l),
        TokenTree::Group(g) => format!(
            "(G {} {} {} {} ({}))",
            delim_char(g.delimiter()),
            span_str(g.span()),
            span_str(g.span_open()),
            span_str(g.span_close()),
            g.stream().into_iter().map(|t| tree(&t)).collect::<Vec<_>>().join(" ")
        ),
    }
}

pub fn trees(ts: &TokenStream) -> String {
    ts.clone().into_iter().map(|t| tree(&t)).collect::<Vec<_>>().join(" ")
}

fn err_pos(e: &syn::Error) -> String {
    // an error at the end of the (standalone) input points at the call site
    span_str(e.span())
}

fn opt_uexpr(e: &Option<Box<syn::Expr>>) -> String {
    match e {
        Some(e) => uexpr(e),
        None => "none".into(),
    }
}

/// run `f` on the suffix as syn::parse2 would, but report what `f` itself returned and,
/// separately, whether a group inside was left partly unconsumed
fn run<T, F: Fn(ParseStream) -> syn::Result<T>>(suffix: &[TokenTree], f: F) -> Result<(T, usize, Option<Span>), syn::Error> {
    let total = suffix.len();
    let ts: TokenStream = suffix.iter().cloned().collect();
    let inner: RefCell<Option<(T, usize)>> = RefCell::new(None);
    let res = (|input: ParseStream| -> syn::Result<()> {
        let v = f(input)?;
        let rest: TokenStream = input.parse()?;
        *inner.borrow_mut() = Some((v, total - rest.into_iter().count()));
        Ok(())
    })
    .parse2(ts);
    match (inner.into_inner(), res) {
        (Some((v, n)), Ok(())) => Ok((v, n, None)),
        (Some((v, n)), Err(e)) => Ok((v, n, Some(e.span()))),
        (None, Err(e)) => Err(e),
        (None, Ok(())) => unreachable!(),
    }
}

fn unx(u: Option<Span>) -> String {
    match u {
        Some(s) => span_str(s),
        None => "none".into(),
    }
}

fn entries_for(list: &[TokenTree], out: &mut Vec<String>) {
    for i in 0..list.len() {
        let suffix = &list[i..];
        let key = span_str(suffix[0].span());
        match run(suffix, |input| input.parse::<syn::Expr>()) {
            Ok((e, n, u)) => {
                let range = if let syn::Expr::Range(re) = &e {
                    let incl = matches!(re.limits, syn::RangeLimits::Closed(_));
                    format!("(parts {} {} {} {})", opt_uexpr(&re.start), span_str(re.limits.span()), incl as u8, opt_uexpr(&re.end))
                } else {
                    "none".into()
                };
                // a PLAIN string literal: one that carries attributes is an ordinary expression for the macro
                let strv = match &e {
                    syn::Expr::Lit(syn::ExprLit { attrs, lit: syn::Lit::Str(s) }) if attrs.is_empty() => hex(s.value().as_bytes()),
                    _ => "none".into(),
                };
                out.push(format!("(E {} ok {} {} {} {} {})", key, n, uexpr(&e), range, strv, unx(u)));
            }
            Err(e) => out.push(format!("(E {} err {})", key, err_pos(&e))),
        }
        match run(suffix, |input| input.parse::<syn::Path>()) {
            Ok((p, n, u)) => {
                let text = quote! { #p }.to_string();
                let first = p.segments.first().map(|s| span_str(s.ident.span())).unwrap_or("none".into());
                let last = p.segments.last().map(|s| span_str(s.ident.span())).unwrap_or("none".into());
                out.push(format!(
                    "(P {} ok {} (p {} {} {} {} ({})) {})",
                    key,
                    n,
                    hex(text.as_bytes()),
                    span_str(p.span()),
                    first,
                    last,
                    crate::ser::flat_tokens(p.to_token_stream()),
                    unx(u)
                ));
            }
            Err(e) => out.push(format!("(P {} err {})", key, err_pos(&e))),
        }
        // closures are only ever parsed where the pattern starts with `|` or `move`
        let starts = match &suffix[0] {
            TokenTree::Punct(p) => p.as_char() == '|',
            TokenTree::Ident(id) => id == "move",
            _ => false,
        };
        if starts {
            match run(suffix, |input| input.parse::<syn::ExprClosure>()) {
                Ok((c, n, u)) => {
                    let text = quote! { #c }.to_string();
                    let isp = syn::Error::new_spanned(&c.inputs, "x").span();
                    out.push(format!(
                        "(C {} ok {} (e {} 0 {} ({})) {} {} {})",
                        key,
                        n,
                        hex(text.as_bytes()),
                        span_str(c.span()),
                        crate::ser::flat_tokens(c.to_token_stream()),
                        c.inputs.len(),
                        span_str(isp),
                        unx(u)
                    ));
                }
                Err(e) => out.push(format!("(C {} err {})", key, err_pos(&e))),
            }
        }
        if let TokenTree::Group(g) = &suffix[0] {
            let inner: Vec<TokenTree> = g.stream().into_iter().collect();
            entries_for(&inner, out);
        }
    }
}

pub fn tables(ts: &TokenStream) -> String {
    let list: Vec<TokenTree> = ts.clone().into_iter().collect();
    let mut out = Vec::new();
    entries_for(&list, &mut out);
    out.join(" ")
}
