mod nodes;

use crate::AssertStruct;
use crate::pattern::{
    ComparisonOp, FieldAssertion, FieldOperation, Pattern, PatternClosure, PatternComparison,
    PatternEnum, PatternMap, PatternRange, PatternSet, PatternSimple, PatternSlice, PatternString,
    PatternStruct, PatternTuple, PatternWildcard, TupleElement,
};
#[cfg(feature = "regex")]
use crate::pattern::{PatternLike, PatternRegex};
use proc_macro2::{Ident, Span, TokenStream};
use quote::{quote, quote_spanned};
use std::collections::HashSet;
use syn::{Token, punctuated::Punctuated, spanned::Spanned};

use nodes::{expand_pattern_node_ident, generate_pattern_nodes};

pub fn expand(assert: &AssertStruct) -> TokenStream {
    let value = &assert.value;
    let pattern = &assert.pattern;

    // Generate pattern nodes using the node IDs from the patterns
    let mut node_defs = Vec::new();
    let root_ref = generate_pattern_nodes(pattern, &mut node_defs, None);

    // Generate static declarations for all nodes
    let node_constants: Vec<TokenStream> = node_defs
        .iter()
        .map(|(id, def)| {
            let ident = Ident::new(&format!("__PATTERN_NODE_{}", id), Span::call_site());
            quote! {
                static #ident: ::assert_struct::__macro_support::PatternNode = #def;
            }
        })
        .collect();

    let assertion = expand_pattern_assertion(&quote! { #value }, pattern);

    // Wrap in a block to avoid variable name conflicts
    quote! {
        {
            // Suppress clippy warnings that are expected in macro-generated code
            #[allow(unused_assignments, clippy::neg_cmp_op_on_partial_ord, clippy::op_ref, clippy::zero_prefixed_literal, clippy::bool_comparison, clippy::redundant_pattern_matching, clippy::useless_asref)]
            let __assert_struct_result = {
                use std::convert::AsRef;

                // Generate all node constants
                #(#node_constants)*

                // Store the pattern tree root
                const __PATTERN_TREE: &::assert_struct::__macro_support::PatternNode = &#root_ref;

                // Create error report. Both values are compile-time constants:
                // - CARGO_MANIFEST_DIR: absolute path to this package's root
                // - file!(): path relative to the workspace root
                // Together they let us derive the absolute source path at runtime
                // without relying on the working directory.
                let mut __report = ::assert_struct::__macro_support::ErrorReport::new(
                    ::std::env!("CARGO_MANIFEST_DIR"),
                    ::std::file!(),
                );

                #assertion

                // Check if any errors were collected
                if !__report.is_empty() {
                    panic!("{}", __report);
                }
            };
            __assert_struct_result
        }
    }
}

/// Generate assertion code with error collection instead of immediate panic.
fn expand_pattern_assertion(value_expr: &TokenStream, pattern: &Pattern) -> TokenStream {
    match pattern {
        Pattern::Simple(simple_pattern) => expand_simple_assertion(value_expr, simple_pattern),
        Pattern::String(string_pattern) => expand_string_assertion(value_expr, string_pattern),
        Pattern::Struct(struct_pattern) => expand_struct_assertion(value_expr, struct_pattern),
        Pattern::Comparison(comparison_pattern) => {
            expand_comparison_assertion(value_expr, comparison_pattern)
        }
        Pattern::Enum(enum_pattern) => {
            // Enum tuple variant - use collection version
            expand_enum_assertion(value_expr, enum_pattern)
        }
        Pattern::Tuple(tuple_pattern) => {
            // Plain tuple - use collection version for proper error collection
            expand_tuple_assertion(value_expr, tuple_pattern)
        }
        Pattern::Wildcard(_) => {
            // Wildcard patterns generate no assertions - they just verify the field exists
            // which is already handled by the struct/tuple destructuring
            quote! {}
        }
        Pattern::Range(range_pattern) => {
            // Generate improved range assertion with error collection
            expand_range_assertion(value_expr, range_pattern)
        }
        Pattern::Slice(slice_pattern) => {
            // Generate slice assertion with error collection
            expand_slice_assertion(value_expr, slice_pattern)
        }
        #[cfg(feature = "regex")]
        Pattern::Regex(regex_pattern) => {
            // Generate regex assertion with error collection
            expand_regex_assertion(value_expr, regex_pattern)
        }
        #[cfg(feature = "regex")]
        Pattern::Like(like_pattern) => {
            // Generate Like trait assertion with error collection
            expand_like_assertion(value_expr, like_pattern)
        }
        Pattern::Closure(closure_pattern) => {
            // Generate closure assertion with error collection
            expand_closure_assertion(value_expr, closure_pattern)
        }
        Pattern::Map(map_pattern) => {
            // Generate map assertion with error collection
            expand_map_assertion(value_expr, map_pattern)
        }
        Pattern::Set(set_pattern) => {
            // Generate set assertion with backtracking
            expand_set_assertion(value_expr, set_pattern)
        }
    }
}

/// Generate struct assertion with error collection for multiple field failures
fn expand_struct_assertion(value_expr: &TokenStream, pattern: &PatternStruct) -> TokenStream {
    let struct_path = &pattern.path;
    let fields = &pattern.fields;
    let rest = pattern.rest;

    // If struct_path is None, it's a wildcard pattern - use field access
    let Some(struct_path) = struct_path.as_ref() else {
        return expand_struct_wildcard_assertion(value_expr, fields);
    };

    // For nested field access, we need to collect unique field names only
    // If we have middle.inner.value and middle.count, we only want "middle" once
    let mut unique_field_names = HashSet::new();
    let field_names: Vec<_> = fields
        .iter()
        .filter_map(|f| {
            let field_name = f.operations.root_field_name();
            if unique_field_names.insert(field_name.clone()) {
                Some(field_name)
            } else {
                None
            }
        })
        .collect();

    let rest_pattern = if !rest {
        quote! {}
    } else if field_names.is_empty() {
        // `Path { , .. }` is not valid Rust
        quote! { .. }
    } else {
        quote! { , .. }
    };

    // Bind each field to a reserved name so that the bindings cannot shadow the
    // caller's variables inside pattern expressions (`age: == age`).
    let field_bindings: Vec<_> = field_names.iter().map(field_binding).collect();

    let field_assertions: Vec<_> = fields
        .iter()
        .map(|f| {
            let field_binding = field_binding(&f.operations.root_field_name());

            // Expand the FieldAssertion starting from the bound field
            let assertion = expand_field_assertion(&quote! { #field_binding }, f);

            // Wrap the assertion with the span of the field pattern if available
            if let Some(span) = f.pattern.span() {
                quote_spanned! {span=> #assertion }
            } else {
                assertion
            }
        })
        .collect();

    let span = struct_path.span();

    let error_push = generate_error_push(
        span,
        quote!(format!("{:?}", #value_expr)),
        quote!(None),
        pattern.node_id,
    );

    quote_spanned! {span=>
        #[allow(unreachable_patterns)]
        match &#value_expr {
            #struct_path { #(#field_names: #field_bindings),* #rest_pattern } => {
                #(#field_assertions)*
            },
            _ => {
                #error_push
            }
        }
    }
}

/// Reserved name for the binding of a destructured field, spanned like the field.
fn field_binding<T: std::fmt::Display + quote::ToTokens>(field_name: &T) -> Ident {
    let span = field_name
        .to_token_stream()
        .into_iter()
        .next()
        .map_or_else(Span::call_site, |token| token.span());
    let name = field_name.to_string();
    Ident::new(
        &format!("__assert_struct_f_{}", name.trim_start_matches("r#")),
        span,
    )
}

/// Generate wildcard struct assertion using direct field access
fn expand_struct_wildcard_assertion(
    value_expr: &TokenStream,
    fields: &Punctuated<FieldAssertion, Token![,]>,
) -> TokenStream {
    let field_assertions: Vec<_> = fields
        .iter()
        .map(|f| {
            let field_name = f.operations.root_field_name();
            let field_pattern = &f.pattern;
            let field_operations = &f.operations;

            // Access the field and apply tail operations
            let base_field_access = quote! { (#value_expr).#field_name };

            let expr = if let Some(tail_ops) = field_operations.tail_operations() {
                // Apply remaining operations after the field access
                apply_field_operations(&base_field_access, &tail_ops)
            } else {
                // No additional operations, take a reference to the field for comparison
                quote! { &#base_field_access }
            };

            // Recursively expand the pattern for this field
            expand_pattern_assertion(&expr, field_pattern)
        })
        .collect();

    quote! {
        #(#field_assertions)*
    }
}

/// Expand a FieldAssertion starting from a bound field name
///
/// This assumes the base field (root field name from the FieldOperation) is already bound
/// to `base`. It applies any tail operations and generates the pattern assertion.
///
/// # Parameters
/// - `base`: Expression for the bound field (e.g., `field_name` or `__tuple_elem_0`)
/// - `field_assertion`: The FieldAssertion to expand
/// - `is_ref_context`: Whether we're in a reference context (from destructuring)
/// - `base_field_path`: The field path up to the base field
fn expand_field_assertion(base: &TokenStream, field_assertion: &FieldAssertion) -> TokenStream {
    let field_operations = &field_assertion.operations;
    let field_pattern = &field_assertion.pattern;

    // Apply tail operations and determine final reference context
    let expr = if let Some(tail_ops) = field_operations.tail_operations() {
        apply_field_operations(base, &tail_ops)
    } else {
        base.clone()
    };

    // Generate the pattern assertion
    expand_pattern_assertion(&expr, field_pattern)
}

/// Apply field operations to a value expression
/// This generates the appropriate dereferencing, method calls, nested field access, index operations, or await
///
/// # Parameters
/// - `base_expr`: The base expression to apply operations to
/// - `operation`: The field operation to apply
/// - `in_ref_context`: Whether we're in a reference context (from destructuring `&value`)
fn apply_field_operations(base_expr: &TokenStream, operation: &FieldOperation) -> TokenStream {
    match operation {
        FieldOperation::Deref { count, span } => {
            let mut expr = base_expr.clone();
            // In reference context, we need one extra dereference
            let total_count = count + 1;
            for _ in 0..total_count {
                expr = quote_spanned! { *span=> *#expr };
            }
            expr
        }
        FieldOperation::Method { name, args, span } => {
            if args.is_empty() {
                quote_spanned! { *span=> #base_expr.#name() }
            } else {
                quote_spanned! { *span=> #base_expr.#name(#(#args),*) }
            }
        }
        FieldOperation::Await { span } => {
            quote_spanned! { *span=> #base_expr.await }
        }
        FieldOperation::NamedField { name, span } => {
            quote_spanned! { *span=> #base_expr.#name }
        }
        FieldOperation::UnnamedField { index, span } => {
            let idx = syn::Index::from(*index);
            quote_spanned! { *span=> #base_expr.#idx }
        }
        FieldOperation::Index { index, span } => {
            quote_spanned! { *span=> #base_expr[#index] }
        }
        FieldOperation::Chained { operations, .. } => {
            let mut expr = base_expr.clone();
            for op in operations {
                expr = apply_field_operations(&expr, op);
            }
            expr
        }
    }
}

/// Helper function to process tuple elements and generate match patterns and assertions.
///
/// This function handles the common pattern of iterating through elements and:
/// - Creating `_` patterns for wildcards (which need no assertions)
/// - Creating named bindings for other patterns and generating their assertions
/// - Handling field operations like dereferencing
///
/// # Parameters
/// - `elements`: The tuple elements to process (can be positional or indexed)
/// - `prefix`: Prefix for generated binding names (e.g., "__elem_", "__tuple_elem_")
/// - `is_ref`: Whether the bindings are already references
/// - `field_path`: Path components for error messages
///
/// # Returns
/// A tuple of (match_patterns, assertions) where:
/// - `match_patterns`: TokenStreams for use in match arms or destructuring
/// - `assertions`: TokenStreams for the generated assertion code
fn process_tuple_elements(
    elements: &[TupleElement],
    prefix: &str,
) -> (Vec<TokenStream>, Vec<TokenStream>) {
    let mut match_patterns = Vec::new();
    let mut assertions = Vec::new();

    for (i, tuple_element) in elements.iter().enumerate() {
        match tuple_element {
            TupleElement::Positional(pattern) => {
                match &**pattern {
                    Pattern::Wildcard(PatternWildcard { .. }) => {
                        // Wildcard patterns use `_` in the match pattern
                        match_patterns.push(quote! { _ });
                    }
                    _ => {
                        // Non-wildcard patterns need a binding and assertion
                        let name = quote::format_ident!("{}{}", prefix, i);
                        match_patterns.push(quote! { #name });

                        // Generate assertion with error collection
                        let assertion = expand_pattern_assertion(&quote! { #name }, pattern);
                        assertions.push(assertion);
                    }
                }
            }
            TupleElement::Indexed(boxed_elem) => {
                let pattern = &boxed_elem.pattern;

                match pattern {
                    Pattern::Wildcard(PatternWildcard { .. }) => {
                        // Wildcard patterns use `_` in the match pattern
                        match_patterns.push(quote! { _ });
                    }
                    _ => {
                        // Non-wildcard patterns need a binding and assertion
                        let name = quote::format_ident!("{}{}", prefix, i);
                        match_patterns.push(quote! { #name });

                        // Expand the indexed FieldAssertion starting from the bound element name
                        let assertion = expand_field_assertion(&quote! { #name }, boxed_elem);
                        assertions.push(assertion);
                    }
                }
            }
        }
    }

    (match_patterns, assertions)
}

/// Generate assertion for plain tuples with error collection.
/// Uses match expressions for consistency with enum tuple handling.
fn expand_tuple_assertion(value_expr: &TokenStream, pattern: &PatternTuple) -> TokenStream {
    let elements = &pattern.elements;
    // Use helper to process elements with collection strategy
    let (match_patterns, element_assertions) = process_tuple_elements(elements, "__tuple_elem_");

    quote! {
        #[allow(unreachable_patterns)]
        match &#value_expr {
            (#(#match_patterns),*) => {
                #(#element_assertions)*
            },
            _ => unreachable!("Plain tuple match should always succeed"),
        }
    }
}

// Check if a path refers to Option::Some

/// Generate comparison assertion with error collection
fn expand_comparison_assertion(
    value_expr: &TokenStream,
    pattern: &PatternComparison,
) -> TokenStream {
    let op = &pattern.op;
    let expected = &pattern.expr;

    let span = expected.span();

    let comparison = {
        // For index operations, avoid references on both sides
        match &pattern.op {
            ComparisonOp::Less(_) => quote_spanned! {span=> (#value_expr).lt(&(#expected)) },
            ComparisonOp::LessEqual(_) => quote_spanned! {span=> (#value_expr).le(&(#expected)) },
            ComparisonOp::Greater(_) => quote_spanned! {span=> (#value_expr).gt(&(#expected)) },
            ComparisonOp::GreaterEqual(_) => {
                quote_spanned! {span=> (#value_expr).ge(&(#expected)) }
            }
            ComparisonOp::Equal(_) => quote_spanned! {span=> (#value_expr).eq(&(#expected)) },
            ComparisonOp::NotEqual(_) => quote_spanned! {span=> (#value_expr).ne(&(#expected)) },
        }
    };

    let expected_value = if matches!(op, ComparisonOp::Equal(_)) {
        let expected_str = quote! { #expected }.to_string();
        quote!(Some(#expected_str.to_string()))
    } else {
        quote!(None)
    };

    let error_push = generate_error_push(
        span,
        quote!(format!("{:?}", #value_expr)),
        expected_value,
        pattern.node_id,
    );

    quote_spanned! {span=>
        #[allow(clippy::nonminimal_bool)]
        if !(#comparison) {
            #error_push
        }
    }
}

/// Generate assertion for enum tuple variants with error collection
fn expand_enum_assertion(value_expr: &TokenStream, pattern: &PatternEnum) -> TokenStream {
    let variant_path = &pattern.path;
    let elements = &pattern.elements;
    let span = variant_path.span();

    let error_push = generate_error_push(
        span,
        quote!(format!("{:?}", #value_expr)),
        quote!(None),
        pattern.node_id,
    );

    // Special handling for unit variants (empty elements)
    if elements.is_empty() {
        quote_spanned! {span=>
            if !matches!(#value_expr, #variant_path) {
                #error_push
            }
        }
    } else {
        // Use helper to process elements with appropriate path
        let (match_patterns, element_assertions) = process_tuple_elements(elements, "__elem_");

        quote_spanned! {span=>
            #[allow(unreachable_patterns)]
            match &#value_expr {
                #variant_path(#(#match_patterns),*) => {
                    #(#element_assertions)*
                },
                _ => {
                    #error_push
                }
            }
        }
    }
}

/// Generate range assertion with error collection
fn expand_range_assertion(value_expr: &TokenStream, pattern: &PatternRange) -> TokenStream {
    let range = &pattern.expr;

    let span = range.span();
    let error_push = generate_error_push(
        span,
        quote!(format!("{:?}", #value_expr)),
        quote!(None),
        pattern.node_id,
    );

    // A `match` range pattern only accepts literals and paths to constants as bounds,
    // so `1..=limit` with a local `limit`, or `0..MAX + 1`, does not compile. A constant
    // cannot be told apart from a local here, so whenever a bound is not a plain literal
    // check the bounds with `PartialOrd` instead, the same way comparison patterns do.
    if let syn::Expr::Range(r) = range {
        let start = r.start.as_deref();
        let end = r.end.as_deref();

        if !start.into_iter().chain(end).all(is_literal_bound) {
            let lower = start.map(|s| quote_spanned! {span=> (#value_expr).ge(&(#s)) });
            let upper = end.map(|e| match r.limits {
                syn::RangeLimits::HalfOpen(_) => quote_spanned! {span=> (#value_expr).lt(&(#e)) },
                syn::RangeLimits::Closed(_) => quote_spanned! {span=> (#value_expr).le(&(#e)) },
            });
            let in_range = match (lower, upper) {
                (Some(lower), Some(upper)) => quote_spanned! {span=> #lower && #upper },
                (Some(bound), None) | (None, Some(bound)) => bound,
                (None, None) => quote!(true),
            };

            return quote_spanned! {span=>
                #[allow(clippy::nonminimal_bool)]
                if !(#in_range) {
                    #error_push
                }
            };
        }
    }

    quote_spanned! {span=>
        match &#value_expr {
            #range => {},
            _ => {
                #error_push
            }
        }
    }
}

/// Whether a range bound can be written as-is in a `match` range pattern: a literal or
/// a negated literal (`18`, `0.5`, `'a'`, `-100`).
fn is_literal_bound(bound: &syn::Expr) -> bool {
    match bound {
        syn::Expr::Lit(_) => true,
        syn::Expr::Unary(syn::ExprUnary {
            op: syn::UnOp::Neg(_),
            expr,
            ..
        }) => matches!(**expr, syn::Expr::Lit(_)),
        _ => false,
    }
}

/// Generate string literal assertion with error collection
/// String literals always use .as_ref() to handle String/&str matching
fn expand_string_assertion(value_expr: &TokenStream, pattern: &PatternString) -> TokenStream {
    let lit = &pattern.lit;

    // String patterns always use .as_ref() to handle String/&str matching
    let span = lit.span();
    let error_push = generate_error_push(
        span,
        quote!(format!("{:?}", __assert_struct_actual)),
        quote!(None),
        pattern.node_id,
    );

    quote_spanned! {span=> {
        // Take a reference to the expression result so that:
        // 1. Temporaries (e.g. from method calls returning String) live for the
        //    entire block - fixes E0716 "temporary dropped while borrowed".
        // 2. Reference-typed expressions (e.g. from index operations) are not
        //    moved - fixes E0507 "cannot move out of shared reference".
        let __assert_struct_tmp = &#value_expr;
        let __assert_struct_actual = (*__assert_struct_tmp).as_ref();
        if !matches!(__assert_struct_actual, #lit) {
            #error_push
        }
    }}
}

/// Generate simple assertion with error collection
fn expand_simple_assertion(actual: &TokenStream, pattern: &PatternSimple) -> TokenStream {
    let expected = &pattern.expr;
    let span = expected.span();
    let error_push = generate_error_push(
        span,
        quote!(format!("{:?}", #actual)),
        quote!(None),
        pattern.node_id,
    );

    quote_spanned! {span=>
        if !matches!(#actual, #expected) {
            #error_push
        }
    }
}

/// Generate slice assertion with error collection
fn expand_slice_assertion(value_expr: &TokenStream, pattern: &PatternSlice) -> TokenStream {
    let mut pattern_parts = Vec::new();
    let mut bindings_and_assertions = Vec::new();

    for (i, elem) in pattern.elements.iter().enumerate() {
        match elem {
            Pattern::Range(PatternRange {
                expr: syn::Expr::Range(r),
                ..
            }) if r.start.is_none() && r.end.is_none() => {
                // RangeFull (..) in slice context is a rest pattern
                pattern_parts.push(quote! { .. });
            }
            Pattern::Wildcard(PatternWildcard { .. }) => {
                // Wildcard pattern matches any single element without binding
                pattern_parts.push(quote! { _ });
            }
            _ => {
                let binding = quote::format_ident!("__elem_{}", i);
                pattern_parts.push(quote! { #binding });

                let assertion = expand_pattern_assertion(&quote! { #binding }, elem);
                bindings_and_assertions.push(assertion);
            }
        }
    }

    // Convert Vec to slice for matching
    let slice_expr = quote! { (#value_expr).as_slice() };

    let error_push = generate_error_push(
        proc_macro2::Span::call_site(),
        quote!(format!("{:?}", &#value_expr)),
        quote!(None),
        pattern.node_id,
    );

    quote! {
        match #slice_expr {
            [#(#pattern_parts),*] => {
                #(#bindings_and_assertions)*
            }
            _ => {
                #error_push
            }
        }
    }
}

#[cfg(feature = "regex")]
/// Generate regex assertion with error collection
fn expand_regex_assertion(value_expr: &TokenStream, pattern: &PatternRegex) -> TokenStream {
    let pattern_str = &pattern.pattern;
    let span = pattern.span;

    let error_push = generate_error_push(
        span,
        quote!(format!("{:?}", #value_expr)),
        quote!(None),
        pattern.node_id,
    );

    quote_spanned! {span=>
        {
            use ::assert_struct::Like;
            let __assert_struct_re = ::assert_struct::__macro_support::Regex::new(#pattern_str)
                .expect(concat!("Invalid regex pattern: ", #pattern_str));
            if !(#value_expr).like(&__assert_struct_re) {
                #error_push
            }
        }
    }
}

#[cfg(feature = "regex")]
/// Generate Like trait assertion with error collection
fn expand_like_assertion(value_expr: &TokenStream, pattern: &PatternLike) -> TokenStream {
    let pattern_expr = &pattern.expr;

    let span = pattern_expr.span();
    let actual_value = quote!(format!("{:?}", #value_expr));

    let error_push = generate_error_push(span, actual_value, quote!(None), pattern.node_id);

    quote_spanned! {span=>
        {
            use ::assert_struct::Like;
            if !(#value_expr).like(&#pattern_expr) {
                #error_push
            }
        }
    }
}

/// Generate closure assertion with error collection
fn expand_closure_assertion(value_expr: &TokenStream, pattern: &PatternClosure) -> TokenStream {
    let closure = &pattern.closure;
    let span = closure.span();

    let error_push = generate_error_push(
        span,
        quote!(format!("{:?}", #value_expr)),
        quote!(None),
        pattern.node_id,
    );

    quote_spanned! {span=>
        {
            if !::assert_struct::__macro_support::check_closure_condition(#value_expr, #closure) {
                #error_push
            }
        }
    }
}

/// Generate map assertion with error collection using duck typing
/// Assumes map types have len() -> usize and get(&K) -> Option<&V> methods
fn expand_map_assertion(value_expr: &TokenStream, pattern: &PatternMap) -> TokenStream {
    let entries = &pattern.entries;
    let rest = pattern.rest;

    // Use span from first entry or default span if empty
    let map_span = entries
        .first()
        .map(|(key, _)| key.span())
        .unwrap_or_else(proc_macro2::Span::call_site);

    // Generate length check assertion for exact matching (when no rest pattern)
    let len_check = if !rest {
        let expected_len = entries.len();
        let error_push = generate_error_push(
            map_span,
            quote!(format!("map with {} entries", (#value_expr).len())),
            quote!(Some(format!("{} entries", #expected_len))),
            pattern.node_id,
        );
        quote_spanned! {map_span=>
            // Check exact length for maps without rest pattern
            if (#value_expr).len() != #expected_len {
                #error_push
            }
        }
    } else {
        quote! {}
    };

    // Generate key-value assertions
    let key_value_assertions: Vec<TokenStream> = entries
        .iter()
        .map(|(key, value_pattern)| {
            let key_str = quote! { #key }.to_string();

            let span = key.span();
            let pattern_assertion =
                expand_pattern_assertion(&quote! { __map_value }, value_pattern);

            let missing_key_error = generate_error_push(
                span,
                quote!("missing key".to_string()),
                quote!(Some(format!("key present: {}", #key_str))),
                pattern.node_id,
            );

            // Handle different key types for duck typing
            let get_expr = if matches!(
                key,
                syn::Expr::Lit(syn::ExprLit {
                    lit: syn::Lit::Str(_),
                    ..
                })
            ) {
                // For string literals, convert to String to match HashMap<String, V>
                quote_spanned! {span=> (#value_expr).get(&(#key).to_string()) }
            } else {
                // For other expressions, try as-is
                quote_spanned! {span=> (#value_expr).get(&#key) }
            };

            quote_spanned! {span=>
                // Check if key exists and apply pattern to the value
                match #get_expr {
                    Some(__map_value) => {
                        // Apply pattern assertion to the value
                        #pattern_assertion
                    }
                    None => {
                        #missing_key_error
                    }
                }
            }
        })
        .collect();

    quote! {
        #len_check
        #(#key_value_assertions)*
    }
}

/// Generate set assertion using backtracking to match patterns in any order.
///
/// Each element pattern becomes a predicate closure that shadows `__report` with a
/// probe report, allowing the existing assertion code to be reused unchanged. The
/// runtime `set_match` function owns the length check and backtracking algorithm.
fn expand_set_assertion(value_expr: &TokenStream, pattern: &PatternSet) -> TokenStream {
    let elements = &pattern.elements;
    let rest = pattern.rest;
    let node_ident = expand_pattern_node_ident(pattern.node_id);

    // Generate one named predicate binding per element pattern.
    // Each closure:
    //   1. Looks up the element by index from __set_coll (captured by ref)
    //   2. Shadows __report with a fresh probe report
    //   3. Runs the generated assertion (which writes to the local __report)
    //   4. Returns true iff no errors were pushed (i.e. the pattern matched)
    let pred_names: Vec<_> = (0..elements.len())
        .map(|i| quote::format_ident!("__set_pred_{}", i))
        .collect();

    let pred_defs: Vec<TokenStream> = elements
        .iter()
        .zip(pred_names.iter())
        .map(|(elem, name)| {
            let assertion = expand_pattern_assertion(&quote! { __set_elem }, elem);
            quote! {
                let #name = |__set_idx: usize| -> bool {
                    let __set_elem = __set_coll[__set_idx];
                    #[allow(unused_mut)]
                    let mut __report = ::assert_struct::__macro_support::ErrorReport::new_probe();
                    #assertion
                    __report.is_empty()
                };
            }
        })
        .collect();

    quote! {
        {
            // Bind the source first so that a by-value result (a method call, a function
            // call) lives as long as the references collected from it.
            let __set_src = &(#value_expr);
            let __set_coll: ::std::vec::Vec<_> = __set_src.into_iter().collect();
            #(#pred_defs)*
            let __set_preds: &[&dyn ::std::ops::Fn(usize) -> bool] = &[#(&#pred_names),*];
            ::assert_struct::__macro_support::set_match(
                __set_coll.len(),
                #rest,
                __set_preds,
                &mut __report,
                &#node_ident,
            );
        }
    }
}

/// Generate the error context creation and push code
fn generate_error_push(
    span: proc_macro2::Span,
    actual_value: TokenStream,
    expected_value: TokenStream,
    node_id: usize,
) -> TokenStream {
    let node_ident = expand_pattern_node_ident(node_id);
    quote_spanned! {span=>
        __report.push(&#node_ident, #actual_value, #expected_value);
    }
}
