//! Tuple pattern types and utilities.
//!
//! Handles raw tuple patterns: (10, 20), (> 10, < 30)

use syn::{
    Token,
    parse::{Parse, ParseStream},
};

use crate::parse::next_node_id;
use crate::pattern::field::FieldName;
use crate::pattern::{FieldAssertion, FieldOperation, Pattern};

/// Tuple pattern: (10, 20) or (> 10, < 30)
/// Supports mixed positional and indexed elements
/// Note: Enum tuple variants like Some(42) are handled by PatternEnum
#[derive(Debug, Clone)]
pub(crate) struct PatternTuple {
    pub node_id: usize,
    pub span: proc_macro2::Span,
    pub elements: Vec<TupleElement>,
}

impl Parse for PatternTuple {
    /// Parses a standalone tuple pattern without a path prefix.
    ///
    /// # Example Input
    /// ```text
    /// (10, 20)
    /// (> 10, < 30)
    /// (== 5, != 10)
    /// ```
    ///
    /// This parses parenthesized tuple elements. For enum/tuple variants
    /// with a path prefix (e.g., `Some(> 30)`), use PatternEnum instead.
    fn parse(input: ParseStream) -> syn::Result<Self> {
        // Capture the span of the `(` token before consuming it.
        let span = input.span();
        let content;
        syn::parenthesized!(content in input);

        let elements = TupleElement::parse_comma_separated(&content)?;

        Ok(PatternTuple {
            node_id: next_node_id(),
            span,
            elements,
        })
    }
}

/// Represents an element in a tuple pattern, supporting both positional and indexed syntax
///
/// Indexed elements are essentially field assertions where the field name is a numeric
/// identifier (e.g., "0", "1", "2"). This unifies tuple indexing with struct field access,
/// allowing all field operations to work seamlessly.
#[derive(Debug, Clone)]
pub(crate) enum TupleElement {
    /// Positional element in sequence order
    /// Example: "foo", > 10, Some(42)
    /// Boxed to reduce enum size since Pattern is large
    Positional(Box<Pattern>),

    /// Indexed element with explicit numeric field name
    /// The field_name will be a synthetic ident like "_0", "_1", "_2"
    /// Boxed to reduce enum size due to larger FieldAssertion struct
    Indexed(Box<FieldAssertion>),
}

impl TupleElement {
    /// Parse a comma-separated list of tuple elements, supporting both positional and indexed syntax.
    /// Used inside tuple patterns to handle mixed syntax like ("foo", *1: "bar", "baz")
    pub(crate) fn parse_comma_separated(input: ParseStream) -> syn::Result<Vec<Self>> {
        let mut elements = Vec::new();
        let mut position = 0;

        while !input.is_empty() {
            // Try to parse as indexed element by attempting FieldOperation parse
            let fork = input.fork();

            if fork.parse::<Pattern>().is_ok() && !fork.peek(Token![:]) {
                // Parse as positional pattern
                let pattern = input.parse()?;
                elements.push(TupleElement::Positional(Box::new(pattern)));
            } else {
                // Parse as indexed element
                let operations: FieldOperation = input.parse()?;
                let root_field = operations.root_field_name();

                // Validate that the index matches the current position
                match root_field {
                    FieldName::Index(index) if index == position => {
                        // Valid indexed element
                        let _: Token![:] = input.parse()?;
                        let pattern = input.parse()?;

                        elements.push(TupleElement::Indexed(Box::new(FieldAssertion {
                            operations,
                            pattern,
                        })));
                    }
                    FieldName::Index(index) => {
                        // Index doesn't match position
                        return Err(syn::Error::new(
                            input.span(),
                            format!("Index {} must match position {} in tuple", index, position),
                        ));
                    }
                    FieldName::Ident(_) => {
                        // Index doesn't match position
                        return Err(syn::Error::new(
                            input.span(),
                            "Operations like * can only be used with indexed elements (e.g., *0:, *1:)",
                        ));
                    }
                }
            }

            position += 1;

            if !input.is_empty() {
                let _: Token![,] = input.parse()?;
            }
        }

        Ok(elements)
    }
}
