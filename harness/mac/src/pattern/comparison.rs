//! Comparison pattern types and parsing.
//!
//! This module defines comparison operators and patterns like `> 30`, `<= 100`, etc.

use proc_macro2::Span;
use syn::{Token, parse::Parse, spanned::Spanned};

use crate::parse::next_node_id;

/// Comparison pattern: > 30, <= 100
#[derive(Debug, Clone)]
pub(crate) struct PatternComparison {
    pub node_id: usize,
    pub op: ComparisonOp,
    pub expr: syn::Expr,
}

#[derive(Debug, Clone)]
pub(crate) enum ComparisonOp {
    Less(Token![<]),
    LessEqual(Token![<=]),
    Greater(Token![>]),
    GreaterEqual(Token![>=]),
    Equal(Token![==]),
    NotEqual(Token![!=]),
}

impl ComparisonOp {
    pub fn span(&self) -> Span {
        match self {
            ComparisonOp::Less(t) => t.span(),
            ComparisonOp::LessEqual(t) => t.span(),
            ComparisonOp::Greater(t) => t.span(),
            ComparisonOp::GreaterEqual(t) => t.span(),
            ComparisonOp::Equal(t) => t.span(),
            ComparisonOp::NotEqual(t) => t.span(),
        }
    }
}

impl Parse for ComparisonOp {
    fn parse(input: syn::parse::ParseStream) -> syn::Result<Self> {
        // Check compound operators before their single-char prefixes, since
        // peek(Token![<]) also matches the `<` in `<=`.
        if input.peek(Token![<=]) {
            Ok(ComparisonOp::LessEqual(input.parse()?))
        } else if input.peek(Token![<]) {
            Ok(ComparisonOp::Less(input.parse()?))
        } else if input.peek(Token![>=]) {
            Ok(ComparisonOp::GreaterEqual(input.parse()?))
        } else if input.peek(Token![>]) {
            Ok(ComparisonOp::Greater(input.parse()?))
        } else if input.peek(Token![==]) {
            Ok(ComparisonOp::Equal(input.parse()?))
        } else if input.peek(Token![!=]) {
            Ok(ComparisonOp::NotEqual(input.parse()?))
        } else {
            Err(input.error("expected comparison operator (<, <=, >, >=, ==, !=)"))
        }
    }
}

impl Parse for PatternComparison {
    fn parse(input: syn::parse::ParseStream) -> syn::Result<Self> {
        let op: ComparisonOp = input.parse()?;
        let expr: syn::Expr = input.parse()?;
        Ok(PatternComparison {
            node_id: next_node_id(),
            op,
            expr,
        })
    }
}
