//! Enum pattern types for tuple-style enum variants.
//!
//! Handles enum tuple patterns: Some(42), Event::Click(>= 0, < 100), Ok(> 0)

use syn::parse::{Parse, ParseStream};

use crate::parse::next_node_id;
use crate::pattern::tuple::TupleElement;

/// Enum tuple pattern: Some(42), Event::Click(>= 0, < 100), or Status::Active
/// Always has a path prefix (the enum variant) and optional tuple elements
#[derive(Debug, Clone)]
pub(crate) struct PatternEnum {
    pub node_id: usize,
    pub path: syn::Path,
    pub elements: Vec<TupleElement>,
}

impl Parse for PatternEnum {
    /// Parses an enum pattern with a required path prefix.
    ///
    /// # Example Input
    /// ```text
    /// Some(> 30)
    /// Event::Click(>= 0, < 100)
    /// Ok(== 42)
    /// Status::Active    // Unit variant (no parens)
    /// ```
    ///
    /// This assumes the input starts with a path, optionally followed by parenthesized content.
    fn parse(input: ParseStream) -> syn::Result<Self> {
        let path: syn::Path = input.parse()?;

        // Check if there are parentheses (tuple variant) or not (unit variant)
        let elements = if input.peek(syn::token::Paren) {
            let content;
            syn::parenthesized!(content in input);
            TupleElement::parse_comma_separated(&content)?
        } else {
            // Unit variant - no elements
            vec![]
        };

        Ok(PatternEnum {
            node_id: next_node_id(),
            path,
            elements,
        })
    }
}
