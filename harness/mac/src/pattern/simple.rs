//! Simple value patterns for direct equality matching.
//!
//! Examples: 42, "hello", true, my_variable

use syn::parse::Parse;

use crate::parse::next_node_id;

/// Simple value pattern: 42, "hello", true
#[derive(Debug, Clone)]
pub(crate) struct PatternSimple {
    pub node_id: usize,
    pub expr: syn::Expr,
}

impl Parse for PatternSimple {
    /// Parses a simple expression pattern.
    ///
    /// # Example Input
    /// ```text
    /// 42
    /// "hello"
    /// true
    /// my_variable
    /// compute_value()
    /// ```
    ///
    /// This parses any valid Rust expression except ranges (handled by PatternRange).
    fn parse(input: syn::parse::ParseStream) -> syn::Result<Self> {
        let expr = input.parse::<syn::Expr>()?;

        Ok(PatternSimple {
            node_id: next_node_id(),
            expr,
        })
    }
}
