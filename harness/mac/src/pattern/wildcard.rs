//! Wildcard pattern types.
//!
//! Handles _ pattern for ignoring values

use syn::{Token, parse::Parse};

use crate::parse::next_node_id;

/// Wildcard pattern: _ for ignoring a value while asserting it exists
#[derive(Debug, Clone)]
pub(crate) struct PatternWildcard {
    pub node_id: usize,
}

impl Parse for PatternWildcard {
    /// Parses a wildcard pattern: `_`
    ///
    /// # Example Input
    /// ```text
    /// _
    /// ```
    fn parse(input: syn::parse::ParseStream) -> syn::Result<Self> {
        let _: Token![_] = input.parse()?;
        Ok(PatternWildcard {
            node_id: next_node_id(),
        })
    }
}
