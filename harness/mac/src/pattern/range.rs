//! Range pattern types.
//!
//! Handles range patterns: 10..20, 0..=100

use syn::parse::Parse;

use crate::parse::next_node_id;

/// Range pattern: 10..20, 0..=100
#[derive(Debug, Clone)]
pub(crate) struct PatternRange {
    pub node_id: usize,
    pub expr: syn::Expr,
}

impl Parse for PatternRange {
    /// Parses a range pattern expression.
    ///
    /// # Example Input
    /// ```text
    /// 10..20
    /// 0..=100
    /// ..10
    /// 5..
    /// ```
    ///
    /// This parses any valid Rust range expression.
    fn parse(input: syn::parse::ParseStream) -> syn::Result<Self> {
        let expr: syn::Expr = input.parse()?;

        // Verify this is actually a range expression
        if !matches!(expr, syn::Expr::Range(_)) {
            return Err(syn::Error::new_spanned(
                &expr,
                "Expected a range expression",
            ));
        }

        Ok(PatternRange {
            node_id: next_node_id(),
            expr,
        })
    }
}
