//! String literal patterns for direct equality matching.
//!
//! Examples: "hello", "world"

use syn::LitStr;

use crate::parse::next_node_id;

/// String literal pattern: "hello", "world"
/// Separated from PatternSimple to handle the special .as_ref() logic during expansion
#[derive(Debug, Clone)]
pub(crate) struct PatternString {
    pub node_id: usize,
    pub lit: LitStr,
}

impl PatternString {
    pub fn new(lit: LitStr) -> Self {
        PatternString {
            node_id: next_node_id(),
            lit,
        }
    }
}
