//! Closure pattern types.
//!
//! Handles closure patterns: |x| x > 5

use syn::parse::Parse;

use crate::parse::next_node_id;

/// Closure pattern: |x| expr for custom validation (escape hatch)
#[derive(Debug, Clone)]
pub(crate) struct PatternClosure {
    pub node_id: usize,
    pub closure: syn::ExprClosure,
}

impl Parse for PatternClosure {
    fn parse(input: syn::parse::ParseStream) -> syn::Result<Self> {
        // Closure pattern: |x| expr or move |x| expr for custom validation (escape hatch)
        // Examples: `|x| x > 5`, `move |x| complex_logic(x)`, `|x| { x.len() > 0 }`
        let closure: syn::ExprClosure = input.parse()?;

        // Validate: exactly one parameter
        if closure.inputs.len() != 1 {
            return Err(syn::Error::new_spanned(
                &closure.inputs,
                "Closure must have exactly one parameter",
            ));
        }

        Ok(PatternClosure {
            node_id: next_node_id(),
            closure,
        })
    }
}
