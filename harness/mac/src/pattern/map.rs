//! Map pattern types.
//!
//! Handles map patterns: #{ "key": pattern, .. }

use syn::{Token, parse::Parse};

use crate::parse::next_node_id;
use crate::pattern::Pattern;

/// Map pattern: #{ "key": pattern, .. } for map-like structures
#[derive(Debug, Clone)]
pub(crate) struct PatternMap {
    pub node_id: usize,
    pub span: proc_macro2::Span,
    pub entries: Vec<(syn::Expr, Pattern)>,
    pub rest: bool,
}

impl Parse for PatternMap {
    /// Parses a map pattern: #{ "key": pattern, "key2": pattern, .. }
    ///
    /// # Example Input
    /// ```text
    /// #{ "name": "Alice", "age": >= 18 }
    /// #{ "key": > 5, .. }
    /// ```
    fn parse(input: syn::parse::ParseStream) -> syn::Result<Self> {
        // Consume the # token
        let _: Token![#] = input.parse()?;

        // Capture the span of the `{` token before consuming it.
        let span = input.span();
        let content;
        syn::braced!(content in input);

        // Parse the map entries
        let (entries, rest) = parse_map_entries(&content)?;

        Ok(PatternMap {
            node_id: next_node_id(),
            span,
            entries,
            rest,
        })
    }
}

/// Parse map entries: comma-separated key-value pairs with optional rest pattern
/// Supports syntax like: "key1": pattern1, "key2": pattern2, ..
fn parse_map_entries(
    input: syn::parse::ParseStream,
) -> syn::Result<(Vec<(syn::Expr, Pattern)>, bool)> {
    let mut entries = Vec::new();
    let mut rest = false;

    while !input.is_empty() {
        // Check for rest pattern (..) which allows partial matching
        if input.peek(Token![..]) {
            let _: Token![..] = input.parse()?;
            rest = true;
            break;
        }

        // Parse key expression
        let key: syn::Expr = input.parse()?;

        // Expect colon separator
        let _: Token![:] = input.parse()?;

        // Parse value pattern
        let value = input.parse()?;

        entries.push((key, value));

        if input.is_empty() {
            break;
        }

        let _: Token![,] = input.parse()?;

        // Rest pattern can appear after a comma
        if input.peek(Token![..]) {
            let _: Token![..] = input.parse()?;
            rest = true;
            break;
        }
    }

    Ok((entries, rest))
}
