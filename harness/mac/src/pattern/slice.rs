//! Slice pattern types.
//!
//! Handles slice patterns: [1, 2, 3], [> 0, < 10]

use syn::{Token, parse::Parse};

use crate::parse::next_node_id;
use crate::pattern::Pattern;

/// Slice pattern: [1, 2, 3] or [1, .., 5]
#[derive(Debug, Clone)]
pub(crate) struct PatternSlice {
    pub node_id: usize,
    pub span: proc_macro2::Span,
    pub elements: Vec<Pattern>,
}

impl Parse for PatternSlice {
    /// Parses a slice pattern: [pattern, pattern, ...]
    ///
    /// # Example Input
    /// ```text
    /// [1, 2, 3]
    /// [> 0, < 10, == 5]
    /// ```
    fn parse(input: syn::parse::ParseStream) -> syn::Result<Self> {
        // Capture the span of the `[` token before consuming it.
        let span = input.span();
        let content;
        syn::bracketed!(content in input);

        // Parse the comma-separated list of patterns
        let elements = parse_pattern_list(&content)?;

        Ok(PatternSlice {
            node_id: next_node_id(),
            span,
            elements,
        })
    }
}

/// Parse a comma-separated list of patterns inside brackets.
fn parse_pattern_list(input: syn::parse::ParseStream) -> syn::Result<Vec<Pattern>> {
    let mut patterns = Vec::new();

    while !input.is_empty() {
        patterns.push(input.parse()?);

        if !input.is_empty() {
            let _: Token![,] = input.parse()?;
        }
    }

    Ok(patterns)
}
