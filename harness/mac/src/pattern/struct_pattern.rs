//! Struct pattern types and utilities.
//!
//! Handles struct patterns like User { name: "Alice", age: 30, .. }

use syn::{Token, parse::Parse, punctuated::Punctuated};

use crate::parse::next_node_id;
use crate::pattern::FieldAssertion;

/// Struct pattern: User { name: "Alice", age: 30, .. }
/// When path is None, it's a wildcard pattern: _ { name: "Alice", .. }
#[derive(Debug, Clone)]
pub(crate) struct PatternStruct {
    pub node_id: usize,
    pub path: Option<syn::Path>,
    pub fields: Punctuated<FieldAssertion, Token![,]>,
    pub rest: bool,
}

impl Parse for PatternStruct {
    /// Parses a struct pattern with braces.
    ///
    /// # Example Input
    /// ```text
    /// User { name: "Alice", age: >= 18, .. }
    /// _ { name: "Alice", .. }  // wildcard struct
    /// ```
    ///
    /// Handles both named structs (with a path) and wildcard structs (starting with `_`).
    fn parse(input: syn::parse::ParseStream) -> syn::Result<Self> {
        let node_id = next_node_id();

        // Check if this is a wildcard struct pattern: _ { ... }
        let (path, wildcard_span) = if input.peek(Token![_]) {
            let underscore: Token![_] = input.parse()?;
            (None, Some(underscore.span)) // wildcard has no path
        } else {
            // Named struct pattern: TypeName { ... }
            (Some(input.parse::<syn::Path>()?), None)
        };

        // Parse the braced contents
        let content;
        syn::braced!(content in input);

        // Parse comma-separated field assertions with optional rest pattern (..)
        let mut fields = Punctuated::new();
        let mut rest = false;

        while !content.is_empty() {
            // Check for rest pattern (..) which allows partial matching
            if content.peek(Token![..]) {
                let _: Token![..] = content.parse()?;
                rest = true;
                break;
            }

            fields.push_value(content.parse()?);

            if content.is_empty() {
                break;
            }

            let comma: Token![,] = content.parse()?;
            fields.push_punct(comma);

            // Rest pattern can appear after a comma
            if content.peek(Token![..]) {
                let _: Token![..] = content.parse()?;
                rest = true;
                break;
            }
        }

        // Wildcard struct patterns must use rest pattern (..)
        // to indicate partial matching
        if path.is_none() && !rest {
            return Err(syn::Error::new(
                wildcard_span.unwrap(),
                "Wildcard struct patterns must use '..' for partial matching",
            ));
        }

        Ok(PatternStruct {
            node_id,
            path,
            fields,
            rest,
        })
    }
}
