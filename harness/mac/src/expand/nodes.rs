//! Pattern node generation for error context and display.
//!
//! This module handles generating pattern node structures that are used for
//! displaying helpful error messages when assertions fail.

use crate::pattern::{
    ComparisonOp, Pattern, PatternClosure, PatternComparison, PatternEnum, PatternMap,
    PatternRange, PatternSet, PatternSimple, PatternSlice, PatternString, PatternStruct,
    PatternTuple, PatternWildcard, TupleElement,
};
#[cfg(feature = "regex")]
use crate::pattern::{PatternLike, PatternRegex};
use proc_macro2::{Ident, Span, TokenStream};
use quote::quote;

/// Get the node identifier for a pattern
pub(super) fn expand_pattern_node_ident(node_id: usize) -> Ident {
    Ident::new(&format!("__PATTERN_NODE_{}", node_id), Span::call_site())
}

/// Generate pattern nodes using the IDs already in patterns
pub(super) fn generate_pattern_nodes(
    pattern: &Pattern,
    node_defs: &mut Vec<(usize, TokenStream)>,
    parent_ident: Option<&Ident>,
) -> TokenStream {
    // Get the node_id from the pattern itself
    let node_id = match pattern {
        Pattern::Simple(PatternSimple { node_id, .. })
        | Pattern::String(PatternString { node_id, .. })
        | Pattern::Struct(PatternStruct { node_id, .. })
        | Pattern::Enum(PatternEnum { node_id, .. })
        | Pattern::Tuple(PatternTuple { node_id, .. })
        | Pattern::Slice(PatternSlice { node_id, .. })
        | Pattern::Comparison(PatternComparison { node_id, .. })
        | Pattern::Range(PatternRange { node_id, .. })
        | Pattern::Wildcard(PatternWildcard { node_id })
        | Pattern::Closure(PatternClosure { node_id, .. })
        | Pattern::Map(PatternMap { node_id, .. })
        | Pattern::Set(PatternSet { node_id, .. }) => *node_id,
        #[cfg(feature = "regex")]
        Pattern::Regex(PatternRegex { node_id, .. })
        | Pattern::Like(PatternLike { node_id, .. }) => *node_id,
    };

    // Rest elements inside slice patterns (usize::MAX node_id) are not meaningful
    // for error reporting — they contribute only the `rest: bool` flag on the
    // parent Slice node, not a child PatternNode constant of their own.
    if node_id == usize::MAX {
        return quote! {};
    }

    let node_ident = Ident::new(&format!("__PATTERN_NODE_{}", node_id), Span::call_site());

    let (line_start, col_start, line_end, col_end) = pattern.location();

    // Generate parent reference
    let parent_ref = if let Some(parent) = parent_ident {
        quote! { Some(&#parent) }
    } else {
        quote! { None }
    };

    let node_def = match pattern {
        Pattern::Simple(PatternSimple { expr, .. }) => {
            let value_str = quote! { #expr }.to_string();
            quote! {
                ::assert_struct::__macro_support::PatternNode {
                    kind: ::assert_struct::__macro_support::NodeKind::Simple {
                        value: #value_str,
                    },
                    parent: #parent_ref,
                    line_start: #line_start,
                    col_start: #col_start,
                    line_end: #line_end,
                    col_end: #col_end,
                }
            }
        }
        Pattern::String(PatternString { lit, .. }) => {
            let value_str = format!("\"{}\"", lit.value());
            quote! {
                ::assert_struct::__macro_support::PatternNode {
                    kind: ::assert_struct::__macro_support::NodeKind::Simple {
                        value: #value_str,
                    },
                    parent: #parent_ref,
                    line_start: #line_start,
                    col_start: #col_start,
                    line_end: #line_end,
                    col_end: #col_end,
                }
            }
        }
        Pattern::Comparison(PatternComparison { op, expr, .. }) => {
            let op_variant = match op {
                ComparisonOp::Less(_) => {
                    quote!(::assert_struct::__macro_support::ComparisonOp::Less)
                }
                ComparisonOp::LessEqual(_) => {
                    quote!(::assert_struct::__macro_support::ComparisonOp::LessEqual)
                }
                ComparisonOp::Greater(_) => {
                    quote!(::assert_struct::__macro_support::ComparisonOp::Greater)
                }
                ComparisonOp::GreaterEqual(_) => {
                    quote!(::assert_struct::__macro_support::ComparisonOp::GreaterEqual)
                }
                ComparisonOp::Equal(_) => {
                    quote!(::assert_struct::__macro_support::ComparisonOp::Equal)
                }
                ComparisonOp::NotEqual(_) => {
                    quote!(::assert_struct::__macro_support::ComparisonOp::NotEqual)
                }
            };
            let value_str = quote! { #expr }.to_string();
            quote! {
                ::assert_struct::__macro_support::PatternNode {
                    kind: ::assert_struct::__macro_support::NodeKind::Comparison {
                        op: #op_variant,
                        value: #value_str,
                    },
                    parent: #parent_ref,
                    line_start: #line_start,
                    col_start: #col_start,
                    line_end: #line_end,
                    col_end: #col_end,
                }
            }
        }
        Pattern::Range(PatternRange { expr, .. }) => {
            let pattern_str = quote! { #expr }.to_string();
            quote! {
                ::assert_struct::__macro_support::PatternNode {
                    kind: ::assert_struct::__macro_support::NodeKind::Range {
                        pattern: #pattern_str,
                    },
                    parent: #parent_ref,
                    line_start: #line_start,
                    col_start: #col_start,
                    line_end: #line_end,
                    col_end: #col_end,
                }
            }
        }
        #[cfg(feature = "regex")]
        Pattern::Regex(PatternRegex { pattern, .. }) => {
            let pattern_str = format!("r\"{}\"", pattern);
            quote! {
                ::assert_struct::__macro_support::PatternNode {
                    kind: ::assert_struct::__macro_support::NodeKind::Regex {
                        pattern: #pattern_str,
                    },
                    parent: #parent_ref,
                    line_start: #line_start,
                    col_start: #col_start,
                    line_end: #line_end,
                    col_end: #col_end,
                }
            }
        }
        #[cfg(feature = "regex")]
        Pattern::Like(PatternLike { expr, .. }) => {
            let expr_str = quote! { #expr }.to_string();
            quote! {
                ::assert_struct::__macro_support::PatternNode {
                    kind: ::assert_struct::__macro_support::NodeKind::Like {
                        expr: #expr_str,
                    },
                    parent: #parent_ref,
                    line_start: #line_start,
                    col_start: #col_start,
                    line_end: #line_end,
                    col_end: #col_end,
                }
            }
        }
        Pattern::Wildcard(PatternWildcard { .. }) => {
            quote! {
                ::assert_struct::__macro_support::PatternNode {
                    kind: ::assert_struct::__macro_support::NodeKind::Wildcard,
                    parent: #parent_ref,
                    line_start: #line_start,
                    col_start: #col_start,
                    line_end: #line_end,
                    col_end: #col_end,
                }
            }
        }
        Pattern::Closure(PatternClosure { closure, .. }) => {
            let closure_str = quote! { #closure }.to_string();
            quote! {
                ::assert_struct::__macro_support::PatternNode {
                    kind: ::assert_struct::__macro_support::NodeKind::Closure {
                        closure: #closure_str,
                    },
                    parent: #parent_ref,
                    line_start: #line_start,
                    col_start: #col_start,
                    line_end: #line_end,
                    col_end: #col_end,
                }
            }
        }
        Pattern::Enum(PatternEnum { path, elements, .. }) => {
            let child_refs: Vec<TokenStream> = elements
                .iter()
                .map(|elem| {
                    let pattern = match elem {
                        TupleElement::Positional(pattern) => pattern,
                        TupleElement::Indexed(boxed_elem) => &boxed_elem.pattern,
                    };
                    generate_pattern_nodes(pattern, node_defs, Some(&node_ident))
                })
                .collect();

            let path_str = quote!(#path).to_string().replace(" :: ", "::");
            let args = if elements.is_empty() {
                quote!(None)
            } else {
                quote!(Some(&[#(&#child_refs),*]))
            };

            quote! {
                ::assert_struct::__macro_support::PatternNode {
                    kind: ::assert_struct::__macro_support::NodeKind::EnumVariant {
                        path: #path_str,
                        args: #args,
                    },
                    parent: #parent_ref,
                    line_start: #line_start,
                    col_start: #col_start,
                    line_end: #line_end,
                    col_end: #col_end,
                }
            }
        }
        Pattern::Tuple(PatternTuple { elements, .. }) => {
            let child_refs: Vec<TokenStream> = elements
                .iter()
                .map(|elem| {
                    let pattern = match elem {
                        TupleElement::Positional(pattern) => pattern,
                        TupleElement::Indexed(boxed_elem) => &boxed_elem.pattern,
                    };
                    generate_pattern_nodes(pattern, node_defs, Some(&node_ident))
                })
                .collect();

            quote! {
                ::assert_struct::__macro_support::PatternNode {
                    kind: ::assert_struct::__macro_support::NodeKind::Tuple {
                        items: &[#(&#child_refs),*],
                    },
                    parent: #parent_ref,
                    line_start: #line_start,
                    col_start: #col_start,
                    line_end: #line_end,
                    col_end: #col_end,
                }
            }
        }
        Pattern::Slice(PatternSlice { elements, .. }) => {
            // A full range (`..`) inside a slice is the rest marker, not an element.
            let is_rest = |e: &Pattern| {
                matches!(
                    e,
                    Pattern::Range(PatternRange { expr: syn::Expr::Range(r), .. })
                        if r.start.is_none() && r.end.is_none()
                )
            };

            let rest = elements.iter().any(is_rest);

            let child_refs: Vec<TokenStream> = elements
                .iter()
                .filter(|e| !is_rest(e))
                .map(|elem| generate_pattern_nodes(elem, node_defs, Some(&node_ident)))
                .collect();

            quote! {
                ::assert_struct::__macro_support::PatternNode {
                    kind: ::assert_struct::__macro_support::NodeKind::Slice {
                        items: &[#(&#child_refs),*],
                        rest: #rest,
                    },
                    parent: #parent_ref,
                    line_start: #line_start,
                    col_start: #col_start,
                    line_end: #line_end,
                    col_end: #col_end,
                }
            }
        }
        Pattern::Struct(PatternStruct {
            path, fields, rest, ..
        }) => {
            // Handle wildcard struct patterns (path is None)
            let name_str = if let Some(p) = path {
                quote! { #p }.to_string().replace(" :: ", "::")
            } else {
                "_".to_string() // Use "_" for wildcard struct patterns
            };

            let field_entries: Vec<TokenStream> = fields
                .iter()
                .map(|field| {
                    let field_name = field.operations.root_field_name().to_string();
                    let child_ref =
                        generate_pattern_nodes(&field.pattern, node_defs, Some(&node_ident));
                    quote! {
                        (#field_name, &#child_ref)
                    }
                })
                .collect();

            quote! {
                ::assert_struct::__macro_support::PatternNode {
                    kind: ::assert_struct::__macro_support::NodeKind::Struct {
                        name: #name_str,
                        fields: &[#(#field_entries),*],
                        rest: #rest,
                    },
                    parent: #parent_ref,
                    line_start: #line_start,
                    col_start: #col_start,
                    line_end: #line_end,
                    col_end: #col_end,
                }
            }
        }
        Pattern::Set(PatternSet { elements, rest, .. }) => {
            let child_refs: Vec<TokenStream> = elements
                .iter()
                .map(|elem| generate_pattern_nodes(elem, node_defs, Some(&node_ident)))
                .collect();

            quote! {
                ::assert_struct::__macro_support::PatternNode {
                    kind: ::assert_struct::__macro_support::NodeKind::Set {
                        items: &[#(&#child_refs),*],
                        rest: #rest,
                    },
                    parent: #parent_ref,
                    line_start: #line_start,
                    col_start: #col_start,
                    line_end: #line_end,
                    col_end: #col_end,
                }
            }
        }
        Pattern::Map(PatternMap { entries, rest, .. }) => {
            let entry_refs: Vec<TokenStream> = entries
                .iter()
                .map(|(key, value)| {
                    let key_str = quote! { #key }.to_string();
                    let value_ref = generate_pattern_nodes(value, node_defs, Some(&node_ident));
                    quote! {
                        (#key_str, &#value_ref)
                    }
                })
                .collect();

            quote! {
                ::assert_struct::__macro_support::PatternNode {
                    kind: ::assert_struct::__macro_support::NodeKind::Map {
                        entries: &[#(#entry_refs),*],
                        rest: #rest,
                    },
                    parent: #parent_ref,
                    line_start: #line_start,
                    col_start: #col_start,
                    line_end: #line_end,
                    col_end: #col_end,
                }
            }
        }
    };

    node_defs.push((node_id, node_def));
    quote! { #node_ident }
}
