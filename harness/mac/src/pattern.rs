//! Pattern types for structural assertions.
//!
//! This module defines the various pattern types that can be used in assertions,
//! along with helper types for field operations and tuple elements.

mod closure;
mod comparison;
mod enum_pattern;
mod field;
mod map;
mod range;
mod set;
mod simple;
mod slice;
mod string;
mod struct_pattern;
mod tuple;
mod wildcard;

#[cfg(feature = "regex")]
mod regex;

// Re-export all pattern types
pub(crate) use closure::PatternClosure;
pub(crate) use comparison::{ComparisonOp, PatternComparison};
pub(crate) use enum_pattern::PatternEnum;
pub(crate) use field::{FieldAssertion, FieldOperation};
pub(crate) use map::PatternMap;
pub(crate) use range::PatternRange;
pub(crate) use set::PatternSet;
pub(crate) use simple::PatternSimple;
pub(crate) use slice::PatternSlice;
pub(crate) use string::PatternString;
pub(crate) use struct_pattern::PatternStruct;
pub(crate) use tuple::{PatternTuple, TupleElement};
pub(crate) use wildcard::PatternWildcard;

#[cfg(feature = "regex")]
pub(crate) use regex::{PatternLike, PatternRegex};

use proc_macro2::Span;
use syn::{
    Token,
    parse::{Parse, ParseStream},
    spanned::Spanned,
};

/// Unified pattern type that can represent any pattern
#[derive(Debug, Clone)]
pub(crate) enum Pattern {
    Simple(PatternSimple),
    String(PatternString),
    Struct(PatternStruct),
    Enum(PatternEnum),
    Tuple(PatternTuple),
    Slice(PatternSlice),
    Set(PatternSet),
    Comparison(PatternComparison),
    Range(PatternRange),
    #[cfg(feature = "regex")]
    Regex(PatternRegex),
    #[cfg(feature = "regex")]
    Like(PatternLike),
    Wildcard(PatternWildcard),
    Closure(PatternClosure),
    Map(PatternMap),
}

impl Pattern {
    pub(crate) fn span(&self) -> Option<Span> {
        match self {
            Pattern::Simple(PatternSimple { expr, .. }) => Some(expr.span()),
            Pattern::String(PatternString { lit, .. }) => Some(lit.span()),
            Pattern::Comparison(PatternComparison { op, expr, .. }) => {
                let op_span = op.span();
                Some(op_span.join(expr.span()).unwrap_or(op_span))
            }
            Pattern::Range(PatternRange { expr, .. }) => Some(expr.span()),
            #[cfg(feature = "regex")]
            Pattern::Regex(PatternRegex { span, .. }) => Some(*span),
            #[cfg(feature = "regex")]
            Pattern::Like(PatternLike { expr, .. }) => Some(expr.span()),
            Pattern::Struct(PatternStruct { path, .. }) => path.as_ref().map(|p| p.span()),
            Pattern::Enum(PatternEnum { path, .. }) => Some(path.span()),
            Pattern::Tuple(PatternTuple { .. })
            | Pattern::Slice(PatternSlice { .. })
            | Pattern::Set(PatternSet { .. })
            | Pattern::Wildcard(PatternWildcard { .. })
            | Pattern::Map(PatternMap { .. }) => None,
            Pattern::Closure(PatternClosure { closure, .. }) => Some(closure.span()),
        }
    }

    /// Compute the source location for the pattern's anchor token(s).
    ///
    /// Returns `(line_start, col_start, line_end, col_end)` where lines are 1-indexed
    /// and columns are 0-indexed (proc_macro2 convention). Returns `(0, 0, 0, 0)` for
    /// patterns without a meaningful source location.
    ///
    /// Computes start and end from constituent tokens independently to avoid
    /// `Span::join()`, which is nightly-only in proc_macro context. For example,
    /// a `Comparison` like `> 30` uses the operator for the start and the expression
    /// for the end. Enum and struct paths highlight only the type path, not the
    /// arguments or fields that follow.
    pub(crate) fn location(&self) -> (u32, u32, u32, u32) {
        match self {
            Pattern::Simple(PatternSimple { expr, .. }) => {
                let start = expr.span().start();
                let end = expr.span().end();
                (
                    start.line as u32,
                    start.column as u32,
                    end.line as u32,
                    end.column as u32,
                )
            }
            Pattern::String(PatternString { lit, .. }) => {
                let start = lit.span().start();
                let end = lit.span().end();
                (
                    start.line as u32,
                    start.column as u32,
                    end.line as u32,
                    end.column as u32,
                )
            }
            Pattern::Comparison(PatternComparison { op, expr, .. }) => {
                let start = op.span().start();
                let end = expr.span().end();
                (
                    start.line as u32,
                    start.column as u32,
                    end.line as u32,
                    end.column as u32,
                )
            }
            Pattern::Range(PatternRange { expr, .. }) => {
                if let syn::Expr::Range(range_expr) = expr {
                    let start = range_expr
                        .start
                        .as_ref()
                        .map(|s| s.span().start())
                        .unwrap_or_else(|| range_expr.limits.span().start());
                    let end = range_expr
                        .end
                        .as_ref()
                        .map(|e| e.span().end())
                        .unwrap_or_else(|| range_expr.limits.span().end());
                    (
                        start.line as u32,
                        start.column as u32,
                        end.line as u32,
                        end.column as u32,
                    )
                } else {
                    let start = expr.span().start();
                    let end = expr.span().end();
                    (
                        start.line as u32,
                        start.column as u32,
                        end.line as u32,
                        end.column as u32,
                    )
                }
            }
            #[cfg(feature = "regex")]
            Pattern::Regex(PatternRegex { span, .. }) => {
                let start = span.start();
                let end = span.end();
                (
                    start.line as u32,
                    start.column as u32,
                    end.line as u32,
                    end.column as u32,
                )
            }
            #[cfg(feature = "regex")]
            Pattern::Like(PatternLike { expr, .. }) => {
                let start = expr.span().start();
                let end = expr.span().end();
                (
                    start.line as u32,
                    start.column as u32,
                    end.line as u32,
                    end.column as u32,
                )
            }
            // Highlight only the path itself, not the args or fields that follow.
            // Use first/last segment idents independently to avoid Span::join().
            Pattern::Struct(PatternStruct {
                path: Some(path), ..
            })
            | Pattern::Enum(PatternEnum { path, .. }) => {
                let first = path.segments.first().map(|s| s.ident.span().start());
                let last = path.segments.last().map(|s| s.ident.span().end());
                match (first, last) {
                    (Some(start), Some(end)) => (
                        start.line as u32,
                        start.column as u32,
                        end.line as u32,
                        end.column as u32,
                    ),
                    _ => (0, 0, 0, 0),
                }
            }
            Pattern::Closure(PatternClosure { closure, .. }) => {
                let start = closure.span().start();
                let end = closure.span().end();
                (
                    start.line as u32,
                    start.column as u32,
                    end.line as u32,
                    end.column as u32,
                )
            }
            Pattern::Tuple(PatternTuple { span, .. })
            | Pattern::Slice(PatternSlice { span, .. })
            | Pattern::Set(PatternSet { span, .. })
            | Pattern::Map(PatternMap { span, .. }) => {
                let start = span.start();
                let end = span.end();
                (
                    start.line as u32,
                    start.column as u32,
                    end.line as u32,
                    end.column as u32,
                )
            }
            // Wildcard struct patterns and plain wildcards have no meaningful location.
            Pattern::Struct(PatternStruct { path: None, .. }) | Pattern::Wildcard(_) => {
                (0, 0, 0, 0)
            }
        }
    }
}

impl Parse for Pattern {
    /// Parse any pattern at any level - the heart of the macro's flexibility.
    ///
    /// This handles all pattern types in a specific order to avoid ambiguity.
    /// The order matters because some patterns share prefixes.
    fn parse(input: ParseStream) -> syn::Result<Self> {
        // Closure pattern: |x| expr or move |x| expr for custom validation (escape hatch)
        // Examples: `|x| x > 5`, `move |x| complex_logic(x)`, `|x| { x.len() > 0 }`
        if input.peek(Token![|]) || (input.peek(Token![move]) && input.peek2(Token![|])) {
            return Ok(Pattern::Closure(input.parse()?));
        }

        // Wildcard pattern: _ for ignoring a value while asserting it exists
        // Example: `Some(_)`, `field: _`, `[1, _, 3]`
        // Special case: `_ { ... }` for wildcard struct patterns
        if input.peek(Token![_]) {
            // Check if this is a wildcard struct pattern: `_ { ... }`
            if input.peek2(syn::token::Brace) {
                return Ok(Pattern::Struct(input.parse()?));
            } else {
                // Regular wildcard pattern
                return Ok(Pattern::Wildcard(input.parse()?));
            }
        }

        // Try to parse as a comparison pattern (<, <=, >, >=, ==, !=)
        if input.peek(Token![<]) || input.peek(Token![>]) || input.peek(Token![!]) {
            // These always start comparisons, safe to parse directly
            return Ok(Pattern::Comparison(input.parse()?));
        }

        // `=` could start `==` (equality) or `=~` (regex pattern)
        if input.peek(Token![=]) {
            if input.peek2(Token![=]) {
                // This is `==` - explicit equality comparison
                return Ok(Pattern::Comparison(input.parse()?));
            }

            #[cfg(feature = "regex")]
            if input.peek2(Token![~]) {
                // This is `=~` - regex/like pattern
                let pattern: PatternLike = input.parse()?;
                return Ok(pattern.into_pattern());
            }

            return Err(input.error("expected `==` or `=~` pattern"));
        }

        // Set pattern for unordered collection matching
        // Example: `#(1, 2, 3)` or `#(> 0, < 10, ..)`
        if input.peek(Token![#]) && input.peek2(syn::token::Paren) {
            return Ok(Pattern::Set(input.parse()?));
        }

        // Map patterns for map-like structures using duck typing
        // Example: `#{ "key": "value" }` or `#{ "key": > 5, .. }`
        if input.peek(Token![#]) && input.peek2(syn::token::Brace) {
            return Ok(Pattern::Map(input.parse()?));
        }

        // Slice patterns for Vec/array matching
        // Example: `[1, 2, 3]` or `[> 0, < 10, == 5]`
        if input.peek(syn::token::Bracket) {
            return Ok(Pattern::Slice(input.parse()?));
        }

        // Standalone tuple pattern (no type prefix)
        // Example: `(10, 20)` or `(> 10, < 30)`
        if input.peek(syn::token::Paren) {
            return Ok(Pattern::Tuple(input.parse()?));
        }

        // Complex path-based patterns: structs, enums, tuple variants
        // This is where disambiguation becomes critical
        let fork = input.fork();
        if fork.parse::<syn::Path>().is_ok() {
            // Path followed by braces is a struct pattern
            // Example: `User { name: "Alice", age: 30 }`
            if fork.peek(syn::token::Brace) {
                return Ok(Pattern::Struct(input.parse()?));
            }

            // Path followed by parens OR standalone path is an enum variant
            // Example: `Some(> 30)`, `Event::Click(>= 0, < 100)`, `Status::Active`
            return Ok(Pattern::Enum(input.parse()?));
        }

        // Everything else is either a range, string literal, or simple expression
        // Try range first, then string literal, then fallback to simple
        let fork = input.fork();
        if fork.parse::<PatternRange>().is_ok() {
            // Range expressions like `18..65` or `0.0..100.0`
            Ok(Pattern::Range(input.parse()?))
        } else if input.peek(syn::LitStr) {
            // String literal: "hello", "world"
            Ok(Pattern::String(PatternString::new(input.parse()?)))
        } else {
            // Simple value or expression
            // Examples: `42`, `true`, `my_variable`, `compute_value()`
            Ok(Pattern::Simple(input.parse()?))
        }
    }
}
