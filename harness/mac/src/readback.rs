//! Reads the real expansion back as Rust (syn) and reports, as JSON, what a reader
//! of the generated code sees: the PatternNode statics, the node identifiers the
//! assertion code refers to, and every identifier the assertion code binds.
//! Independent of the Pattern tree and of the Coq model.
use proc_macro2::TokenStream;
use syn::visit::Visit;

fn hex(b: &[u8]) -> String {
    let mut o = String::from("x");
    for c in b {
        o.push_str(&format!("{:02x}", c));
    }
    o
}

fn node_num(s: &str) -> Option<String> {
    s.strip_prefix("__PATTERN_NODE_").map(|n| n.to_string())
}

fn expr_json(e: &syn::Expr) -> String {
    match e {
        syn::Expr::Lit(l) => match &l.lit {
            syn::Lit::Str(s) => format!("\"{}\"", hex(s.value().as_bytes())),
            syn::Lit::Int(i) => i.base10_digits().to_string(),
            syn::Lit::Bool(b) => b.value.to_string(),
            _ => "\"?lit\"".into(),
        },
        syn::Expr::Reference(r) => expr_json(&r.expr),
        syn::Expr::Array(a) => format!("[{}]", a.elems.iter().map(expr_json).collect::<Vec<_>>().join(",")),
        syn::Expr::Tuple(t) => format!("[{}]", t.elems.iter().map(expr_json).collect::<Vec<_>>().join(",")),
        syn::Expr::Call(c) => {
            let f = expr_json(&c.func);
            format!("{{\"call\":{},\"args\":[{}]}}", f, c.args.iter().map(expr_json).collect::<Vec<_>>().join(","))
        }
        syn::Expr::Path(p) => {
            let last = p.path.segments.last().map(|s| s.ident.to_string()).unwrap_or_default();
            match node_num(&last) {
                Some(n) => n,
                None => format!("\"{}\"", last),
            }
        }
        syn::Expr::Struct(s) => {
            let name = s.path.segments.last().map(|x| x.ident.to_string()).unwrap_or_default();
            let mut fields = vec![format!("\"_\":\"{}\"", name)];
            for f in &s.fields {
                if let syn::Member::Named(n) = &f.member {
                    fields.push(format!("\"{}\":{}", n, expr_json(&f.expr)));
                }
            }
            format!("{{{}}}", fields.join(","))
        }
        _ => "\"?expr\"".into(),
    }
}

#[derive(Default)]
struct Collect {
    binders: Vec<String>,
    refs: Vec<String>,
    muts: usize,
}

impl<'ast> Visit<'ast> for Collect {
    fn visit_pat_ident(&mut self, p: &'ast syn::PatIdent) {
        self.binders.push(p.ident.to_string());
        if p.mutability.is_some() {
            self.muts += 1;
        }
        syn::visit::visit_pat_ident(self, p);
    }
    fn visit_ident(&mut self, i: &'ast proc_macro2::Ident) {
        if let Some(n) = node_num(&i.to_string()) {
            self.refs.push(n);
        }
    }
    fn visit_macro(&mut self, m: &'ast syn::Macro) {
        // matches!(..), format!(..), panic!(..): look inside for node references and,
        // for matches!, the pattern's bindings
        let name = m.path.segments.last().map(|s| s.ident.to_string()).unwrap_or_default();
        if name == "matches" {
            if let Ok(args) = m.parse_body_with(|input: syn::parse::ParseStream| {
                let e: syn::Expr = input.parse()?;
                let _: syn::Token![,] = input.parse()?;
                let p = syn::Pat::parse_multi_with_leading_vert(input)?;
                let _: TokenStream = input.parse()?;
                Ok((e, p))
            }) {
                self.visit_expr(&args.0);
                self.visit_pat(&args.1);
            }
        } else if let Ok(args) = m.parse_body_with(
            syn::punctuated::Punctuated::<syn::Expr, syn::Token![,]>::parse_terminated,
        ) {
            for a in &args {
                self.visit_expr(a);
            }
        }
    }
}

pub fn readback(expansion: &TokenStream) -> String {
    let Ok(syn::Expr::Block(outer)) = syn::parse2::<syn::Expr>(expansion.clone()) else {
        return "{\"parse\":false}".into();
    };
    // { #[allow] let __assert_struct_result = { ... }; __assert_struct_result }
    let Some(syn::Stmt::Local(l)) = outer.block.stmts.first() else {
        return "{\"parse\":false}".into();
    };
    let Some(init) = &l.init else {
        return "{\"parse\":false}".into();
    };
    let syn::Expr::Block(inner) = &*init.expr else {
        return "{\"parse\":false}".into();
    };
    let mut statics = Vec::new();
    let mut root = String::from("null");
    let mut c = Collect::default();
    for st in &inner.block.stmts {
        match st {
            syn::Stmt::Item(syn::Item::Static(s)) => {
                let id = node_num(&s.ident.to_string()).unwrap_or("-1".into());
                statics.push(format!("{{\"id\":{},\"def\":{}}}", id, expr_json(&s.expr)));
            }
            syn::Stmt::Item(syn::Item::Const(k)) => {
                root = expr_json(&k.expr);
            }
            syn::Stmt::Item(_) => {}
            other => c.visit_stmt(other),
        }
    }
    format!(
        "{{\"parse\":true,\"statics\":[{}],\"root\":{},\"refs\":[{}],\"binders\":[{}],\"mut_binders\":{}}}",
        statics.join(","),
        root,
        c.refs.join(","),
        c.binders.iter().map(|b| format!("\"{}\"", b)).collect::<Vec<_>>().join(","),
        c.muts
    )
}
