use crate::AssertStruct;
use std::cell::Cell;
use syn::{Result, Token, parse::Parse, parse::ParseStream};

thread_local! {
    static NODE_ID_COUNTER: Cell<usize> = const { Cell::new(0) };
}

pub(crate) fn next_node_id() -> usize {
    NODE_ID_COUNTER.with(|counter| {
        let id = counter.get();
        counter.set(id + 1);
        id
    })
}

fn reset_node_counter() {
    NODE_ID_COUNTER.with(|counter| counter.set(0));
}

impl Parse for AssertStruct {
    /// Parses the top-level macro invocation.
    ///
    /// # Example Input
    /// ```text
    /// assert_struct!(value, Pattern { field: matcher, .. })
    /// assert_struct!(value, Some(> 30))
    /// assert_struct!(value, [1, 2, 3])
    /// ```
    ///
    /// The macro always expects: `expression`, `pattern`
    fn parse(input: ParseStream) -> Result<Self> {
        // Reset the node ID counter for each macro invocation
        reset_node_counter();

        let value = input.parse()?;
        let _: Token![,] = input.parse()?;
        let pattern = input.parse()?;

        Ok(AssertStruct { value, pattern })
    }
}
