use crate::AssertStruct;
use std::cell::Cell;
use syn::{Result, Token, parse::Parse, parse::ParseStream};

thread_local! {
    static NODE_ID_COUNTER: Cell<usize> = const { Cell::new(0) };

    /// Nesting depth of the speculative (forked) pattern parses currently running.
    static SPECULATIVE_DEPTH: Cell<usize> = const { Cell::new(0) };
}

pub(crate) fn next_node_id() -> usize {
    // A pattern parsed from a fork only tells the caller how to parse the real
    // input and is then dropped, so don't spend ids on it. `usize::MAX` marks a
    // pattern that has no node of its own (see `generate_pattern_nodes`).
    if SPECULATIVE_DEPTH.with(Cell::get) > 0 {
        return usize::MAX;
    }

    NODE_ID_COUNTER.with(|counter| {
        let id = counter.get();
        counter.set(id + 1);
        id
    })
}

fn reset_node_counter() {
    NODE_ID_COUNTER.with(|counter| counter.set(0));
}

/// Parses a `T` from a forked stream as lookahead, without handing out node ids.
///
/// Tuple elements are parsed once on a fork to tell positional from indexed
/// elements and then again for real. Without this, every nesting level burned a
/// whole sub-pattern worth of ids, leaving the `__PATTERN_NODE_n` names sparse.
pub(crate) fn parse_speculative<T: Parse>(fork: ParseStream) -> Result<T> {
    SPECULATIVE_DEPTH.with(|depth| depth.set(depth.get() + 1));
    let parsed = fork.parse::<T>()?;
    SPECULATIVE_DEPTH.with(|depth| depth.set(depth.get() - 1));
    Ok(parsed)
}

impl Parse for AssertStruct {
    /// Parses the top-level macro invocation.
    ///
    /// # Example Input
    /// ```text
    /// assert_struct!(value, Pattern { field: matcher, .. })
    /// assert_struct!(value, Some(> 30))
    /// assert_struct!(value, [1, 2, 3])
    /// ```
    ///
    /// The macro always expects: `expression`, `pattern`
    fn parse(input: ParseStream) -> Result<Self> {
        // Reset the node ID counter for each macro invocation
        reset_node_counter();

        let value = input.parse()?;
        let _: Token![,] = input.parse()?;
        let pattern = input.parse()?;

        Ok(AssertStruct { value, pattern })
    }
}
