//! Serialisation of the real `Pattern` tree (fields are pub(crate); this module
//! lives in the same crate) and of token streams, in the S-expression / flat
//! token formats read by the OCaml model runner.
use crate::pattern::*;
use proc_macro2::{Delimiter, Span, TokenStream, TokenTree};
use quote::{quote, ToTokens};
use syn::spanned::Spanned;

pub fn hex(b: &[u8]) -> String {
    let mut o = String::from("x");
    for c in b {
        o.push_str(&format!("{:02x}", c));
    }
    o
}

thread_local! {
    /// byte range (in proc-macro2's fallback source map) of the invocation being processed
    static INPUT_RANGE: std::cell::Cell<(usize, usize)> = const { std::cell::Cell::new((0, 0)) };
}

/// Absolute position of a span in proc-macro2's fallback source map, read from its
/// Debug form `bytes(lo..hi)` (byte_range() is relative to the span's own file).
fn abs_range(sp: Span) -> std::ops::Range<usize> {
    let d = format!("{:?}", sp);
    let inner = d.trim_start_matches("bytes(").trim_end_matches(')');
    let (a, b) = inner.split_once("..").unwrap_or(("0", "0"));
    a.parse().unwrap_or(0)..b.parse().unwrap_or(0)
}

fn range_of(ts: TokenStream, lo: &mut usize, hi: &mut usize) {
    for tt in ts {
        let r = abs_range(tt.span());
        *lo = (*lo).min(r.start);
        *hi = (*hi).max(r.end);
        if let TokenTree::Group(g) = tt {
            range_of(g.stream(), lo, hi);
        }
    }
}

/// Remember which part of the source map holds the caller's tokens.  Every other
/// span (Span::call_site(), and the fresh spans the fallback implementation gives to
/// literals that quote! parses at run time) stands for "the call site", which is
/// what those tokens carry under a real compiler.
pub fn set_input(ts: &TokenStream) {
    let (mut lo, mut hi) = (usize::MAX, 0usize);
    range_of(ts.clone(), &mut lo, &mut hi);
    INPUT_RANGE.with(|c| c.set((lo, hi)));
}

pub fn span_str(sp: Span) -> String {
    let (lo, hi) = INPUT_RANGE.with(|c| c.get());
    let r = abs_range(sp);
    let (s, e) = (sp.start(), sp.end());
    if r.start < lo || r.end > hi || (r.start == 0 && r.end == 0) {
        "cs".into()
    } else {
        format!("{}.{}.{}.{}", s.line, s.column, e.line, e.column)
    }
}

fn delim_char(d: Delimiter) -> char {
    match d {
        Delimiter::Parenthesis => 'p',
        Delimiter::Brace => 'b',
        Delimiter::Bracket => 'k',
        Delimiter::None => 'n',
    }
}

fn flat_into(ts: TokenStream, out: &mut Vec<String>) {
    for tt in ts {
        match tt {
            TokenTree::Ident(i) => out.push(format!("I{}@{}", hex(i.to_string().as_bytes()), span_str(i.span()))),
            TokenTree::Punct(p) => out.push(format!(
                "P{}{}@{}",
                hex(p.as_char().to_string().as_bytes()),
                if p.spacing() == proc_macro2::Spacing::Joint { 'j' } else { 'a' },
                span_str(p.span())
            )),
            TokenTree::Literal(l) => out.push(format!("L{}@{}", hex(l.to_string().as_bytes()), span_str(l.span()))),
            TokenTree::Group(g) => {
                out.push(format!("O{}@{}", delim_char(g.delimiter()), span_str(g.span())));
                flat_into(g.stream(), out);
                out.push(format!("C{}@{}", delim_char(g.delimiter()), span_str(g.span())));
            }
        }
    }
}

pub fn flat_tokens(ts: TokenStream) -> String {
    let mut v = Vec::new();
    flat_into(ts, &mut v);
    v.join(" ")
}

fn toks<T: ToTokens>(t: &T) -> String {
    format!("({})", flat_tokens(t.to_token_stream()))
}

pub fn uexpr(e: &syn::Expr) -> String {
    let text = quote! { #e }.to_string();
    let strlit = matches!(e, syn::Expr::Lit(syn::ExprLit { lit: syn::Lit::Str(_), .. }));
    format!("(e {} {} {} {})", hex(text.as_bytes()), strlit as u8, span_str(e.span()), toks(e))
}

fn closure(c: &syn::ExprClosure) -> String {
    let text = quote! { #c }.to_string();
    format!("(e {} 0 {} {})", hex(text.as_bytes()), span_str(c.span()), toks(c))
}

fn path(p: &syn::Path) -> String {
    let text = quote! { #p }.to_string();
    let first = p.segments.first().map(|s| span_str(s.ident.span())).unwrap_or("none".into());
    let last = p.segments.last().map(|s| span_str(s.ident.span())).unwrap_or("none".into());
    format!("(p {} {} {} {} {})", hex(text.as_bytes()), span_str(p.span()), first, last, toks(p))
}

fn ident(i: &syn::Ident) -> String {
    format!("I{}@{}", hex(i.to_string().as_bytes()), span_str(i.span()))
}

fn ops(o: &FieldOperation) -> String {
    match o {
        FieldOperation::Deref { count, span, .. } => format!("(deref {} {})", count, span_str(*span)),
        FieldOperation::Method { name, args, span, .. } => format!(
            "(method {} {} ({}))",
            ident(name),
            span_str(*span),
            args.iter().map(uexpr).collect::<Vec<_>>().join(" ")
        ),
        FieldOperation::Await { span, .. } => format!("(await {})", span_str(*span)),
        FieldOperation::NamedField { name, span, .. } => format!("(named {} {})", ident(name), span_str(*span)),
        FieldOperation::UnnamedField { index, span, .. } => format!("(unnamed {} {})", index, span_str(*span)),
        FieldOperation::Index { index, span, .. } => format!("(index {} {})", uexpr(index), span_str(*span)),
        FieldOperation::Chained { operations, span, .. } => format!(
            "(chained {} ({}))",
            span_str(*span),
            operations.iter().map(ops).collect::<Vec<_>>().join(" ")
        ),
    }
}

fn elem(e: &TupleElement) -> String {
    match e {
        TupleElement::Positional(p) => format!("(pos {})", pattern(p)),
        TupleElement::Indexed(fa) => format!("(idx {} {})", ops(&fa.operations), pattern(&fa.pattern)),
    }
}

fn opt_uexpr(e: &Option<Box<syn::Expr>>) -> String {
    match e {
        Some(e) => uexpr(e),
        None => "none".into(),
    }
}

pub fn pattern(p: &Pattern) -> String {
    let loc = {
        let (a, b, c, d) = p.location();
        format!("{}.{}.{}.{}", a, b, c, d)
    };
    let body = match p {
        Pattern::Simple(s) => format!("simple {} {}", s.node_id, uexpr(&s.expr)),
        Pattern::String(s) => format!(
            "string {} L{}@{} {}",
            s.node_id,
            hex(s.lit.token().to_string().as_bytes()),
            span_str(s.lit.span()),
            hex(s.lit.value().as_bytes())
        ),
        Pattern::Comparison(c) => {
            let (op, sp) = match &c.op {
                ComparisonOp::Less(t) => ("lt", t.span()),
                ComparisonOp::LessEqual(t) => ("le", t.span()),
                ComparisonOp::Greater(t) => ("gt", t.span()),
                ComparisonOp::GreaterEqual(t) => ("ge", t.span()),
                ComparisonOp::Equal(t) => ("eq", t.span()),
                ComparisonOp::NotEqual(t) => ("ne", t.span()),
            };
            format!("cmp {} {} {} {}", c.node_id, op, span_str(sp), uexpr(&c.expr))
        }
        Pattern::Range(r) => {
            let parts = if let syn::Expr::Range(re) = &r.expr {
                let incl = matches!(re.limits, syn::RangeLimits::Closed(_));
                format!("(parts {} {} {} {})", opt_uexpr(&re.start), span_str(re.limits.span()), incl as u8, opt_uexpr(&re.end))
            } else {
                "notrange".into()
            };
            format!("range {} {} {}", r.node_id, uexpr(&r.expr), parts)
        }
        #[cfg(feature = "regex")]
        Pattern::Regex(r) => format!("regex {} {} {}", r.node_id, hex(r.pattern.as_bytes()), span_str(r.span)),
        #[cfg(feature = "regex")]
        Pattern::Like(l) => format!("like {} {}", l.node_id, uexpr(&l.expr)),
        Pattern::Wildcard(w) => format!("wild {}", w.node_id),
        Pattern::Closure(c) => format!("closure {} {}", c.node_id, closure(&c.closure)),
        Pattern::Struct(s) => format!(
            "struct {} {} {} ({})",
            s.node_id,
            s.path.as_ref().map(path).unwrap_or("none".into()),
            s.rest as u8,
            s.fields
                .iter()
                .map(|f| format!("({} {})", ops(&f.operations), pattern(&f.pattern)))
                .collect::<Vec<_>>()
                .join(" ")
        ),
        Pattern::Enum(e) => format!(
            "enum {} {} ({})",
            e.node_id,
            path(&e.path),
            e.elements.iter().map(elem).collect::<Vec<_>>().join(" ")
        ),
        Pattern::Tuple(t) => format!(
            "tuple {} {} ({})",
            t.node_id,
            span_str(t.span),
            t.elements.iter().map(elem).collect::<Vec<_>>().join(" ")
        ),
        Pattern::Slice(s) => format!(
            "slice {} {} ({})",
            s.node_id,
            span_str(s.span),
            s.elements.iter().map(pattern).collect::<Vec<_>>().join(" ")
        ),
        Pattern::Set(s) => format!(
            "set {} {} {} ({})",
            s.node_id,
            span_str(s.span),
            s.rest as u8,
            s.elements.iter().map(pattern).collect::<Vec<_>>().join(" ")
        ),
        Pattern::Map(m) => format!(
            "map {} {} {} ({})",
            m.node_id,
            span_str(m.span),
            m.rest as u8,
            m.entries
                .iter()
                .map(|(k, v)| format!("({} {})", uexpr(k), pattern(v)))
                .collect::<Vec<_>>()
                .join(" ")
        ),
    };
    format!("({} {})", body, loc)
}
