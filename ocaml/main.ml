(* main.ml — runs the extracted Coq model on cases read from stdin, one per line,
   printing one canonical result line per case (the same lines the Rust harnesses
   print for the implementation). *)
open Model
open Conv


let kind_of (spec : Stdlib.String.t) : node_kind =
  let p = Array.of_list (Stdlib.String.split_on_char ':' spec) in
  let b s = s = "1" in
  let n s = nat_of_int (int_of_string s) in
  let cs s = coq_string (unhex s) in
  match p.(0) with
  | "slice" -> KSlice (n p.(1), b p.(2))
  | "set" -> KSet (n p.(1), b p.(2))
  | "tuple" -> KTuple (n p.(1))
  | "map" -> KMap (n p.(1), b p.(2))
  | "struct" -> KStruct (cs p.(1), n p.(2), b p.(3))
  | "enum" -> KEnum (cs p.(1), if p.(2) = "none" then None else Some (n p.(2)))
  | "simple" -> KSimple (cs p.(1))
  | "cmp" ->
      let op = match p.(1) with
        | "lt" -> OpLt | "le" -> OpLe | "gt" -> OpGt | "ge" -> OpGe | "eq" -> OpEq | "ne" -> OpNe
        | o -> failwith ("op " ^ o) in
      KCmp (op, cs p.(2))
  | "range" -> KRange (cs p.(1))
  | "regex" -> KRegex (cs p.(1))
  | "like" -> KLike (cs p.(1))
  | "wildcard" -> KWildcard
  | "closure" -> KClosure (cs p.(1))
  | k -> failwith ("kind " ^ k)

let do_setmatch f =
  let n = int_of_string f.(1) in
  let rest = f.(2) = "1" in
  let k = int_of_string f.(3) in
  let rows = List.init k (fun i ->
    let r = f.(4 + i) in
    if r = "-" then [] else List.init (Stdlib.String.length r) (fun j -> r.[j] = '1')) in
  let (res, calls) = set_match_tr (nat_of_int n) rest rows in
  let calls_s = Stdlib.String.concat ","
      (List.map (fun (p, e) -> Printf.sprintf "%d:%d" (int_of_nat p) (int_of_nat e)) calls) in
  (* the extracted brute-force specification enumerates every injection: run it beside set_match on small cases only (the
     agreement is a theorem, c10_brute_force_agrees; this is a sanity check of the extraction, not the tie) *)
  let bf = if n <= 7 then Some (brute_force (nat_of_int n) rest rows) else None in
  let verdict = match res with
    | SMPass -> if bf = Some false then "pass-BRUTEFORCE-DISAGREES" else "pass"
    | SMFail (a, e) ->
        (if bf = Some true then "fail-BRUTEFORCE-DISAGREES " else "fail ") ^ hex (ocaml_string a) ^ " " ^ opt_hex e in
  Printf.sprintf "%s calls=%s" verdict calls_s


(* C17: replay a schedule through the extracted transition system of the source cache *)
let do_cache f =
  let pos = ref 1 in
  let next () = let v = f.(!pos) in incr pos; v in
  let nfs = int_of_string (next ()) in
  let fs_tbl = Hashtbl.create 8 in
  for _ = 1 to nfs do
    let name = unhex (next ()) in
    let c = next () in
    if c <> "none" then Hashtbl.replace fs_tbl name (unhex c)
  done;
  let fs p = match Hashtbl.find_opt fs_tbl (ocaml_string p) with Some c -> Some (coq_string c) | None -> None in
  let ncalls = int_of_string (next ()) in
  let calls = List.init ncalls (fun _ -> { c_path = coq_string (unhex (next ())); c_pc = PStart }) in
  let nwarm = int_of_string (next ()) in
  let warm = List.init nwarm (fun _ -> let n = unhex (next ()) in (coq_string n, coq_string (Hashtbl.find fs_tbl n))) in
  let sched_s = next () in
  let sched = if sched_s = "-" then [] else List.map int_of_string (Stdlib.String.split_on_char ',' sched_s) in
  let st = ref (warm, calls) in
  let evs = List.map (fun i ->
    let before = List.nth (snd !st) i in
    st := step fs !st (nat_of_int i);
    let after = List.nth (snd !st) i in
    match before.c_pc, after.c_pc with
    | PStart, PDone (Some s) -> "hit:" ^ hex (ocaml_string s)
    | PStart, PRead -> "miss"
    | PRead, PInsert s -> "read:" ^ hex (ocaml_string s)
    | PRead, PDone None -> "readfail"
    | PInsert _, PDone _ ->
        (match cache_get before.c_path (fst !st) with
         | Some s -> "insert:" ^ hex (ocaml_string s) | None -> "insert:none")
    | PDone _, _ -> "noop"
    | _ -> "BADSTEP") sched in
  let results = List.map (fun k -> match k.c_pc with
    | PDone (Some s) -> "some:" ^ hex (ocaml_string s) | PDone None -> "none" | _ -> "running") (snd !st) in
  Stdlib.String.concat "," evs ^ " results=" ^ Stdlib.String.concat "," results

let do_guard f =
  let flags = Buffer.create 16 in
  let _ = Stdlib.String.fold_left (fun d c ->
    let d' = guard_step d (match c with 'N' -> GNew | _ -> GDrop) in
    Buffer.add_char flags (if plain_flag d' then '1' else '0'); d') O f.(1) in
  Buffer.contents flags

(* the file system for abspath: files listed by `fs` lines *)
let files : (Stdlib.String.t, unit) Hashtbl.t = Hashtbl.create 16

let handle (line : Stdlib.String.t) : Stdlib.String.t =
  let f = Array.of_list (split_tabs line) in
  match f.(0) with
  | "setmatch" -> do_setmatch f
  | "offset" | "offset_old" ->
      let t = text_of_bytes (unhex f.(1)) in
      let fn = if f.(0) = "offset" then byte_offset_of else byte_offset_of_old in
      string_of_int (int_of_n (fn t (n_of_int (int_of_string f.(2))) (n_of_int (int_of_string f.(3)))))
  | "span" | "span_old" ->
      (* span <mode> <xsrc> ls cs le ce *)
      let mode = f.(1) in
      let q i = n_of_int (int_of_string f.(i)) in
      if mode = "ok" || mode = "stale" then begin
        let t = text_of_bytes (unhex f.(2)) in
        let fn = if f.(0) = "span" then span_of else span_of_old in
        let (s, e) = fn t (q 3) (q 4) (q 5) (q 6) in
        Printf.sprintf "span %d %d hdr=1 lbl=1" (int_of_n s) (int_of_n e)
      end else begin
        (* the source cannot be read: fallback listing *)
        let e = { e_kind = KWildcard; e_line_start = q 3; e_actual = coq_string "ACTUAL"; e_expected = None } in
        "fallback " ^ hex (ocaml_string (fallback_display (coq_string "span_src.rs") [e]))
      end
  | "refs" ->
      (* refs <join_ok> <value> <tree>: has_regex, whether everything the expansion refers to exists without the
         runtime crate's regex feature, and the runtime items it refers to *)
      let value = Irconv.uexpr_of (Irconv.parse_sexp f.(2)) in
      let p = Irconv.pat_of (Irconv.parse_sexp f.(3)) in
      let s = expand (f.(1) = "1") p (VRoot value.u_toks) in
      let name = function
        | IErrorReport -> "ErrorReport" | IPatternNode -> "PatternNode" | IClosureCheck -> "check_closure_condition"
        | ISetMatch -> "set_match" | ILikeTrait -> "Like" | IRegexType -> "Regex" | IStrRegexLikeImpl -> "" in
      let names = List.sort_uniq compare (List.filter (fun x -> x <> "") (List.map name (top_refs s))) in
      Printf.sprintf "has_regex=%d off=%d on=%d refs=%s" (if has_regex p then 1 else 0)
        (if compiles_in false s then 1 else 0) (if compiles_in true s then 1 else 0) (Stdlib.String.concat "," names)
  | "eqdispatch" ->
      (* eqdispatch <macro has regex 0|1> <second char or -> *)
      let second = if f.(2) = "-" then None else Some (ascii_of_char f.(2).[0]) in
      (match dispatch_eq (f.(1) = "1") second with DComparison -> "comparison" | DLike -> "like" | DErr -> "err")
  | "cache" -> do_cache f
  | "presence" ->
      (* presence <history over W D R T> : one source file whose readability changes (W readable, D not); every R is a report of a
         failure in it, run through the extracted SharedT.reports_from (three time steps per report).  Prints S (the text) or F
         (nothing: the fallback listing) per report. *)
      let pres = ref [] and cur = ref false in
      Stdlib.String.iter (fun c -> match c with 'W' -> cur := true | 'D' -> cur := false | 'R' -> pres := !cur :: !pres | _ -> ()) f.(1);
      let pres = Array.of_list (List.rev !pres) in
      let readable t _ = let i = int_of_nat t / 3 in i < Array.length pres && pres.(i) in
      let ops = List.init (Array.length pres) (fun _ -> coq_string "hist_src.rs") in
      let out = reports_from (fun _ -> coq_string "TEXT") readable O [] ops in
      Stdlib.String.concat "," (List.map (function Some _ -> "S" | None -> "F") out)
  | "guard" -> do_guard f
  | "styled" ->
      (* styled <guard ops|-> <no_color> <tty> *)
      let d = Stdlib.String.fold_left (fun d c -> match c with 'N' -> guard_step d GNew | 'D' | 'F' -> guard_step d GDrop | _ -> d) O f.(1) in
      if styled (plain_flag d) (f.(2) = "1") (f.(3) = "1") then "1" else "0"
  | "mspan" ->
      (* mspan <xsrc> <n> (ls cs le ce)*n : every entry's span is computed on its own *)
      let t = text_of_bytes (unhex f.(1)) in
      let n = int_of_string f.(2) in
      let q i = n_of_int (int_of_string f.(i)) in
      (* through Display.display: the whole report at once, as the implementation formats it *)
      let entries = List.init n (fun i ->
        let b = 3 + 4 * i in
        { re_entry = { e_kind = KWildcard; e_line_start = q b; e_actual = coq_string "ACTUAL"; e_expected = None };
          re_col_start = q (b + 1); re_line_end = q (b + 2); re_col_end = q (b + 3) }) in
      (match display false (coq_string "span_src.rs") (Some t) entries with
       | RSnippet (_, _, _, anns) ->
           let sp = List.map (fun a -> Printf.sprintf "%d:%d" (int_of_n a.an_start) (int_of_n a.an_end)) anns in
           Printf.sprintf "spans %s hdr=1 lbls=%d" (Stdlib.String.concat "," sp) (List.length anns)
       | RNothing -> "spans  hdr=0 lbls=0"
       | RFallback _ -> "fallback")
  | "setenv" | "chdir" -> "ok"      (* the model has no environment: the resolved path is a function of the two strings and the disk *)
  | "fsclear" -> Hashtbl.reset files; "ok"
  | "fs" -> Hashtbl.replace files (unhex f.(1)) (); "ok"
  | "abspath" | "abspath_old" ->
      let m = coq_string (unhex f.(1)) and file = coq_string (unhex f.(2)) in
      let is_file p = Hashtbl.mem files (ocaml_string p) in
      let r = if f.(0) = "abspath" then absolute_source_path is_file m file
              else absolute_source_path_old m file in
      hex (ocaml_string r)
  | "label" ->
      hex (ocaml_string (error_label (kind_of f.(1)) (coq_string (unhex f.(2))) (opt_field f.(3))))
  | "display" -> hex (ocaml_string (node_display (kind_of f.(1))))
  | "fallback" ->
      let rel = coq_string (unhex f.(1)) in
      let n = int_of_string f.(2) in
      let entries = List.init n (fun i ->
        let b = 3 + 4 * i in
        { e_kind = kind_of f.(b); e_line_start = n_of_int (int_of_string f.(b + 1));
          e_actual = coq_string (unhex f.(b + 2)); e_expected = opt_field f.(b + 3) }) in
      hex (ocaml_string (fallback_display rel entries))
  | "expand" ->
      (* expand <join_ok> <value uexpr sexp> <pattern sexp>  ->  flat tokens of the whole expansion *)
      let join_ok = f.(1) = "1" in
      let value = Irconv.uexpr_of (Irconv.parse_sexp f.(2)) in
      let p = Irconv.pat_of (Irconv.parse_sexp f.(3)) in
      Irconv.toks_to_string (expand_top join_ok value.u_toks p)
  | "binders" ->
      (* binders <join_ok> <value> <tree> -> identifiers the model's expansion binds, comma separated *)
      let value = Irconv.uexpr_of (Irconv.parse_sexp f.(2)) in
      let p = Irconv.pat_of (Irconv.parse_sexp f.(3)) in
      Stdlib.String.concat "," (List.map ocaml_string (stmt_binders (expand (f.(1) = "1") p (VRoot value.u_toks))))
  | "sem" ->
      (* sem <caller> <units> <value> <value-uexpr> <tree>: the specification's frontier and the
         execution of the model's expansion, on the same triple *)
      let caller = Irconv.caller_of (Irconv.parse_sexp f.(1)) in
      let units = Irconv.units_of (Irconv.parse_sexp f.(2)) in
      let v = Irconv.value_of (Irconv.parse_sexp f.(3)) in
      let vx = Irconv.uexpr_of (Irconv.parse_sexp f.(4)) in
      let p = Irconv.pat_of (Irconv.parse_sexp f.(5)) in
      let nodes = gen_nodes true p None in
      let en = { e_root = v; e_bind = []; e_caller = caller; e_units = units } in
      let fr = frontier caller units p v in
      let ex = exec_top true p vx.u_toks en in
      let ok = pat_ok units p in
      Printf.sprintf "F:%s X:%s T:%s ok=%d"
        (match fr with None -> "stuck" | Some es -> Irconv.entries_to_string nodes es)
        (match ex with None -> "stuck" | Some (es, _) -> Irconv.entries_to_string nodes es)
        (match ex with None -> "-" | Some (_, tr) -> Irconv.trace_to_string tr)
        (if ok then 1 else 0)
  | "frontend" -> Parseconv.do_frontend f
  | c -> failwith ("unknown command " ^ c)

let () =
  try
    while true do
      let line = input_line stdin in
      if line <> "" then print_endline (handle line)
    done
  with End_of_file -> ()
