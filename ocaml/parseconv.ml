(* parseconv.ml — reads the token trees and the table of syn's own parsers written by
   harness/mac (src/oracle.rs), runs the extracted Coq front end (Parser.v, FrontEnd.v) with
   that table as its three oracles, and prints the result in the format of ser.rs.
   Hand-written, trusted. *)
open Model
open Conv
open Irconv

let litkind_of (l : sexp list) : litkind =
  match l with
  | [A "s"; v] -> LStr (cstr v)
  | [A "i"; A "none"] -> LInt None
  | [A "i"; A n] ->
      (* usize values above OCaml's int range are kept exact through the decimal string *)
      let rec n_of_dec (s : Stdlib.String.t) (i : int) (acc : n) : n =
        if i >= Stdlib.String.length s then acc
        else n_of_dec s (i + 1) (N.add (N.mul acc (n_of_int 10)) (n_of_int (Char.code s.[i] - 48))) in
      LInt (Some (n_of_dec n 0 N0))
  | [A "f"] -> LFloat
  | [A "o"] -> LOther
  | _ -> failwith "litkind"

let rec ttree_of (x : sexp) : ttree =
  match x with
  | L [A "I"; s; sp] -> TTIdent (cstr s, sspan_of sp)
  | L [A "P"; c; j; sp] -> TTPunct (ascii_of_char (unhex (atom c)).[0], atom j = "j", sspan_of sp)
  | L (A "L" :: text :: sp :: kind) -> TTLit (litkind_of kind, cstr text, sspan_of sp)
  | L [A "G"; d; sp; spo; spc; body] ->
      TTGroup (delim_of_char (atom d).[0], sspan_of sp, sspan_of spo, sspan_of spc, List.map ttree_of (items body))
  | _ -> failwith "ttree"

let tspan_s (t : ttree) : Stdlib.String.t =
  span_to_string (match t with TTIdent (_, sp) | TTPunct (_, _, sp) | TTLit (_, _, sp) | TTGroup (_, sp, _, _, _) -> sp)

let oerr_of (a : sexp) : oerr = if atom a = "cs" then OErrEof else OErrAt (sspan_of a)

type tables = {
  te : (Stdlib.String.t, expr_ok ores) Hashtbl.t;
  tp : (Stdlib.String.t, path_ok ores) Hashtbl.t;
  tc : (Stdlib.String.t, closure_ok ores) Hashtbl.t;
  mutable bad : Stdlib.String.t list;
}

let tables_of (x : sexp) : tables =
  let t = { te = Hashtbl.create 64; tp = Hashtbl.create 64; tc = Hashtbl.create 8; bad = [] } in
  List.iter (fun e ->
    match e with
    | L [A "E"; A key; A "ok"; n; u; range; strv; unx] ->
        let parts = match range with
          | A "none" -> None
          | L [A "parts"; lo; lim; incl; hi] -> Some (((opt_uexpr lo, sspan_of lim), bool_of incl), opt_uexpr hi)
          | _ -> failwith "range parts" in
        Hashtbl.replace t.te key (OOk { eo_n = nat_of n; eo_u = uexpr_of u; eo_range = parts;
                                        eo_str = (match strv with A "none" -> None | v -> Some (cstr v));
                                        eo_unx = opt_span unx })
    | L [A "E"; A key; A "err"; pos] -> Hashtbl.replace t.te key (OErr (oerr_of pos))
    | L [A "P"; A key; A "ok"; n; p; unx] -> Hashtbl.replace t.tp key (OOk { po_n = nat_of n; po_p = path_of p; po_unx = opt_span unx })
    | L [A "P"; A key; A "err"; pos] -> Hashtbl.replace t.tp key (OErr (oerr_of pos))
    | L [A "C"; A key; A "ok"; n; u; inputs; isp; unx] ->
        Hashtbl.replace t.tc key (OOk { co_n = nat_of n; co_u = uexpr_of u; co_inputs = nat_of inputs;
                                        co_inputs_span = sspan_of isp; co_unx = opt_span unx })
    | L [A "C"; A key; A "err"; pos] -> Hashtbl.replace t.tc key (OErr (oerr_of pos))
    | _ -> failwith "oracle entry") (items x);
  t

(* the positions where the tokens of a list start (groups: where they open and where they close), nested *)
let rec starts_of (ts : ttree list) : Stdlib.String.t list =
  let st sp = match sp with SCall -> "cs" | SPos (a, b, _, _) -> Printf.sprintf "%d.%d" (int_of_n a) (int_of_n b) in
  List.concat_map (fun t -> match t with
    | TTIdent (_, sp) | TTPunct (_, _, sp) | TTLit (_, _, sp) -> [st sp]
    | TTGroup (_, sp, spo, spc, body) -> st sp :: st spo :: st spc :: starts_of body) ts

(* the hypothesis of c13_error_located: a span reported by one of syn's parsers starts where a token of its own input starts *)
let local_ok (ts : ttree list) (sp : span) : bool =
  match sp with SCall -> true | SPos (a, b, _, _) -> List.mem (Printf.sprintf "%d.%d" (int_of_n a) (int_of_n b)) (starts_of ts)

(* an oracle: a function of the remaining tokens of the current group, looked up by the
   (unique) source position of the first of them; nothing left is "unexpected end of input" *)
let oracle (t : tables) (tbl : (Stdlib.String.t, 'a ores) Hashtbl.t) (what : Stdlib.String.t)
    (taken : 'a -> nat) ?(reported : 'a -> span list = fun _ -> []) (ts : ttree list) : 'a ores =
  match ts with
  | [] -> OErr OErrEof
  | first :: _ ->
      let key = tspan_s first in
      (match Hashtbl.find_opt tbl key with
       | Some (OOk r) ->
           (* the hypothesis of the theorems: a successful parse takes between one token and all of them *)
           let n = int_of_nat (taken r) in
           if n < 1 || n > List.length ts then t.bad <- (what ^ "@" ^ key ^ ": takes " ^ string_of_int n) :: t.bad;
           List.iter (fun sp -> if not (local_ok ts sp) then
                                  t.bad <- (what ^ "@" ^ key ^ ": reports the span " ^ span_to_string sp ^ ", which starts at no token of its input") :: t.bad)
             (reported r);
           OOk r
       | Some (OErr (OErrAt sp)) ->
           if not (local_ok ts sp) then
             t.bad <- (what ^ "@" ^ key ^ ": error at " ^ span_to_string sp ^ ", which starts at no token of its input") :: t.bad;
           OErr (OErrAt sp)
       | Some e -> e
       | None -> t.bad <- (what ^ "@" ^ key ^ ": no table entry") :: t.bad; OErr OErrEof)

(* ---- printing a pattern tree in the format of ser.rs ------------------------------- *)

let uexpr_s (u : uexpr) : Stdlib.String.t =
  Printf.sprintf "(e %s %d %s (%s))" (hex (ocaml_string u.u_text)) (if u.u_strlit then 1 else 0)
    (span_to_string u.u_span) (toks_to_string u.u_toks)
let opt_uexpr_s = function None -> "none" | Some u -> uexpr_s u
let opt_span_s = function None -> "none" | Some s -> span_to_string s
let path_s (p : rpath) : Stdlib.String.t =
  Printf.sprintf "(p %s %s %s %s (%s))" (hex (ocaml_string p.p_text)) (span_to_string p.p_span)
    (opt_span_s p.p_first) (opt_span_s p.p_last) (toks_to_string p.p_toks)
let ident_s (s : Model.string) (sp : span) = "I" ^ hex (ocaml_string s) ^ "@" ^ span_to_string sp
let dec_of_n (x : n) : Stdlib.String.t =
  (* exact decimal rendering (values may exceed OCaml's int) *)
  ocaml_string (n_to_string x)

let rec fop_s (o : fop) : Stdlib.String.t =
  match o with
  | ODeref (c, sp) -> Printf.sprintf "(deref %d %s)" (int_of_nat c) (span_to_string sp)
  | OMethod (name, nsp, sp, args) ->
      Printf.sprintf "(method %s %s (%s))" (ident_s name nsp) (span_to_string sp)
        (Stdlib.String.concat " " (List.map uexpr_s args))
  | OAwait sp -> Printf.sprintf "(await %s)" (span_to_string sp)
  | ONamed (name, nsp, sp) -> Printf.sprintf "(named %s %s)" (ident_s name nsp) (span_to_string sp)
  | OUnnamed (i, sp) -> Printf.sprintf "(unnamed %s %s)" (dec_of_n i) (span_to_string sp)
  | OIndex (e, sp) -> Printf.sprintf "(index %s %s)" (uexpr_s e) (span_to_string sp)
  | OChained (sp, ops) ->
      Printf.sprintf "(chained %s (%s))" (span_to_string sp) (Stdlib.String.concat " " (List.map fop_s ops))

let cmp_s = function OpLt -> "lt" | OpLe -> "le" | OpGt -> "gt" | OpGe -> "ge" | OpEq -> "eq" | OpNe -> "ne"

let rec pat_s (j : bool) (p : pat) : Stdlib.String.t =
  let loc =
    let (((a, b), c), d) = location j p in
    Printf.sprintf "%d.%d.%d.%d" (int_of_n a) (int_of_n b) (int_of_n c) (int_of_n d) in
  let id x = string_of_int (int_of_n x) in
  let b01 x = if x then "1" else "0" in
  let elem_s (o, q) = match o with
    | None -> Printf.sprintf "(pos %s)" (pat_s j q)
    | Some ops -> Printf.sprintf "(idx %s %s)" (fop_s ops) (pat_s j q) in
  let cat f l = Stdlib.String.concat " " (List.map f l) in
  let body = match p with
    | PSimple (i, e) -> Printf.sprintf "simple %s %s" (id i) (uexpr_s e)
    | PString (i, lit, lsp, v) ->
        Printf.sprintf "string %s L%s@%s %s" (id i) (hex (ocaml_string lit)) (span_to_string lsp) (hex (ocaml_string v))
    | PCmp (i, op, osp, e) -> Printf.sprintf "cmp %s %s %s %s" (id i) (cmp_s op) (span_to_string osp) (uexpr_s e)
    | PRange (i, e, parts) ->
        Printf.sprintf "range %s %s %s" (id i) (uexpr_s e)
          (match parts with
           | None -> "notrange"
           | Some (((lo, lim), incl), hi) ->
               Printf.sprintf "(parts %s %s %s %s)" (opt_uexpr_s lo) (span_to_string lim) (b01 incl) (opt_uexpr_s hi))
    | PRegex (i, pt, sp) -> Printf.sprintf "regex %s %s %s" (id i) (hex (ocaml_string pt)) (span_to_string sp)
    | PLike (i, e) -> Printf.sprintf "like %s %s" (id i) (uexpr_s e)
    | PWild i -> Printf.sprintf "wild %s" (id i)
    | PClosure (i, c) -> Printf.sprintf "closure %s %s" (id i) (uexpr_s c)
    | PStruct (i, path, rest, fields) ->
        Printf.sprintf "struct %s %s %s (%s)" (id i) (match path with None -> "none" | Some q -> path_s q) (b01 rest)
          (cat (fun (o, q) -> Printf.sprintf "(%s %s)" (fop_s o) (pat_s j q)) fields)
    | PEnum (i, path, elems) -> Printf.sprintf "enum %s %s (%s)" (id i) (path_s path) (cat elem_s elems)
    | PTuple (i, sp, elems) -> Printf.sprintf "tuple %s %s (%s)" (id i) (span_to_string sp) (cat elem_s elems)
    | PSlice (i, sp, elems) -> Printf.sprintf "slice %s %s (%s)" (id i) (span_to_string sp) (cat (pat_s j) elems)
    | PSet (i, sp, rest, elems) ->
        Printf.sprintf "set %s %s %s (%s)" (id i) (span_to_string sp) (b01 rest) (cat (pat_s j) elems)
    | PMap (i, sp, rest, entries) ->
        Printf.sprintf "map %s %s %s (%s)" (id i) (span_to_string sp) (b01 rest)
          (cat (fun (k, v) -> Printf.sprintf "(%s %s)" (uexpr_s k) (pat_s j v)) entries) in
  Printf.sprintf "(%s %s)" body loc

let span_start_s (sp : span) : Stdlib.String.t =
  match sp with
  | SCall -> "cs"
  | SPos (a, b, _, _) -> Printf.sprintf "%d.%d" (int_of_n a) (int_of_n b)

(* frontend <regex> <join_ok> <start counter> <TT> <OR> *)
let do_frontend (f : Stdlib.String.t array) : Stdlib.String.t =
  let regex = f.(1) = "1" and j = f.(2) = "1" in
  let start = n_of_int (int_of_string f.(3)) in
  let ts = List.map ttree_of (items (parse_sexp f.(4))) in
  let t = tables_of (parse_sexp f.(5)) in
  let opt = function Some s -> [s] | None -> [] in
  let pe = oracle t t.te "expr" (fun r -> r.eo_n) ~reported:(fun r -> r.eo_u.u_span :: opt r.eo_unx) in
  let pp = oracle t t.tp "path" (fun r -> r.po_n) ~reported:(fun r -> opt r.po_unx) in
  let pc = oracle t t.tc "closure" (fun r -> r.co_n) ~reported:(fun r -> r.co_inputs_span :: opt r.co_unx) in
  let res = front_end_from regex j pe pp pc start ts in
  let after = match counter_after regex j pe pp pc (fuel_for ts) ts with
    | Some c -> string_of_int (int_of_n c) | None -> "-" in
  let out = match res with
    | FEOk (v, p, _) ->
        (* the whole expansion, printed from the tree the MODEL's parser produced *)
        Printf.sprintf "ok\t%s\t%s\t%s" (uexpr_s v) (pat_s j p) (toks_to_string (expand_top j v.u_toks p))
    | FEErr sp -> "err\t" ^ span_start_s sp
    | FEPanic site -> "panic\t" ^ hex (ocaml_string site)
    | FEFuel -> "fuel" in
  let out = out ^ "\tctr=" ^ after in
  if t.bad = [] then out else out ^ "\tORACLE-ILL-FORMED " ^ Stdlib.String.concat "; " (List.rev t.bad)
