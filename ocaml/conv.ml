(* conv.ml — conversions between OCaml values and the extracted Coq datatypes,
   plus the line format shared with the Rust harnesses (hand-written, trusted). *)
open Model

let rec nat_of_int (i : int) : nat = if i <= 0 then O else S (nat_of_int (i - 1))
let rec int_of_nat (n : nat) : int = match n with O -> 0 | S k -> 1 + int_of_nat k

let rec pos_of_int (i : int) : positive =
  if i = 1 then XH else if i land 1 = 1 then XI (pos_of_int (i lsr 1)) else XO (pos_of_int (i lsr 1))
let n_of_int (i : int) : n = if i = 0 then N0 else Npos (pos_of_int i)
let rec int_of_pos (p : positive) : int =
  match p with XH -> 1 | XO q -> 2 * int_of_pos q | XI q -> 2 * int_of_pos q + 1
let int_of_n (x : n) : int = match x with N0 -> 0 | Npos p -> int_of_pos p

let ascii_of_char (c : char) : ascii =
  let i = Char.code c in
  let b k = (i lsr k) land 1 = 1 in
  Ascii (b 0, b 1, b 2, b 3, b 4, b 5, b 6, b 7)
let char_of_ascii (Ascii (b0, b1, b2, b3, b4, b5, b6, b7)) : char =
  let v b k = if b then 1 lsl k else 0 in
  Char.chr (v b0 0 + v b1 1 + v b2 2 + v b3 3 + v b4 4 + v b5 5 + v b6 6 + v b7 7)

let coq_string (s : Stdlib.String.t) : Model.string =
  let r = ref EmptyString in
  for i = Stdlib.String.length s - 1 downto 0 do r := String (ascii_of_char s.[i], !r) done;
  !r
let ocaml_string (s : Model.string) : Stdlib.String.t =
  let b = Buffer.create 64 in
  let rec go = function EmptyString -> () | String (a, r) -> Buffer.add_char b (char_of_ascii a); go r in
  go s; Buffer.contents b

(* hex fields: 'x' followed by two hex digits per byte *)
let unhex (s : Stdlib.String.t) : Stdlib.String.t =
  if Stdlib.String.length s = 0 || s.[0] <> 'x' then failwith ("bad hex field: " ^ s);
  let n = (Stdlib.String.length s - 1) / 2 in
  Stdlib.String.init n (fun i -> Char.chr (int_of_string ("0x" ^ Stdlib.String.sub s (1 + 2 * i) 2)))
let hex (s : Stdlib.String.t) : Stdlib.String.t =
  let b = Buffer.create (1 + 2 * Stdlib.String.length s) in
  Buffer.add_char b 'x';
  Stdlib.String.iter (fun c -> Buffer.add_string b (Printf.sprintf "%02x" (Char.code c))) s;
  Buffer.contents b

(* UTF-8 decoding of a valid string into code points *)
let code_points (s : Stdlib.String.t) : int list =
  let n = Stdlib.String.length s in
  let rec go i acc =
    if i >= n then List.rev acc
    else
      let c = Char.code s.[i] in
      if c < 0x80 then go (i + 1) (c :: acc)
      else if c < 0xE0 then go (i + 2) ((((c land 0x1F) lsl 6) lor (Char.code s.[i+1] land 0x3F)) :: acc)
      else if c < 0xF0 then
        go (i + 3) ((((c land 0x0F) lsl 12) lor ((Char.code s.[i+1] land 0x3F) lsl 6) lor (Char.code s.[i+2] land 0x3F)) :: acc)
      else
        go (i + 4) ((((c land 0x07) lsl 18) lor ((Char.code s.[i+1] land 0x3F) lsl 12)
                     lor ((Char.code s.[i+2] land 0x3F) lsl 6) lor (Char.code s.[i+3] land 0x3F)) :: acc)
  in go 0 []
let text_of_bytes (s : Stdlib.String.t) : n list = List.map n_of_int (code_points s)

let opt_field (s : Stdlib.String.t) : Model.string option =
  if s = "none" then None else Some (coq_string (unhex s))
let opt_hex (o : Model.string option) : Stdlib.String.t =
  match o with None -> "none" | Some s -> hex (ocaml_string s)

let split_tabs (s : Stdlib.String.t) = Stdlib.String.split_on_char '\t' s
