(* irconv.ml — reads the S-expression form of the real Pattern tree written by
   harness/mac (src/ser.rs) into the extracted Coq `pat`, and prints token lists in
   the flat format of ser.rs::flat_tokens.  Hand-written, trusted. *)
open Model
open Conv

type sexp = A of Stdlib.String.t | L of sexp list

let parse_sexp (s : Stdlib.String.t) : sexp =
  let n = Stdlib.String.length s in
  let pos = ref 0 in
  let rec skip () = if !pos < n && s.[!pos] = ' ' then (incr pos; skip ()) in
  let rec one () =
    skip ();
    if !pos >= n then failwith "sexp: eof"
    else if s.[!pos] = '(' then begin
      incr pos;
      let items = ref [] in
      let rec loop () =
        skip ();
        if !pos >= n then failwith "sexp: unclosed"
        else if s.[!pos] = ')' then incr pos
        else (items := one () :: !items; loop ()) in
      loop ();
      L (List.rev !items)
    end else begin
      let st = !pos in
      while !pos < n && s.[!pos] <> ' ' && s.[!pos] <> '(' && s.[!pos] <> ')' do incr pos done;
      A (Stdlib.String.sub s st (!pos - st))
    end in
  one ()

let span_of_string (s : Stdlib.String.t) : span =
  if s = "cs" then SCall
  else match Stdlib.String.split_on_char '.' s with
    | [a; b; c; d] -> SPos (n_of_int (int_of_string a), n_of_int (int_of_string b),
                            n_of_int (int_of_string c), n_of_int (int_of_string d))
    | _ -> failwith ("span " ^ s)

let span_to_string (sp : span) : Stdlib.String.t =
  match sp with
  | SCall -> "cs"
  | SPos (a, b, c, d) -> Printf.sprintf "%d.%d.%d.%d" (int_of_n a) (int_of_n b) (int_of_n c) (int_of_n d)

let delim_of_char = function 'p' -> DParen | 'b' -> DBrace | 'k' -> DBracket | 'n' -> DNone | _ -> failwith "delim"
let char_of_delim = function DParen -> 'p' | DBrace -> 'b' | DBracket -> 'k' | DNone -> 'n'

(* one flat token: I<hex>@span  P<hex>j@span  L<hex>@span  Op@span  Cp@span *)
let tok_of_string (s : Stdlib.String.t) : tok =
  let at = Stdlib.String.rindex s '@' in
  let body = Stdlib.String.sub s 0 at in
  let sp = span_of_string (Stdlib.String.sub s (at + 1) (Stdlib.String.length s - at - 1)) in
  let rest = Stdlib.String.sub body 1 (Stdlib.String.length body - 1) in
  match body.[0] with
  | 'I' -> TIdent (coq_string (unhex rest), sp)
  | 'L' -> TLit (coq_string (unhex rest), sp)
  | 'P' ->
      let j = rest.[Stdlib.String.length rest - 1] = 'j' in
      let c = unhex (Stdlib.String.sub rest 0 (Stdlib.String.length rest - 1)) in
      TPunct (ascii_of_char c.[0], j, sp)
  | 'O' -> TOpen (delim_of_char rest.[0], sp)
  | 'C' -> TClose (delim_of_char rest.[0], sp)
  | _ -> failwith ("tok " ^ s)

let tok_to_string (t : tok) : Stdlib.String.t =
  match t with
  | TIdent (s, sp) -> "I" ^ hex (ocaml_string s) ^ "@" ^ span_to_string sp
  | TLit (s, sp) -> "L" ^ hex (ocaml_string s) ^ "@" ^ span_to_string sp
  | TPunct (c, j, sp) ->
      "P" ^ hex (Stdlib.String.make 1 (char_of_ascii c)) ^ (if j then "j" else "a") ^ "@" ^ span_to_string sp
  | TOpen (d, sp) -> "O" ^ Stdlib.String.make 1 (char_of_delim d) ^ "@" ^ span_to_string sp
  | TClose (d, sp) -> "C" ^ Stdlib.String.make 1 (char_of_delim d) ^ "@" ^ span_to_string sp

let toks_to_string (ts : tok list) : Stdlib.String.t = Stdlib.String.concat " " (List.map tok_to_string ts)

let atom = function A s -> s | L _ -> failwith "expected atom"
let items = function L l -> l | A a -> failwith ("expected list, got " ^ a)
let toks_of (x : sexp) : tok list = List.map (fun t -> tok_of_string (atom t)) (items x)
let cstr x = coq_string (unhex (atom x))
let nat_of x = nat_of_int (int_of_string (atom x))
let n_of x = n_of_int (int_of_string (atom x))
let bool_of x = atom x = "1"
let sspan_of x = span_of_string (atom x)
let opt_span x = if atom x = "none" then None else Some (sspan_of x)

let uexpr_of (x : sexp) : uexpr =
  match x with
  | L [A "e"; text; strlit; sp; toks] ->
      { u_text = cstr text; u_strlit = bool_of strlit; u_span = sspan_of sp; u_toks = toks_of toks }
  | _ -> failwith "uexpr"

let opt_uexpr (x : sexp) : uexpr option = match x with A "none" -> None | _ -> Some (uexpr_of x)

let path_of (x : sexp) : rpath =
  match x with
  | L [A "p"; text; sp; first; last; toks] ->
      { p_text = cstr text; p_span = sspan_of sp; p_first = opt_span first; p_last = opt_span last; p_toks = toks_of toks }
  | _ -> failwith "path"

let ident_of (x : sexp) : Model.string * span =
  match tok_of_string (atom x) with TIdent (s, sp) -> (s, sp) | _ -> failwith "ident"

let rec fop_of (x : sexp) : fop =
  match x with
  | L [A "deref"; c; sp] -> ODeref (nat_of c, sspan_of sp)
  | L [A "method"; name; sp; args] ->
      let (s, nsp) = ident_of name in OMethod (s, nsp, sspan_of sp, List.map uexpr_of (items args))
  | L [A "await"; sp] -> OAwait (sspan_of sp)
  | L [A "named"; name; sp] -> let (s, nsp) = ident_of name in ONamed (s, nsp, sspan_of sp)
  | L [A "unnamed"; i; sp] -> OUnnamed (n_of i, sspan_of sp)
  | L [A "index"; e; sp] -> OIndex (uexpr_of e, sspan_of sp)
  | L [A "chained"; sp; ops] -> OChained (sspan_of sp, List.map fop_of (items ops))
  | _ -> failwith "fop"

let cmp_of = function
  | "lt" -> OpLt | "le" -> OpLe | "gt" -> OpGt | "ge" -> OpGe | "eq" -> OpEq | "ne" -> OpNe
  | o -> failwith ("op " ^ o)

(* the trailing element of every pattern s-expression is the location the real
   Pattern::location() computed; it is returned separately for comparison *)
let rec pat_of (x : sexp) : pat =
  let l = items x in
  let l = List.filteri (fun i _ -> i < List.length l - 1) l in
  match l with
  | [A "simple"; id; e] -> PSimple (n_of id, uexpr_of e)
  | [A "string"; id; lit; v] ->
      (match tok_of_string (atom lit) with
       | TLit (s, sp) -> PString (n_of id, s, sp, cstr v)
       | _ -> failwith "string lit")
  | [A "cmp"; id; op; osp; e] -> PCmp (n_of id, cmp_of (atom op), sspan_of osp, uexpr_of e)
  | [A "range"; id; e; parts] ->
      let parts = match parts with
        | A "notrange" -> None
        | L [A "parts"; lo; lim; incl; hi] -> Some (((opt_uexpr lo, sspan_of lim), bool_of incl), opt_uexpr hi)
        | _ -> failwith "range parts" in
      PRange (n_of id, uexpr_of e, parts)
  | [A "regex"; id; p; sp] -> PRegex (n_of id, cstr p, sspan_of sp)
  | [A "like"; id; e] -> PLike (n_of id, uexpr_of e)
  | [A "wild"; id] -> PWild (n_of id)
  | [A "closure"; id; c] -> PClosure (n_of id, uexpr_of c)
  | [A "struct"; id; path; rest; fields] ->
      let path = match path with A "none" -> None | p -> Some (path_of p) in
      PStruct (n_of id, path, bool_of rest,
               List.map (fun f -> match f with L [o; p] -> (fop_of o, pat_of p) | _ -> failwith "field") (items fields))
  | [A "enum"; id; path; elems] -> PEnum (n_of id, path_of path, List.map elem_of (items elems))
  | [A "tuple"; id; sp; elems] -> PTuple (n_of id, sspan_of sp, List.map elem_of (items elems))
  | [A "slice"; id; sp; elems] -> PSlice (n_of id, sspan_of sp, List.map pat_of (items elems))
  | [A "set"; id; sp; rest; elems] -> PSet (n_of id, sspan_of sp, bool_of rest, List.map pat_of (items elems))
  | [A "map"; id; sp; rest; entries] ->
      PMap (n_of id, sspan_of sp, bool_of rest,
            List.map (fun e -> match e with L [k; v] -> (uexpr_of k, pat_of v) | _ -> failwith "entry") (items entries))
  | A k :: _ -> failwith ("pattern kind " ^ k)
  | _ -> failwith "pattern"
and elem_of (x : sexp) : fop option * pat =
  match x with
  | L [A "pos"; p] -> (None, pat_of p)
  | L [A "idx"; o; p] -> (Some (fop_of o), pat_of p)
  | _ -> failwith "elem"

(* locations recorded by the real Pattern::location, in the tree's pre-order *)
let rec real_locs (x : sexp) : (int * Stdlib.String.t) list =
  let l = items x in
  let loc = atom (List.nth l (List.length l - 1)) in
  let id = int_of_string (atom (List.nth l 1)) in
  let kids = match l with
    | A "struct" :: _ :: _ :: _ :: fields :: _ -> List.map (fun f -> match f with L [_; p] -> p | _ -> failwith "f") (items fields)
    | A "enum" :: _ :: _ :: elems :: _ | A "tuple" :: _ :: _ :: elems :: _ ->
        List.map (fun e -> match e with L [A "pos"; p] -> p | L [A "idx"; _; p] -> p | _ -> failwith "e") (items elems)
    | A "slice" :: _ :: _ :: elems :: _ -> items elems
    | A "set" :: _ :: _ :: _ :: elems :: _ -> items elems
    | A "map" :: _ :: _ :: _ :: entries :: _ -> List.map (fun e -> match e with L [_; v] -> v | _ -> failwith "m") (items entries)
    | _ -> [] in
  (id, loc) :: List.concat_map real_locs kids

(* ---- values, environments, entries (semantic commands) ---------------------- *)

let rec z_of_int (i : int) : z = if i = 0 then Z0 else if i > 0 then Zpos (pos_of_int i) else Zneg (pos_of_int (- i))

let rec value_of (x : sexp) : value =
  match x with
  | L [A "int"; A n] -> VInt (z_of_int (int_of_string n))
  | L [A "bool"; A b] -> VBool (b = "1")
  | L [A "float"; A n] -> VFloat (Some (z_of_int (int_of_string n)))
  | L [A "nan"] -> VFloat None
  | L [A "str"; A h] -> VStr (coq_string (unhex h))
  | L [A "unit"] -> VUnit
  | L [A "ref"; v] -> VRefV (value_of v)
  | L [A "box"; v] -> VBoxV (value_of v)
  | L (A "tuple" :: vs) -> VTupleV (List.map value_of vs)
  | L (A "struct" :: A name :: fs) ->
      VStructV (coq_string (unhex name),
                List.map (fun f -> match f with L [A fname; v] -> (coq_string (unhex fname), value_of v) | _ -> failwith "field") fs)
  | L (A "variant" :: A name :: vs) -> VVariantV (coq_string (unhex name), List.map value_of vs)
  | L (A "vec" :: vs) -> VVecV (List.map value_of vs)
  | L (A "view" :: A name :: vs) -> VViewV (coq_string (unhex name), List.map value_of vs)
  | L (A "map" :: kvs) ->
      VMapV (List.map (fun kv -> match kv with L [k; v] -> (value_of k, value_of v) | _ -> failwith "kv") kvs)
  | _ -> failwith "value"

let caller_of (x : sexp) : (Model.string * value) list =
  List.map (fun b -> match b with L [A n; v] -> (coq_string (unhex n), value_of v) | _ -> failwith "binding") (items x)

let units_of (x : sexp) : Model.string list = List.map (fun a -> coq_string (unhex (atom a))) (items x)

let node_display_of (nodes : node list) (id : n) : Stdlib.String.t =
  match List.find_opt (fun nd -> int_of_n nd.n_id = int_of_n id) nodes with
  | Some nd -> ocaml_string (node_display (node_kind_of nd.n_desc))
  | None -> "<undefined node>"

let actual_text (a : atext) : Stdlib.String.t =
  match a with
  | TDebug v -> ocaml_string (debug v)
  | TMapLen n -> Printf.sprintf "map with %d entries" (int_of_nat n)
  | TMissingKey -> "missing key"
  | TSetLen n -> Printf.sprintf "%d element(s)" (int_of_nat n)

let entries_to_string (nodes : node list) (es : entry list) : Stdlib.String.t =
  Stdlib.String.concat ";"
    (string_of_int (List.length es) ::
     List.map (fun e -> Printf.sprintf "%s|%s|%s" (hex (node_display_of nodes e.en_node)) (hex (actual_text e.en_actual))
                          (match e.en_expected with None -> "none" | Some s -> hex (ocaml_string s))) es)

let trace_to_string (tr : event list) : Stdlib.String.t =
  let c p = List.length (List.filter p tr) in
  let names = List.concat_map (fun e -> match e with EvMethod m -> [ocaml_string m] | _ -> []) tr in
  Printf.sprintf "root=%d,method=%d,index=%d,debug=%d,order=%s"
    (c (fun e -> e = EvRoot)) (c (fun e -> match e with EvMethod _ -> true | _ -> false))
    (c (fun e -> e = EvIndex)) (c (fun e -> match e with EvDebug _ -> true | _ -> false))
    (if names = [] then "-" else Stdlib.String.concat "." names)
