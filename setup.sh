#!/bin/sh
# One-time build after a fresh restore (offline): Coq development (full .vo build),
# extraction + OCaml model runner, Rust harnesses against /repo.
set -e
cd "$(dirname "$0")"
export CARGO_NET_OFFLINE=true
mkdir -p .work/tmp evidence
python3 - <<'PY'
import sys, os
sys.path.insert(0, "tools")
import vlib, maclib, e2e
vlib.build_coq()
vlib.build_model_runner()
maclib.prepare_mac()
e2e.support_args()
for h in sorted(os.listdir("harness")):
    if os.path.exists(os.path.join("harness", h, "Cargo.toml")):
        ok, out = vlib.build_harness(h)
        print("harness", h, "ok" if ok else "FAILED")
        if not ok:
            print(out[-3000:])
PY
echo setup done
