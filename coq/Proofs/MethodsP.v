(* MethodsP.v — C08 for the method calls written in field-operation chains: on a passing run every statement of the expansion
   evaluates its own value expression exactly once, so a method written in a chain is called exactly as many times as the statements
   that mention it (no hidden second evaluation: no temporary re-read, no evaluation for a message that is never shown). *)
From ASModel Require Import Base Tokens Report Ast IR Expand SetMatch Values Nodes Sem.
From ASProofs Require Import StmtInd SemP TraceP.

Definition is_method_ev (e : event) : bool := match e with EvMethod _ => true | _ => false end.

(* the method calls written in a value expression *)
Fixpoint vmethods (e : vexpr) : nat :=
  match e with
  | VMethod _ x _ _ _ => S (vmethods x)
  | VRef x | VField x _ | VDeref _ x | VAwait _ x | VNamed _ x _ _ | VUnnamed _ x _ | VIndex _ x _ => vmethods x
  | VRoot _ | VBind _ | VFieldBind _ => 0
  end.

Lemma eval_methods en : forall e v t, eval en e = Some (v, t) -> cnt is_method_ev t = vmethods e.
Proof.
  induction e as [ts|n|f|x IH|x IH f|sp x IH|sp x IH m msp args|sp x IH|sp x IH f fsp|sp x IH i|sp x IH i];
    intros v t H; cbn [eval vmethods] in *.
  - inversion H; reflexivity.
  - destruct (lookup _ _); inversion H; reflexivity.
  - destruct (lookup _ _); inversion H; reflexivity.
  - destruct (eval en x) as [[w t']|]; [|discriminate]. inversion H; subst. eapply IH; reflexivity.
  - destruct (eval en x) as [[w t']|]; [|discriminate]. destruct f; [destruct (field_of _ _)|destruct (elem_of _ _)]; inversion H; subst; eapply IH; reflexivity.
  - destruct (eval en x) as [[w t']|]; [|discriminate]. destruct w; inversion H; subst; eapply IH; reflexivity.
  - destruct (eval en x) as [[w t']|]; [|discriminate]. destruct (all_some _); [|discriminate]. destruct (method_sem _ _ _); [|discriminate].
    inversion H; subst. rewrite cnt_app. rewrite (IH _ _ eq_refl). cbn. lia.
  - discriminate.
  - destruct (eval en x) as [[w t']|]; [|discriminate]. destruct (field_of _ _); inversion H; subst; eapply IH; reflexivity.
  - destruct (eval en x) as [[w t']|]; [|discriminate]. destruct (elem_of _ _); inversion H; subst; eapply IH; reflexivity.
  - destruct (eval en x) as [[w t']|]; [|discriminate]. destruct (ueval _ _) as [[]|]; try discriminate.
    destruct (auto_deref w); try discriminate. destruct (Z.ltb _ _); [discriminate|]. destruct (nth_error _ _); [|discriminate].
    inversion H; subst. rewrite cnt_app. rewrite (IH _ _ eq_refl). cbn. lia.
Qed.

(* the method calls the statements of an expansion mention, statement by statement; sets are left out (their predicates are probed
   once per candidate element: the property's own exception) *)
Fixpoint sites (s : stmt) : nat :=
  let sum := fix sum (l : list stmt) : nat := match l with [] => 0 | x :: r => sites x + sum r end in
  match s with
  | SNop | SPanic _ => 0
  | SSimple _ e _ _ | SString _ e _ _ _ | SCmp _ _ e _ _ | SUnit _ e _ _ | SRange _ e _ _ _ | SRegex _ e _ _ | SLike _ e _ _
  | SClosure _ e _ _ | SMapLen _ e _ _ => vmethods e
  | SVariant _ e _ _ body _ | SStruct _ e _ _ _ body _ | STuple e _ body | SSlice e _ body _ => vmethods e + sum body
  | SSeq body => sum body
  | SMapGet _ e _ body _ => vmethods e + sites body
  | SSet e _ _ _ => vmethods e
  end.
Fixpoint sites_list (l : list stmt) : nat := match l with [] => 0 | x :: r => sites x + sites_list r end.
Lemma sites_sum l : (fix sum (l : list stmt) : nat := match l with [] => 0 | x :: r => sites x + sum r end) l = sites_list l.
Proof. induction l as [|x r IH]; cbn; [reflexivity|rewrite IH; reflexivity]. Qed.

Fixpoint set_free (s : stmt) : bool :=
  let all := fix all (l : list stmt) : bool := match l with [] => true | x :: r => set_free x && all r end in
  match s with
  | SSet _ _ _ _ => false
  | SVariant _ _ _ _ body _ | SStruct _ _ _ _ _ body _ | STuple _ _ body | SSlice _ _ body _ | SSeq body => all body
  | SMapGet _ _ _ body _ => set_free body
  | _ => true
  end.
Lemma set_free_all l : (fix all (l : list stmt) : bool := match l with [] => true | x :: r => set_free x && all r end) l = forallb set_free l.
Proof. induction l as [|x r IH]; cbn; [reflexivity|rewrite IH; reflexivity]. Qed.

Lemma do_push_nonempty en p a rep tr : do_push en p a = Some (rep, tr) -> rep <> [].
Proof.
  unfold do_push. destruct (ps_actual p); intros H.
  - destruct (eval en e) as [[? ?]|]; inversion H; discriminate.
  - destruct (eval en e) as [[? ?]|]; inversion H; discriminate.
  - destruct a; inversion H; discriminate.
  - destruct (eval en e) as [[w ?]|]; [|discriminate]. destruct (auto_deref w); inversion H; discriminate.
  - inversion H; discriminate.
Qed.

Lemma test_pass en r t p a tr : test en r t p a = Some ([], tr) -> tr = t.
Proof.
  unfold test. destruct r as [[|]|]; intros H; [inversion H; reflexivity| |discriminate].
  destruct (do_push en p a) as [[rep t2]|] eqn:E; [|discriminate]. cbn in H. inversion H as [[H1 H2]].
  exfalso. eapply do_push_nonempty; [exact E|]. destruct rep; [reflexivity|discriminate].
Qed.

Definition counted (s : stmt) : Prop :=
  set_free s = true -> forall en tr, exec s en = Some ([], tr) -> cnt is_method_ev tr = sites s.

Lemma run_list_counted : forall body en tr,
  Forall counted body -> forallb set_free body = true -> run_list body en = Some ([], tr) -> cnt is_method_ev tr = sites_list body.
Proof.
  induction body as [|x r IH]; intros en tr HF Hs H; cbn in *.
  - inversion H; reflexivity.
  - apply andb_true_iff in Hs as [Hx Hr]. inversion HF as [|? ? Px Pr]; subst.
    destruct (exec x en) as [[r1 t1]|] eqn:E1; [|discriminate]. destruct (run_list r en) as [[r2 t2]|] eqn:E2; [|discriminate].
    cbn in H. inversion H as [[Hrep Htr]]. apply app_eq_nil in Hrep as [-> ->].
    rewrite cnt_app. rewrite (Px Hx en t1 E1). rewrite (IH en t2 Pr Hr E2). reflexivity.
Qed.

Lemma pre_body_counted en e v t body tr :
  eval en e = Some (v, t) -> Forall counted body -> forallb set_free body = true -> forall en',
  seq2 (Some ([], t)) (run_list body en') = Some ([], tr) -> cnt is_method_ev tr = vmethods e + sites_list body.
Proof.
  intros He HF Hs en' H. destruct (run_list body en') as [[r2 t2]|] eqn:E; [|discriminate]. cbn in H. inversion H as [[Hrep Htr]]. subst r2.
  rewrite cnt_app. rewrite (eval_methods _ _ _ _ He). rewrite (run_list_counted _ _ _ HF Hs E). reflexivity.
Qed.

Ltac leaf H :=
  match type of H with
  | test _ _ _ _ _ = Some ([], _) => apply test_pass in H; subst
  end.

Ltac nofail H :=
  exfalso; unfold test in H;
  match type of H with
  | seq2 _ (do_push ?en ?p ?a) = _ =>
      let D := fresh "D" in
      destruct (do_push en p a) as [[rep t2]|] eqn:D; [|discriminate]; cbn in H; inversion H as [[Hr Ht]];
      eapply do_push_nonempty; [exact D|]; destruct rep; [reflexivity|discriminate]
  end.

Theorem exec_counts_methods : forall s, counted s.
Proof.
  apply stmt_ind'; unfold counted; intros; cbn [exec sites set_free] in *;
    try rewrite sites_sum in *; try rewrite set_free_all in *; try rewrite run_fix_eq in *.
  - inversion H0; reflexivity.
  - discriminate.
  - destruct (eval en e) as [[v t]|] eqn:E; [|discriminate]. leaf H0. eapply eval_methods; exact E.
  - destruct (eval en e) as [[v t]|] eqn:E; [|discriminate]. destruct (parse_str_lit l); [|discriminate]. destruct (peel v); try discriminate.
    leaf H0. eapply eval_methods; exact E.
  - destruct (eval en e) as [[v t]|] eqn:E; [|discriminate]. destruct (ueval _ _); [|discriminate]. leaf H0. eapply eval_methods; exact E.
  - destruct (eval en e) as [[v t]|] eqn:E; [|discriminate]. destruct (path_last path); [|discriminate].
    destruct (path_single path && _); [inversion H0; subst; eapply eval_methods; exact E|].
    destruct (peel v); try discriminate; try (nofail H0; fail).
    destruct args; [leaf H0; eapply eval_methods; exact E|nofail H0].
  - destruct (eval en e) as [[v t]|] eqn:E; [|discriminate]. destruct (path_last path); [|discriminate].
    destruct (peel v); try discriminate; try (nofail H1; fail).
    destruct (String.eqb _ _); [|nofail H1].
    destruct (pair_opts _ _ _ _); [|discriminate]. try rewrite run_fix_eq in *; eapply pre_body_counted; [exact E|exact H|eassumption|eassumption].
  - destruct (eval en e) as [[v t]|] eqn:E; [|discriminate]. destruct (path_last path); [|discriminate].
    destruct (peel v); try discriminate; try (nofail H1; fail).
    destruct (String.eqb _ _); [|nofail H1].
    destruct (rest || _); [|discriminate]. destruct (pair_fields _ _); [|discriminate]. try rewrite run_fix_eq in *; eapply pre_body_counted; [exact E|exact H|eassumption|eassumption].
  - try rewrite run_fix_eq in *; eapply run_list_counted; [exact H|eassumption|eassumption].
  - destruct (eval en e) as [[v t]|] eqn:E; [|discriminate]. destruct (peel v); try discriminate.
    destruct (pair_opts _ _ _ _); [|discriminate]. try rewrite run_fix_eq in *; eapply pre_body_counted; [exact E|exact H|eassumption|eassumption].
  - destruct (eval en e) as [[v t]|] eqn:E; [|discriminate]. leaf H0. eapply eval_methods; exact E.
  - destruct (eval en e) as [[v t]|] eqn:E; [|discriminate]. destruct (elements_of v); [|discriminate].
    destruct (slice_match _ _) as [[bs|]|]; [|nofail H1|discriminate].
    try rewrite run_fix_eq in *; eapply pre_body_counted; [exact E|exact H|eassumption|eassumption].
  - destruct (eval en e) as [[v t]|] eqn:E; [|discriminate]. destruct (peel v); try discriminate. leaf H0. eapply eval_methods; exact E.
  - destruct (eval en e) as [[v t]|] eqn:E; [|discriminate]. destruct (ueval _ _) as [w|]; [|discriminate].
    destruct (peel v); try discriminate. destruct (peel w); try discriminate. leaf H0. eapply eval_methods; exact E.
  - destruct (eval en e) as [[v t]|] eqn:E; [|discriminate]. leaf H0. eapply eval_methods; exact E.
  - destruct (eval en e) as [[v t]|] eqn:E; [|discriminate]. destruct (auto_deref v); try discriminate. leaf H0. eapply eval_methods; exact E.
  - destruct (eval en e) as [[v t]|] eqn:E; [|discriminate]. destruct (ueval _ _); [|discriminate]. destruct (auto_deref v); try discriminate.
    destruct (map_get _ _).
    + destruct (exec body _) as [[r2 t2]|] eqn:E2; [|discriminate]. cbn in H1. inversion H1 as [[Hr Ht]]. subst r2.
      rewrite cnt_app. rewrite (eval_methods _ _ _ _ E). rewrite (H H0 _ _ E2). reflexivity.
    + exfalso. destruct (do_push en missing None) as [[rep t2]|] eqn:D; [|discriminate]. cbn in H1. inversion H1 as [[Hr _]].
      eapply do_push_nonempty; [exact D|]. destruct rep; [reflexivity|discriminate].
  - discriminate.
Qed.

(* the value expression built for a field-operation chain contains exactly the method calls written in the chain *)
Fixpoint fop_methods (o : fop) : nat :=
  match o with
  | OMethod _ _ _ _ => 1
  | OChained _ ops => (fix sum (l : list fop) : nat := match l with [] => 0 | x :: r => fop_methods x + sum r end) ops
  | _ => 0
  end.

Lemma vmethods_iter_deref sp : forall n base, vmethods (Nat.iter n (VDeref sp) base) = vmethods base.
Proof. induction n as [|n IH]; intros base; cbn; [reflexivity|apply IH]. Qed.

Lemma vmethods_apply_ops : forall o base, vmethods (apply_ops base o) = vmethods base + fop_methods o.
Proof.
  fix IH 1. intros o base. destruct o as [count sp|name nsp sp args|sp|name nsp sp|idx sp|i sp|sp ops]; cbn [apply_ops fop_methods vmethods];
    try lia.
  - change (vmethods (VDeref sp (Nat.iter count (VDeref sp) base)) = vmethods base + 0). cbn [vmethods]. rewrite vmethods_iter_deref. lia.
  - revert base. induction ops as [|x r IHr]; intros base; cbn [fold_left]; [lia|].
    rewrite IHr. rewrite (IH x base). lia.
Qed.
