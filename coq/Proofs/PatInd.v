(* PatInd.v — nested induction principle for `pat` (Coq's generated principle gives
   no hypothesis for the patterns inside the lists). *)
From ASModel Require Import Base Tokens Report Ast.

Section PatInd.
  Variable P : pat -> Prop.
  Hypothesis HSimple : forall id e, P (PSimple id e).
  Hypothesis HString : forall id l s v, P (PString id l s v).
  Hypothesis HCmp : forall id op s e, P (PCmp id op s e).
  Hypothesis HRange : forall id e parts, P (PRange id e parts).
  Hypothesis HRegex : forall id p s, P (PRegex id p s).
  Hypothesis HLike : forall id e, P (PLike id e).
  Hypothesis HWild : forall id, P (PWild id).
  Hypothesis HClosure : forall id c, P (PClosure id c).
  Hypothesis HStruct : forall id path rest fields,
      Forall (fun fp => P (snd fp)) fields -> P (PStruct id path rest fields).
  Hypothesis HEnum : forall id path elems,
      Forall (fun el => P (snd el)) elems -> P (PEnum id path elems).
  Hypothesis HTuple : forall id sp elems,
      Forall (fun el => P (snd el)) elems -> P (PTuple id sp elems).
  Hypothesis HSlice : forall id sp elems, Forall P elems -> P (PSlice id sp elems).
  Hypothesis HSet : forall id sp rest elems, Forall P elems -> P (PSet id sp rest elems).
  Hypothesis HMap : forall id sp rest entries,
      Forall (fun kv => P (snd kv)) entries -> P (PMap id sp rest entries).

  Fixpoint pat_ind' (p : pat) : P p :=
    match p with
    | PSimple id e => HSimple id e
    | PString id l s v => HString id l s v
    | PCmp id op s e => HCmp id op s e
    | PRange id e parts => HRange id e parts
    | PRegex id x s => HRegex id x s
    | PLike id e => HLike id e
    | PWild id => HWild id
    | PClosure id c => HClosure id c
    | PStruct id path rest fields =>
        HStruct id path rest fields
          ((fix go (l : list (fop * pat)) : Forall (fun fp => P (snd fp)) l :=
              match l with
              | [] => Forall_nil _
              | x :: r => Forall_cons x (pat_ind' (snd x)) (go r)
              end) fields)
    | PEnum id path elems =>
        HEnum id path elems
          ((fix go (l : list (option fop * pat)) : Forall (fun el => P (snd el)) l :=
              match l with
              | [] => Forall_nil _
              | x :: r => Forall_cons x (pat_ind' (snd x)) (go r)
              end) elems)
    | PTuple id sp elems =>
        HTuple id sp elems
          ((fix go (l : list (option fop * pat)) : Forall (fun el => P (snd el)) l :=
              match l with
              | [] => Forall_nil _
              | x :: r => Forall_cons x (pat_ind' (snd x)) (go r)
              end) elems)
    | PSlice id sp elems =>
        HSlice id sp elems
          ((fix go (l : list pat) : Forall P l :=
              match l with
              | [] => Forall_nil _
              | x :: r => Forall_cons x (pat_ind' x) (go r)
              end) elems)
    | PSet id sp rest elems =>
        HSet id sp rest elems
          ((fix go (l : list pat) : Forall P l :=
              match l with
              | [] => Forall_nil _
              | x :: r => Forall_cons x (pat_ind' x) (go r)
              end) elems)
    | PMap id sp rest entries =>
        HMap id sp rest entries
          ((fix go (l : list (uexpr * pat)) : Forall (fun kv => P (snd kv)) l :=
              match l with
              | [] => Forall_nil _
              | x :: r => Forall_cons x (pat_ind' (snd x)) (go r)
              end) entries)
    end.
End PatInd.

(* the direct sub-patterns of a pattern, in written order *)
Definition children (p : pat) : list pat :=
  match p with
  | PStruct _ _ _ fields => map snd fields
  | PEnum _ _ elems | PTuple _ _ elems => map snd elems
  | PSlice _ _ elems | PSet _ _ _ elems => elems
  | PMap _ _ _ entries => map snd entries
  | _ => []
  end.

(* the children that get a node of their own: `..` inside a slice does not *)
Definition node_children (p : pat) : list pat :=
  match p with
  | PSlice _ _ elems => filter (fun el => negb (is_rest_range el)) elems
  | _ => children p
  end.

(* ids of all nodes of the tree, children before parents (post-order), without
   slice rest markers *)
Fixpoint node_ids (p : pat) : list N :=
  match p with
  | PStruct id _ _ fields => flat_map (fun fp => node_ids (snd fp)) fields ++ [id]
  | PEnum id _ elems | PTuple id _ elems => flat_map (fun el => node_ids (snd el)) elems ++ [id]
  | PSlice id _ elems => flat_map (fun el => if is_rest_range el then [] else node_ids el) elems ++ [id]
  | PSet id _ _ elems => flat_map node_ids elems ++ [id]
  | PMap id _ _ entries => flat_map (fun kv => node_ids (snd kv)) entries ++ [id]
  | _ => [pat_id p]
  end.

Lemma flat_map_ext_Forall {A B} (f g : A -> list B) (l : list A) :
  Forall (fun x => f x = g x) l -> flat_map f l = flat_map g l.
Proof. intros H; induction H as [|x l Hx H IH]; cbn; [reflexivity|rewrite Hx, IH; reflexivity]. Qed.

Lemma Forall_impl' {A} (P Q : A -> Prop) l : (forall x, P x -> Q x) -> Forall P l -> Forall Q l.
Proof. intros H F; induction F; constructor; auto. Qed.
