(* BlameP.v — the spans carried by generated code are the written sub-pattern's own, in every
   position and at every depth (C20). *)
From ASModel Require Import Base Tokens Report Ast IR Expand Parser FrontEnd Blame.
From ASProofs Require Import PatInd ParserP.

(* A. the statement generated for a pattern carries that pattern's own spans, whatever value
      expression it is generated for (= wherever the pattern stands) *)
Lemma own_spans_of_expansion j p e :
  stmt_panics (expand j p e) = false ->
  match p with
  | PWild _ | PTuple _ _ _ | PSlice _ _ _ | PSet _ _ _ _ | PMap _ _ _ _ | PStruct _ None _ _ => True
  | _ => own_spans (expand j p e) = pat_own_spans j p
  end.
Proof.
  destruct p as [id x|id lit lsp v|id op osp x|id x parts|id pt sp|id x|id|id c|id path rest fields|id path elems| | | |];
    intros Hp; try exact I; try reflexivity.
  - destruct path as [path|]; [|exact I]. cbn [expand] in *.
    destruct (existsb _ _); [discriminate|]. reflexivity.
  - cbn [expand]. destruct elems; reflexivity.
Qed.

Lemma own_spans_position_independent j p e1 e2 :
  stmt_panics (expand j p e1) = false -> stmt_panics (expand j p e2) = false ->
  match p with
  | PWild _ | PTuple _ _ _ | PSlice _ _ _ | PSet _ _ _ _ | PMap _ _ _ _ | PStruct _ None _ _ => True
  | _ => own_spans (expand j p e1) = own_spans (expand j p e2)
  end.
Proof.
  intros H1 H2. pose proof (own_spans_of_expansion j p e1 H1) as A. pose proof (own_spans_of_expansion j p e2 H2) as B.
  destruct p; try exact I; try (rewrite A, B; reflexivity).
  destruct path; [rewrite A, B; reflexivity|exact I].
Qed.

(* B. compositionality: the code generated for a pattern contains, for every sub-pattern at any
      depth (other than `_` and `..`), exactly the code the same generator produces for it at the
      root, applied to some value expression *)
Lemma in_sub_stmts_self s : In s (sub_stmts s).
Proof. destruct s; left; reflexivity. Qed.

Definition contains (outer : stmt) (inner : stmt) : Prop := In inner (sub_stmts outer).

Lemma contains_body_variant sp e path b body pu s x : In s body -> contains s x -> contains (SVariant sp e path b body pu) x.
Proof. intros Hs Hx. right. apply in_flat_map. exists s. split; assumption. Qed.
Lemma contains_body_struct sp e path f r body pu s x : In s body -> contains s x -> contains (SStruct sp e path f r body pu) x.
Proof. intros Hs Hx. right. apply in_flat_map. exists s. split; assumption. Qed.
Lemma contains_body_seq body s x : In s body -> contains s x -> contains (SSeq body) x.
Proof. intros Hs Hx. right. apply in_flat_map. exists s. split; assumption. Qed.
Lemma contains_body_tuple e b body s x : In s body -> contains s x -> contains (STuple e b body) x.
Proof. intros Hs Hx. right. apply in_flat_map. exists s. split; assumption. Qed.
Lemma contains_body_slice e parts body pu s x : In s body -> contains s x -> contains (SSlice e parts body pu) x.
Proof. intros Hs Hx. right. apply in_flat_map. exists s. split; assumption. Qed.
Lemma contains_body_set e preds r n s x : In s preds -> contains s x -> contains (SSet e preds r n) x.
Proof. intros Hs Hx. right. apply in_flat_map. exists s. split; assumption. Qed.
Lemma contains_body_mapget sp e k body m x : contains body x -> contains (SMapGet sp e k body m) x.
Proof. intros Hx. right. exact Hx. Qed.

Lemma with_tail_is_expansion j o base noops q :
  tail_ok o = true -> exists e', with_tail o base noops (expand j q) = expand j q e'.
Proof.
  unfold tail_ok, with_tail. intros H. destruct (tail_operations o); try discriminate.
  - eexists; reflexivity.
  - rewrite H. eexists; reflexivity.
Qed.

Lemma in_mapi_from_intro {A B} (f : nat -> A -> B) l : forall n x, In x l -> exists i, In (f i x) (mapi_from f n l).
Proof.
  induction l as [|y l IH]; intros n x H; [destruct H|].
  destruct H as [<-|H].
  - exists n. left. reflexivity.
  - destruct (IH (S n) x H) as (i & Hi). exists i. right. exact Hi.
Qed.

Definition generates (q : pat) : Prop := is_wild q = false /\ is_rest_range q = false.

Theorem sub_pattern_code j : forall p, pat_ok p = true -> forall q, In q (sub_pats p) -> generates q ->
  forall e, exists e', contains (expand j p e) (expand j q e').
Proof.
  induction p using pat_ind'; intros Hok q Hq Hg ve; cbn [sub_pats] in Hq;
    try (destruct Hq as [<-|[]]; exists ve; apply in_sub_stmts_self).
  - (* struct *)
    destruct Hq as [<-|Hq]; [exists ve; apply in_sub_stmts_self|].
    apply in_flat_map in Hq as ([ops fpat] & Hin & Hq). cbn [snd] in Hq.
    cbn [pat_ok] in Hok. rewrite forallb_forall in Hok. pose proof (Hok _ Hin) as Hf. cbn in Hf.
    apply andb_true_iff in Hf as [Hfop Hfp].
    rewrite Forall_forall in H. pose proof (H _ Hin Hfp q Hq Hg) as IHq. cbn [snd] in IHq.
    pose proof Hfop as Hr. unfold fop_ok in Hr. apply andb_true_iff in Hr as [Hr _].
    destruct (root_field_name ops) as [fname|] eqn:Hroot; [|discriminate].
    destruct path as [path|]; cbn [expand].
    + assert (Hroots : existsb (fun r : option field_name => match r with None => true | Some f => negb (field_name_index_ok f) end)
                         (map (fun fp : fop * pat => root_field_name (fst fp)) fields) = false).
      { apply existsb_false_forall. intros r Hrr. apply in_map_iff in Hrr as (fp & <- & Hin').
        specialize (Hok fp Hin'). apply andb_true_iff in Hok as [Hf' _]. unfold fop_ok in Hf'.
        apply andb_true_iff in Hf' as [Hf' _]. destruct (root_field_name (fst fp)); [|discriminate]. rewrite Hf'. reflexivity. }
      rewrite Hroots.
      destruct (with_tail_is_expansion j ops (VFieldBind fname) (VFieldBind fname) fpat (fop_ok_tail _ Hfop)) as (e1 & He1).
      destruct (IHq e1) as (e' & He'). exists e'.
      eapply contains_body_struct; [|exact He'].
      apply in_map_iff. exists (ops, fpat). split; [|exact Hin]. cbn. rewrite Hroot. exact He1.
    + destruct (with_tail_is_expansion j ops (VField ve fname) (VRef (VField ve fname)) fpat (fop_ok_tail _ Hfop)) as (e1 & He1).
      destruct (IHq e1) as (e' & He'). exists e'.
      eapply contains_body_seq; [|exact He'].
      apply in_map_iff. exists (ops, fpat). split; [|exact Hin]. cbn. rewrite Hroot, Hr. exact He1.
  - (* enum *)
    destruct Hq as [<-|Hq]; [exists ve; apply in_sub_stmts_self|].
    apply in_flat_map in Hq as ([ops ep] & Hin & Hq). cbn [snd] in Hq.
    cbn [pat_ok] in Hok. rewrite forallb_forall in Hok. pose proof (Hok _ Hin) as Hf. cbn in Hf.
    apply andb_true_iff in Hf as [Ht Hp].
    rewrite Forall_forall in H. pose proof (H _ Hin Hp q Hq Hg) as IHq. cbn [snd] in IHq.
    cbn [expand]. destruct elems as [|el0 els]; [destruct Hin|].
    assert (Hnw : is_wild ep = false).
    { destruct ep; try reflexivity. cbn in Hq. destruct Hq as [<-|[]]. destruct Hg as [Hg _]. discriminate. }
    set (f := fun (i : nat) (el : option fop * pat) =>
                let '(ops0, ep0) := el in
                if is_wild ep0 then []
                else match ops0 with
                     | None => [expand j ep0 (VBind (NElem i))]
                     | Some o => [with_tail o (VBind (NElem i)) (VBind (NElem i)) (expand j ep0)]
                     end).
    destruct (in_mapi_from_intro f (el0 :: els) 0 (ops, ep) Hin) as (i & Hi).
    assert (He1 : exists e1, In (expand j ep e1) (f i (ops, ep))).
    { unfold f. rewrite Hnw. destruct ops as [o|].
      - destruct (with_tail_is_expansion j o (VBind (NElem i)) (VBind (NElem i)) ep Ht) as (e1 & He1). exists e1. left. exact He1.
      - eexists. left. reflexivity. }
    destruct He1 as (e1 & He1). destruct (IHq e1) as (e' & He'). exists e'.
    eapply contains_body_variant; [|exact He'].
    apply in_flat_map. exists (f i (ops, ep)). split; [exact Hi|exact He1].
  - (* tuple *)
    destruct Hq as [<-|Hq]; [exists ve; apply in_sub_stmts_self|].
    apply in_flat_map in Hq as ([ops ep] & Hin & Hq). cbn [snd] in Hq.
    cbn [pat_ok] in Hok. rewrite forallb_forall in Hok. pose proof (Hok _ Hin) as Hf. cbn in Hf.
    apply andb_true_iff in Hf as [Ht Hp].
    rewrite Forall_forall in H. pose proof (H _ Hin Hp q Hq Hg) as IHq. cbn [snd] in IHq.
    cbn [expand].
    assert (Hnw : is_wild ep = false).
    { destruct ep; try reflexivity. cbn in Hq. destruct Hq as [<-|[]]. destruct Hg as [Hg _]. discriminate. }
    set (f := fun (i : nat) (el : option fop * pat) =>
                let '(ops0, ep0) := el in
                if is_wild ep0 then []
                else match ops0 with
                     | None => [expand j ep0 (VBind (NTupleElem i))]
                     | Some o => [with_tail o (VBind (NTupleElem i)) (VBind (NTupleElem i)) (expand j ep0)]
                     end).
    destruct (in_mapi_from_intro f elems 0 (ops, ep) Hin) as (i & Hi).
    assert (He1 : exists e1, In (expand j ep e1) (f i (ops, ep))).
    { unfold f. rewrite Hnw. destruct ops as [o|].
      - destruct (with_tail_is_expansion j o (VBind (NTupleElem i)) (VBind (NTupleElem i)) ep Ht) as (e1 & He1). exists e1. left. exact He1.
      - eexists. left. reflexivity. }
    destruct He1 as (e1 & He1). destruct (IHq e1) as (e' & He'). exists e'.
    eapply contains_body_tuple; [|exact He'].
    apply in_flat_map. exists (f i (ops, ep)). split; [exact Hi|exact He1].
  - (* slice *)
    destruct Hq as [<-|Hq]; [exists ve; apply in_sub_stmts_self|].
    apply in_flat_map in Hq as (el & Hin & Hq).
    cbn [pat_ok] in Hok. rewrite forallb_forall in Hok. pose proof (Hok _ Hin) as Hp.
    rewrite Forall_forall in H. pose proof (H _ Hin Hp q Hq Hg) as IHq.
    cbn [expand].
    assert (Hnw : is_rest_range el || is_wild el = false).
    { destruct Hg as [Hg1 Hg2]. destruct el; try reflexivity; cbn in Hq.
      - destruct Hq as [<-|[]]. rewrite Hg2. reflexivity.
      - destruct Hq as [<-|[]]. discriminate. }
    set (f := fun (i : nat) (x : pat) => if is_rest_range x || is_wild x then [] else [expand j x (VBind (NElem i))]).
    destruct (in_mapi_from_intro f elems 0 el Hin) as (i & Hi).
    destruct (IHq (VBind (NElem i))) as (e' & He'). exists e'.
    eapply contains_body_slice; [|exact He'].
    apply in_flat_map. exists (f i el). split; [exact Hi|]. unfold f. rewrite Hnw. left. reflexivity.
  - (* set *)
    destruct Hq as [<-|Hq]; [exists ve; apply in_sub_stmts_self|].
    apply in_flat_map in Hq as (el & Hin & Hq).
    cbn [pat_ok] in Hok. rewrite forallb_forall in Hok. pose proof (Hok _ Hin) as Hp.
    rewrite Forall_forall in H. destruct (H _ Hin Hp q Hq Hg (VBind NSetElem)) as (e' & He'). exists e'.
    cbn [expand]. eapply contains_body_set; [|exact He'].
    apply in_map_iff. exists el. split; [reflexivity|exact Hin].
  - (* map *)
    destruct Hq as [<-|Hq]; [exists ve; apply in_sub_stmts_self|].
    apply in_flat_map in Hq as ([k vp] & Hin & Hq). cbn [snd] in Hq.
    cbn [pat_ok] in Hok. rewrite forallb_forall in Hok. pose proof (Hok _ Hin) as Hp. cbn in Hp.
    rewrite Forall_forall in H. destruct (H _ Hin Hp q Hq Hg (VBind NMapValue)) as (e' & He'). exists e'.
    cbn [expand]. eapply contains_body_seq.
    + apply in_or_app. right. apply in_map_iff. exists (k, vp). split; [reflexivity|exact Hin].
    + cbn. apply contains_body_mapget. exact He'.
Qed.

(* D. field paths: applying a written operation chain to a value expression adds exactly the spans
      written in the chain (the `.`/`[`/`*` position for the macro's tokens, and each identifier's own
      span), so an unknown field, method or a bad index is reported on the path the user wrote *)
Lemma iter_deref_spans n sp e : incl (vexpr_spans (Nat.iter n (VDeref sp) e)) (sp :: vexpr_spans e).
Proof.
  induction n as [|n IH]; cbn [Nat.iter].
  - intros x Hx. right. exact Hx.
  - cbn [vexpr_spans]. intros x [<-|Hx]; [left; reflexivity|apply IH; exact Hx].
Qed.

Section FopInd.
  Variable P : fop -> Prop.
  Hypothesis HDeref : forall c sp, P (ODeref c sp).
  Hypothesis HMethod : forall n nsp sp args, P (OMethod n nsp sp args).
  Hypothesis HAwait : forall sp, P (OAwait sp).
  Hypothesis HNamed : forall n nsp sp, P (ONamed n nsp sp).
  Hypothesis HUnnamed : forall i sp, P (OUnnamed i sp).
  Hypothesis HIndex : forall e sp, P (OIndex e sp).
  Hypothesis HChained : forall sp ops, Forall P ops -> P (OChained sp ops).
  Fixpoint fop_ind' (o : fop) : P o :=
    match o with
    | ODeref c sp => HDeref c sp
    | OMethod n nsp sp args => HMethod n nsp sp args
    | OAwait sp => HAwait sp
    | ONamed n nsp sp => HNamed n nsp sp
    | OUnnamed i sp => HUnnamed i sp
    | OIndex e sp => HIndex e sp
    | OChained sp ops =>
        HChained sp ops ((fix go (l : list fop) : Forall P l :=
                            match l with [] => Forall_nil _ | x :: r => Forall_cons x (fop_ind' x) (go r) end) ops)
    end.
End FopInd.

Theorem applied_path_spans : forall o base, incl (vexpr_spans (apply_ops base o)) (vexpr_spans base ++ fop_spans o).
Proof.
  induction o using fop_ind'; intros base; cbn [apply_ops fop_spans vexpr_spans].
  - intros x Hx. apply (iter_deref_spans (S c) sp base) in Hx. destruct Hx as [<-|Hx].
    + apply in_or_app. right. left. reflexivity.
    + apply in_or_app. left. exact Hx.
  - intros x [<-|[<-|Hx]].
    + apply in_or_app. right. left. reflexivity.
    + apply in_or_app. right. right. left. reflexivity.
    + apply in_app_or in Hx as [Hx|Hx]; apply in_or_app; [left; exact Hx|right; right; right; exact Hx].
  - intros x [<-|Hx]; apply in_or_app; [right; left; reflexivity|left; exact Hx].
  - intros x [<-|[<-|Hx]]; apply in_or_app; [right; left; reflexivity|right; right; left; reflexivity|left; exact Hx].
  - intros x [<-|Hx]; apply in_or_app; [right; left; reflexivity|left; exact Hx].
  - intros x [<-|Hx]; [apply in_or_app; right; left; reflexivity|].
    apply in_app_or in Hx as [Hx|Hx]; apply in_or_app; [left; exact Hx|right; right; exact Hx].
  - revert base. induction H as [|o ops Ho Hops IH]; intros base; cbn [fold_left flat_map].
    + rewrite app_nil_r. apply incl_refl.
    + intros x Hx. apply IH in Hx. apply in_app_or in Hx as [Hx|Hx].
      * apply Ho in Hx. apply in_app_or in Hx as [Hx|Hx]; apply in_or_app; [left; exact Hx|right; apply in_or_app; left; exact Hx].
      * apply in_or_app. right. apply in_or_app. right. exact Hx.
Qed.
