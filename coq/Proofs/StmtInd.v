(* StmtInd.v — nested induction principle for `stmt`. *)
From ASModel Require Import Base Tokens Report Ast IR.

Section StmtInd.
  Variable P : stmt -> Prop.
  Hypothesis HNop : P SNop.
  Hypothesis HPanic : forall s, P (SPanic s).
  Hypothesis HSimple : forall sp e pt p, P (SSimple sp e pt p).
  Hypothesis HString : forall sp e l lsp p, P (SString sp e l lsp p).
  Hypothesis HCmp : forall sp op e x p, P (SCmp sp op e x p).
  Hypothesis HUnit : forall sp e path p, P (SUnit sp e path p).
  Hypothesis HVariant : forall sp e path bs body p, Forall P body -> P (SVariant sp e path bs body p).
  Hypothesis HStruct : forall sp e path fs rest body p, Forall P body -> P (SStruct sp e path fs rest body p).
  Hypothesis HSeq : forall body, Forall P body -> P (SSeq body).
  Hypothesis HTuple : forall e bs body, Forall P body -> P (STuple e bs body).
  Hypothesis HRange : forall sp e r parts p, P (SRange sp e r parts p).
  Hypothesis HSlice : forall e parts body p, Forall P body -> P (SSlice e parts body p).
  Hypothesis HRegex : forall sp e pat p, P (SRegex sp e pat p).
  Hypothesis HLike : forall sp e x p, P (SLike sp e x p).
  Hypothesis HClosure : forall sp e c p, P (SClosure sp e c p).
  Hypothesis HMapLen : forall sp e n p, P (SMapLen sp e n p).
  Hypothesis HMapGet : forall sp e k body missing, P body -> P (SMapGet sp e k body missing).
  Hypothesis HSet : forall e preds rest node, Forall P preds -> P (SSet e preds rest node).

  Fixpoint stmt_ind' (s : stmt) : P s :=
    let go := fix go (l : list stmt) : Forall P l :=
                match l with
                | [] => Forall_nil _
                | x :: r => Forall_cons x (stmt_ind' x) (go r)
                end in
    match s with
    | SNop => HNop
    | SPanic x => HPanic x
    | SSimple sp e pt p => HSimple sp e pt p
    | SString sp e l lsp p => HString sp e l lsp p
    | SCmp sp op e x p => HCmp sp op e x p
    | SUnit sp e path p => HUnit sp e path p
    | SVariant sp e path bs body p => HVariant sp e path bs body p (go body)
    | SStruct sp e path fs rest body p => HStruct sp e path fs rest body p (go body)
    | SSeq body => HSeq body (go body)
    | STuple e bs body => HTuple e bs body (go body)
    | SRange sp e r parts p => HRange sp e r parts p
    | SSlice e parts body p => HSlice e parts body p (go body)
    | SRegex sp e pat p => HRegex sp e pat p
    | SLike sp e x p => HLike sp e x p
    | SClosure sp e c p => HClosure sp e c p
    | SMapLen sp e n p => HMapLen sp e n p
    | SMapGet sp e k body missing => HMapGet sp e k body missing (stmt_ind' body)
    | SSet e preds rest node => HSet e preds rest node (go preds)
    end.
End StmtInd.
