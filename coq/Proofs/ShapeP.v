(* ShapeP.v — the native patterns of the expansion list exactly what was written (C12). *)
From ASModel Require Import Base Tokens Report Ast IR Expand Parser FrontEnd Shape Print.
From ASProofs Require Import PatInd ParserP.

Lemma smem_In s l : smem s l = true <-> In s l.
Proof.
  unfold smem. rewrite existsb_exists. split.
  - intros (x & Hin & Hx). apply String.eqb_eq in Hx. subst. exact Hin.
  - intros H. exists s. split; [exact H|apply String.eqb_refl].
Qed.

(* field_name equality as the macro sees it (syn::Ident equality ignores the span) is equality of the spelling *)
Lemma field_name_eqb_str a b : field_name_eqb a b = true -> field_name_str a = field_name_str b.
Proof.
  destruct a, b; cbn; try discriminate.
  - intros H. apply String.eqb_eq in H. subst. reflexivity.
  - intros H. apply N.eqb_eq in H. subst. reflexivity.
Qed.

(* unique_field_names keeps one occurrence of every name and invents none *)
Lemma dedup_fields_sub seen l x : In x (dedup_fields seen l) -> In x l.
Proof.
  revert seen. induction l as [|f r IH]; cbn; intros seen H; [exact H|].
  destruct (existsb (field_name_eqb f) seen); [right; eapply IH; exact H|].
  destruct H as [<-|H]; [left; reflexivity|right; eapply IH; exact H].
Qed.

Lemma dedup_fields_covers l : forall seen x, In x l ->
  (exists y, In y seen /\ field_name_str y = field_name_str x) \/
  (exists y, In y (dedup_fields seen l) /\ field_name_str y = field_name_str x).
Proof.
  induction l as [|f r IH]; cbn; intros seen x H; [destruct H|].
  destruct (existsb (field_name_eqb f) seen) eqn:E.
  - destruct H as [<-|H]; [|apply IH; exact H].
    left. apply existsb_exists in E as (y & Hy & Hfy). exists y. split; [exact Hy|].
    symmetry. apply field_name_eqb_str. exact Hfy.
  - destruct H as [<-|H].
    + right. exists f. split; [left; reflexivity|reflexivity].
    + destruct (IH (f :: seen) x H) as [(y & [Hfy|Hy] & Hs)|(y & Hy & Hs)].
      * right. exists y. split; [left; exact Hfy|exact Hs].
      * left. exists y. split; assumption.
      * right. exists y. split; [right; exact Hy|exact Hs].
Qed.

(* the names of the lowered struct pattern are, as a set, the written root names *)
Lemma lowered_names_are_written j id path rest fields e names r :
  lowered_struct (expand j (PStruct id (Some path) rest fields) e) = Some (names, r) ->
  r = rest /\ (forall n, In n names <-> In n (written_roots fields)).
Proof.
  cbn [expand].
  destruct (existsb _ _) eqn:Hpanic; [discriminate|].
  cbn [lowered_struct]. intros H. inversion H; subst; clear H. split; [reflexivity|].
  set (roots := flat_map (fun r0 : option field_name => match r0 with Some f => [f] | None => [] end)
                         (map (fun fp : fop * pat => root_field_name (fst fp)) fields)).
  assert (Hw : written_roots fields = map field_name_str roots).
  { unfold written_roots, roots. clear. induction fields as [|fp l IH]; cbn; [reflexivity|].
    destruct (root_field_name (fst fp)); cbn; rewrite IH; reflexivity. }
  rewrite Hw. intros n. rewrite !in_map_iff. split.
  - intros (x & <- & Hx). exists x. split; [reflexivity|]. eapply dedup_fields_sub. exact Hx.
  - intros (x & <- & Hx). destruct (dedup_fields_covers roots [] x Hx) as [(y & [] & _)|(y & Hy & Hs)].
    exists y. split; assumption.
Qed.

(* the struct rule only looks at the set of names *)
Lemma struct_pat_ok_ext decl n1 n2 rest :
  (forall n, In n n1 <-> In n n2) -> struct_pat_ok decl n1 rest = struct_pat_ok decl n2 rest.
Proof.
  intros H. unfold struct_pat_ok. f_equal.
  - apply eq_true_iff_eq. rewrite !forallb_forall. split; intros Hx x Hin; apply Hx; apply H; exact Hin.
  - f_equal. apply eq_true_iff_eq. rewrite !forallb_forall.
    split; intros Hx x Hin; specialize (Hx x Hin); apply smem_In; apply smem_In in Hx; apply H; exact Hx.
Qed.

(* C12, struct half: rustc accepts the generated destructuring pattern exactly when the WRITTEN pattern
   names only declared fields and, unless `..` was written, all of them *)
Theorem struct_pattern_checked_as_written j id path rest fields e names r decl :
  lowered_struct (expand j (PStruct id (Some path) rest fields) e) = Some (names, r) ->
  struct_pat_ok decl names r = struct_pat_ok decl (written_roots fields) rest.
Proof.
  intros H. destruct (lowered_names_are_written _ _ _ _ _ _ _ _ H) as [-> Hn]. apply struct_pat_ok_ext. exact Hn.
Qed.

Theorem omitted_field_rejected decl names d :
  In d decl -> ~ In d names -> struct_pat_ok decl names false = false.
Proof.
  intros Hd Hn. unfold struct_pat_ok. cbn [orb]. apply andb_false_iff. right.
  apply not_true_is_false. intros H. rewrite forallb_forall in H. apply Hn. apply smem_In. apply H. exact Hd.
Qed.

Theorem unknown_field_rejected decl names rest n :
  In n names -> ~ In n decl -> struct_pat_ok decl names rest = false.
Proof.
  intros Hn Hd. unfold struct_pat_ok. apply andb_false_iff. left.
  apply not_true_is_false. intros H. rewrite forallb_forall in H. apply Hd. apply smem_In. apply H. exact Hn.
Qed.

Theorem accepted_without_rest_lists_everything decl names :
  struct_pat_ok decl names false = true -> (forall d, In d decl -> In d names) /\ (forall n, In n names -> In n decl).
Proof.
  unfold struct_pat_ok. cbn [orb]. intros H. apply andb_true_iff in H as [H1 H2].
  rewrite forallb_forall in H1, H2. split; intros x Hx; apply smem_In; auto.
Qed.

(* the expansion of a named struct pattern that does not hit a panic site IS a destructuring match *)
Lemma named_struct_lowers j id path rest fields e :
  stmt_panics (expand j (PStruct id (Some path) rest fields) e) = false ->
  exists names, lowered_struct (expand j (PStruct id (Some path) rest fields) e) = Some (names, rest).
Proof.
  cbn [expand]. destruct (existsb _ _); [discriminate|]. intros _. eexists. reflexivity.
Qed.

(* C12, arity half: a tuple / variant pattern lowers to exactly one positional sub-pattern per written
   element (`_` for wildcards), and never to a `..` *)
Lemma mapi_from_length {A B} (f : nat -> A -> B) l : forall n, List.length (mapi_from f n l) = List.length l.
Proof. induction l as [|x r IH]; intros n; cbn; [reflexivity|]. rewrite IH. reflexivity. Qed.

Theorem tuple_pattern_arity j id sp elems e :
  lowered_arity (expand j (PTuple id sp elems) e) = Some (List.length elems).
Proof. cbn [expand lowered_arity]. unfold mapi. rewrite mapi_from_length. reflexivity. Qed.

(* the native tuple pattern the expansion prints (every binding followed by a comma) is, for Rust, a tuple pattern with
   exactly one sub-pattern per written element - also for ONE element, where the separator-only form `( x )` is not *)
Lemma tuple_items_term prefix bs :
  tuple_items (term_by (comma SCall) (map (pp_binder prefix) bs)) = Some (List.length bs, true).
Proof.
  induction bs as [|b bs IH]; [reflexivity|].
  cbn [map term_by flat_map] in *. unfold term_by in IH.
  destruct b as [i|]; cbn [pp_binder ident comma app tuple_items is_comma]; rewrite IH;
    destruct (flat_map _ (map (pp_binder prefix) bs)); reflexivity.
Qed.
Theorem printed_tuple_pattern_arity prefix bs :
  rust_tuple_arity (term_by (comma SCall) (map (pp_binder prefix) bs)) = Some (List.length bs).
Proof. unfold rust_tuple_arity. rewrite tuple_items_term. destruct (List.length bs) as [|[|n]]; reflexivity. Qed.
(* ... and none of its tokens is a `.`: a written `..` element of a tuple, tuple-struct or tuple-variant pattern never becomes Rust's
   REST pattern in the native pattern (as it does in a slice pattern, Print.pp_part SPRest), so rustc checks the arity exactly *)
Definition is_dot (t : tok) : bool := match t with TPunct c _ _ => Ascii.eqb c "." | _ => false end.
Theorem printed_tuple_pattern_has_no_rest prefix bs :
  forallb (fun t => negb (is_dot t)) (term_by (comma SCall) (map (pp_binder prefix) bs)) = true.
Proof.
  induction bs as [|b bs IH]; [reflexivity|].
  cbn [map term_by flat_map] in *. unfold term_by in IH. rewrite forallb_app, IH.
  destruct b as [i|]; reflexivity.
Qed.
Theorem printed_variant_pattern_has_no_rest sp prefix bs :
  forallb (fun t => negb (is_dot t)) (sep_by (comma sp) (map (pp_binder prefix) bs)) = true.
Proof.
  induction bs as [|b bs IH]; [reflexivity|].
  cbn [map sep_by] in *. destruct (map (pp_binder prefix) bs) as [|y r] eqn:E.
  - destruct b; reflexivity.
  - rewrite !forallb_app, IH. destruct b; reflexivity.
Qed.
(* the contrast: a slice pattern's `..` IS printed as the rest pattern *)
Example slice_rest_is_printed_as_rest : existsb is_dot (pp_part SPRest) = true.
Proof. reflexivity. Qed.

(* why the separator-only form was wrong: one binding between parentheses is a parenthesised pattern *)
Theorem separator_only_one_tuple_is_no_tuple_pattern prefix b :
  rust_tuple_arity (sep_by (comma SCall) (map (pp_binder prefix) [b])) = None.
Proof. destruct b; reflexivity. Qed.

Theorem variant_pattern_arity j id path elems e :
  elems <> [] -> lowered_arity (expand j (PEnum id path elems) e) = Some (List.length elems).
Proof.
  intros Hne. cbn [expand]. destruct elems as [|el els]; [contradiction|].
  cbn [lowered_arity]. unfold mapi. rewrite mapi_from_length. reflexivity.
Qed.

(* a wildcard struct pattern that the parser accepts has `..` *)
Theorem wildcard_struct_has_rest : forall p, tree_ok p = true ->
  forall id rest fields, p = PStruct id None rest fields -> rest = true.
Proof.
  intros p H id rest fields ->. cbn [tree_ok] in H. apply andb_true_iff in H as [H _]. exact H.
Qed.

Lemma accepted_wildcard_struct_has_rest regex join_ok parse_expr parse_path parse_closure fuel start ts v p :
  parse_top_from regex join_ok parse_expr parse_path parse_closure fuel start ts = TOk v p ->
  tree_ok p = true /\ forall id rest fields, p = PStruct id None rest fields -> rest = true.
Proof.
  intros H. pose proof (parse_top_ok _ _ _ _ _ _ _ _ _ _ H) as Hok. split; [exact Hok|]. exact (wildcard_struct_has_rest p Hok).
Qed.
