(* Examples.v — concrete patterns and values used by the non-vacuity Examples and the
   refutation witnesses in Props/*.v. *)
From ASModel Require Import Base Tokens Report Ast IR Expand SetMatch Values Nodes Sem Spec.
From ASProofs Require Import SemP CorollariesP.
Local Open Scope string_scope.

Definition ulit (s : string) : uexpr := {| u_text := s; u_strlit := false; u_span := SCall; u_toks := [TLit s SCall] |}.
Definition ustr (s : string) : uexpr :=
  {| u_text := s; u_strlit := true; u_span := SCall; u_toks := [TLit (String """" (s ++ String """" EmptyString)) SCall] |}.
Definition uid (s : string) : uexpr := {| u_text := s; u_strlit := false; u_span := SCall; u_toks := [TIdent s SCall] |}.
Definition pth (s : string) : rpath :=
  {| p_text := s; p_span := SCall; p_first := None; p_last := None; p_toks := [TIdent s SCall] |}.
Definition fld (s : string) : fop := ONamed s SCall SCall.
Definition rest_elem (id : N) : pat := PRange id (ulit "..") (Some (None, SCall, false, None)).

Definition env0 (root : value) (caller : list (string * value)) : env :=
  {| e_root := root; e_bind := []; e_caller := caller; e_units := ["None"] |}.

Definition run (p : pat) (v : value) (caller : list (string * value)) : option (list entry) :=
  report_of (exec (expand true p (VRoot [])) (env0 v caller)).

(* S { a: Some([1, <= 5, ..]), m: #{ "k": #(2, 1) }, name: "x", .. }  — depth 4, mixing struct,
   variant, slice, comparison at equality, map and set *)
Definition P_deep : pat :=
  PStruct 0 (Some (pth "S")) true
    [(fld "a", PEnum 1 (pth "Some") [(None, PSlice 2 SCall [PSimple 3 (ulit "1"); PCmp 4 OpLe SCall (ulit "5"); rest_elem 5])]);
     (fld "m", PMap 6 SCall false [(ustr "k", PSet 7 SCall false [PSimple 8 (ulit "2"); PSimple 9 (ulit "1")])]);
     (fld "name", PString 10 """x""" SCall "x")].

Definition V_deep (second : Z) (name : string) : value :=
  VStructV "S" [("a", VVariantV "Some" [VVecV [VInt 1; VInt second; VInt 9]]);
                ("m", VMapV [(VStr "k", VVecV [VInt 1; VInt 2])]);
                ("name", VStr name); ("other", VBool true)].

(* the known finding of C01: an identifier written as a value is a binding *)
Definition P_ident : pat :=
  PStruct 0 (Some (pth "S")) true [(fld "age", PEnum 1 (pth "expected_age") [])].
Definition V_ident : value := VStructV "S" [("age", VInt 30)].
Definition C_ident : list (string * value) := [("expected_age", VInt 31)].
