(* Proofs about Model/Features.v and the regenerated gen/RepoFacts.v (property C16). *)
From ASModel Require Import Base Tokens Report Ast IR Expand Features.
From ASProofs Require Import PatInd.
From ASGen Require Import RepoFacts.
Local Open Scope string_scope.

(* ---- facts about the wiring found in /repo now (re-checked after every regeneration) ---- *)

(* the macro crate is compiled WITH the regex feature in both configurations a dependent crate
   can select: the dependency edge keeps the macro crate's own default features *)
Lemma repo_macro_regex_constant :
  macro_regex repo_wiring DefaultOff = true /\ macro_regex repo_wiring DefaultOn = true.
Proof. split; vm_compute; reflexivity. Qed.

(* hence whatever the front end does with its feature flag, it does the same in both *)
Lemma repo_same_front_end : forall (A : Type) (front_end : bool -> A),
  front_end (macro_regex repo_wiring DefaultOff) = front_end (macro_regex repo_wiring DefaultOn).
Proof. intros A f. destruct repo_macro_regex_constant as [-> ->]. reflexivity. Qed.

Lemma repo_runtime_regex :
  runtime_regex repo_wiring DefaultOn = true /\ runtime_regex repo_wiring DefaultOff = false.
Proof. split; vm_compute; reflexivity. Qed.

(* the only runtime items behind the feature are the Regex re-export and the module of string
   Like impls: nothing else of the runtime support disappears with the feature *)
Lemma repo_runtime_gates_exact :
  runtime_gates = [("assert-struct/src/lib.rs", "pub use regex::Regex;");
                   ("assert-struct/src/lib.rs", "mod like_impls {")].
Proof. reflexivity. Qed.

(* the counterfactual the check must notice: `default-features = false` on the edge would switch
   the macro's feature off together with the runtime's, and `=~ expr` would stop parsing *)
Lemma wiring_matters :
  let w := {| w_runtime := w_runtime repo_wiring; w_macros := w_macros repo_wiring;
              w_edge_default := false; w_edge_features := w_edge_features repo_wiring |} in
  macro_regex w DefaultOff = false /\ macro_regex w DefaultOn = true /\
  dispatch_eq (macro_regex w DefaultOff) (Some "~"%char) = DErr.
Proof. cbv zeta. repeat split; vm_compute; reflexivity. Qed.

(* ---- the `=` rule ------------------------------------------------------------------- *)

Lemma dispatch_eq_comparison r : dispatch_eq r (Some "="%char) = DComparison.
Proof. reflexivity. Qed.

Lemma dispatch_eq_like : dispatch_eq true (Some "~"%char) = DLike /\ dispatch_eq false (Some "~"%char) = DErr.
Proof. split; reflexivity. Qed.

Lemma dispatch_eq_feature_only_tilde r1 r2 s : s <> Some "~"%char -> dispatch_eq r1 s = dispatch_eq r2 s.
Proof.
  intros H. destruct s as [c|]; [|reflexivity]. unfold dispatch_eq.
  destruct (Ascii.eqb c "=") eqn:E1; [reflexivity|]. destruct (Ascii.eqb c "~") eqn:E2; [|reflexivity].
  apply Ascii.eqb_eq in E2. subst. contradiction.
Qed.

(* ---- runtime items referenced by expansions ------------------------------------------- *)

Definition ok_refs (l : list rt_item) : Prop := Forall (fun i => available false i = true) l.

Lemma ok_refs_app a b : ok_refs a -> ok_refs b -> ok_refs (a ++ b).
Proof. intros; apply Forall_app; split; assumption. Qed.

Lemma ok_refs_flat {A} (f : A -> list rt_item) l : Forall (fun x => ok_refs (f x)) l -> ok_refs (flat_map f l).
Proof. intros H; induction H; cbn; [constructor|apply ok_refs_app; assumption]. Qed.

Lemma existsb_false_Forall {A} (f : A -> bool) l : existsb f l = false -> Forall (fun x => f x = false) l.
Proof.
  induction l as [|x l IH]; cbn; intros H; [constructor|].
  apply Bool.orb_false_iff in H as [H1 H2]. constructor; auto.
Qed.

Lemma with_tail_refs j ops base noops fpat :
  (forall e, ok_refs (stmt_refs (expand j fpat e))) ->
  ok_refs (stmt_refs (with_tail ops base noops (expand j fpat))).
Proof.
  intros H. unfold with_tail. destruct (tail_operations ops) as [|t|]; cbn; try apply H; try constructor.
  destruct (ops_index_ok t); [apply H|constructor].
Qed.

Lemma mapi_from_flat_refs {A} (f : nat -> A -> list stmt) : forall (l : list A) i,
  Forall (fun x => forall k, ok_refs (flat_map stmt_refs (f k x))) l ->
  ok_refs (flat_map stmt_refs (flat_map (fun x => x) (mapi_from f i l))).
Proof.
  induction l as [|x l IH]; intros i H; cbn; [constructor|].
  inversion H as [|? ? Hx Hl]; subst. rewrite flat_map_app.
  apply ok_refs_app; [apply Hx|apply IH; exact Hl].
Qed.

Lemma Forall_mp {A} (P Q : A -> Prop) l : Forall (fun x => P x -> Q x) l -> Forall P l -> Forall Q l.
Proof. intros HPQ; induction HPQ; intros HP; inversion HP; subst; constructor; auto. Qed.

(* C16: a pattern without a regex literal expands to code that refers only to runtime items that
   exist without the feature — for every pattern, at every depth, whatever else it contains
   (Like patterns included: they refer to the Like trait, which is not gated) *)
Theorem regex_free_refs_available : forall j p,
  has_regex p = false -> forall e, ok_refs (stmt_refs (expand j p e)).
Proof.
  intros j p; induction p as
      [id x|id l s v|id op s x|id x parts|id x s|id x|id|id c
      |id path rest fields IH|id path elems IH|id sp elems IH|id sp elems IH|id sp rest elems IH|id sp rest entries IH]
      using pat_ind'; intros Hr e; cbn [expand stmt_refs]; try (repeat constructor); try discriminate.
  - (* struct *)
    cbn [has_regex] in Hr. apply existsb_false_Forall in Hr.
    pose proof (Forall_mp (fun fp => has_regex (snd fp) = false) _ _ IH Hr) as IH'. cbn beta in IH'. clear IH Hr.
    destruct path as [path|].
    + destruct (existsb _ _); [constructor|]. cbn [stmt_refs].
      rewrite flat_map_concat_map, map_map, <- flat_map_concat_map. apply ok_refs_flat.
      eapply Forall_impl; [|exact IH']. cbn. intros [ops fpat] Hx. cbn in *.
      destruct (root_field_name ops); [|constructor]. apply with_tail_refs. exact Hx.
    + cbn [stmt_refs]. rewrite flat_map_concat_map, map_map, <- flat_map_concat_map. apply ok_refs_flat.
      eapply Forall_impl; [|exact IH']. cbn. intros [ops fpat] Hx. cbn in *.
      destruct (root_field_name ops); [|constructor]. destruct (field_name_index_ok f); [|constructor].
      apply with_tail_refs. exact Hx.
  - (* enum *)
    cbn [has_regex] in Hr. apply existsb_false_Forall in Hr.
    pose proof (Forall_mp (fun el => has_regex (snd el) = false) _ _ IH Hr) as IH'. cbn beta in IH'. clear IH Hr.
    destruct elems as [|el elems]; [constructor|]. cbn [stmt_refs].
    unfold mapi. apply mapi_from_flat_refs. eapply Forall_impl; [|exact IH']. cbn. intros [ops ep] Hx k. cbn in *.
    destruct (is_wild ep); [constructor|]. destruct ops; cbn; rewrite app_nil_r; [apply with_tail_refs; exact Hx|apply Hx].
  - (* tuple *)
    cbn [has_regex] in Hr. apply existsb_false_Forall in Hr.
    pose proof (Forall_mp (fun el => has_regex (snd el) = false) _ _ IH Hr) as IH'. cbn beta in IH'. clear IH Hr.
    unfold mapi. apply mapi_from_flat_refs. eapply Forall_impl; [|exact IH']. cbn. intros [ops ep] Hx k. cbn in *.
    destruct (is_wild ep); [constructor|]. destruct ops; cbn; rewrite app_nil_r; [apply with_tail_refs; exact Hx|apply Hx].
  - (* slice *)
    cbn [has_regex] in Hr. apply existsb_false_Forall in Hr.
    pose proof (Forall_mp (fun el => has_regex el = false) _ _ IH Hr) as IH'. cbn beta in IH'. clear IH Hr.
    unfold mapi. apply mapi_from_flat_refs. eapply Forall_impl; [|exact IH']. cbn. intros el Hx k.
    destruct (is_rest_range el); cbn; [constructor|]. destruct (is_wild el); cbn; [constructor|]. rewrite app_nil_r. apply Hx.
  - (* set *)
    cbn [has_regex] in Hr. apply existsb_false_Forall in Hr.
    pose proof (Forall_mp (fun el => has_regex el = false) _ _ IH Hr) as IH'. cbn beta in IH'. clear IH Hr.
    rewrite flat_map_concat_map, map_map, <- flat_map_concat_map. apply ok_refs_flat.
    eapply Forall_impl; [|exact IH']. cbn. intros el Hx. apply Hx.
  - (* map *)
    cbn [has_regex] in Hr. apply existsb_false_Forall in Hr.
    pose proof (Forall_mp (fun kv => has_regex (snd kv) = false) _ _ IH Hr) as IH'. cbn beta in IH'. clear IH Hr.
    rewrite flat_map_app. apply ok_refs_app.
    + destruct rest; cbn; constructor.
    + rewrite flat_map_concat_map, map_map, <- flat_map_concat_map. apply ok_refs_flat.
      eapply Forall_impl; [|exact IH']. cbn. intros [k vp] Hx. cbn in *. apply Hx.
Qed.

Lemma compiles_in_stmt_refs b s : compiles_in b s = forallb (available b) (stmt_refs s).
Proof. reflexivity. Qed.

Corollary regex_free_compiles_without_feature : forall j p e,
  has_regex p = false -> compiles_in false (expand j p e) = true.
Proof.
  intros j p e H. rewrite compiles_in_stmt_refs. apply forallb_forall.
  intros i Hi. pose proof (regex_free_refs_available j p H e) as Hok.
  eapply Forall_forall in Hok; [exact Hok|exact Hi].
Qed.

(* with the feature on, everything the expansion refers to exists *)
Lemma everything_available_with_feature s : compiles_in true s = true.
Proof. unfold compiles_in. apply forallb_forall. intros i _. destruct i; reflexivity. Qed.

(* a regex literal's expansion names __macro_support::Regex, which does not exist without the feature *)
Lemma regex_ref_unavailable s : In IRegexType (stmt_refs s) -> compiles_in false s = false.
Proof.
  intros H. rewrite compiles_in_stmt_refs. apply Bool.not_true_is_false. intros Hf.
  rewrite forallb_forall in Hf. specialize (Hf IRegexType H). discriminate.
Qed.

Lemma regex_literal_rejected_without_feature j id pattern sp e :
  compiles_in false (expand j (PRegex id pattern sp) e) = false.
Proof. apply regex_ref_unavailable. cbn. right; left; reflexivity. Qed.

(* a Like pattern (`=~ expr`) refers only to the (ungated) trait: user impls keep working *)
Lemma like_pattern_available_without_feature j id x e :
  compiles_in false (expand j (PLike id x) e) = true.
Proof. reflexivity. Qed.

(* ---- the same statements about the front-end model itself (Parser.v, FrontEnd.v) ---------------- *)
From ASModel Require Import Parser FrontEnd.
From ASProofs Require Import RejectP.

(* the macro a dependent crate gets is the same function of the tokens in both configurations *)
Lemma same_macro_both_configs : forall j pe pp pc start ts,
  front_end_from (macro_regex repo_wiring DefaultOff) j pe pp pc start ts =
  front_end_from (macro_regex repo_wiring DefaultOn) j pe pp pc start ts.
Proof. intros. apply (repo_same_front_end _ (fun r => front_end_from r j pe pp pc start ts)). Qed.

(* were the macro crate built without its feature, `=` `~` would be a parse error on the `=` (never another meaning) *)
Lemma tilde_is_an_error_without_the_macro_feature : forall j pe pp pc f sc st jt sp r,
  toks st = TTPunct "=" jt sp :: r -> peek_punct "=" r = false ->
  p_pattern false j pe pp pc (S f) sc st = PErr sp (ctr st).
Proof. intros. eapply eq_needs_eq_or_tilde; [eassumption|assumption|reflexivity]. Qed.
