(* RejectP.v — how the parser rejects what it does not consume (C15).
   1. A delimited group whose content a rule leaves partly unconsumed records an
      "unexpected token"; the record is never lost (first one wins, nothing clears it);
      an invocation that ends with a record, or with tokens left at top level, is rejected.
   2. The loops of the struct, set and map patterns stop at `..`: whatever follows is left
      in the group, hence rejected by 1.
   3. Direct rejections: `=` followed by neither `=` nor `~`, a closure without exactly one
      parameter, an operator without operand.
   4. A second `..` in a slice pattern is accepted by the macro and lowered to a second
      `..` in one native slice pattern (which rustc rejects). *)
From ASModel Require Import Base Tokens Report Ast IR Expand Parser FrontEnd.
From ASProofs Require Import PatInd ParserP.

Definition sticky {A} (m : M A) : Prop :=
  forall sc st u, unx st = Some u ->
                  match m sc st with POk _ st' => unx st' = Some u | _ => True end.

Lemma sticky_ret {A} (a : A) : sticky (ret a).
Proof. intros sc st u H; exact H. Qed.
Lemma sticky_bind {A B} (m : M A) (k : A -> M B) : sticky m -> (forall a, sticky (k a)) -> sticky (bind m k).
Proof.
  intros Hm Hk sc st u H. unfold bind. specialize (Hm sc st u H).
  destruct (m sc st) as [a st'| | |]; try exact I. exact (Hk a sc st' u Hm).
Qed.
Lemma sticky_fail {A} : sticky (@fail A).
Proof. intros sc st u H; exact I. Qed.
Lemma sticky_fail_at {A} sp : sticky (@fail_at A sp).
Proof. intros sc st u H; exact I. Qed.
Lemma sticky_panic {A} s : sticky (@panic A s).
Proof. intros sc st u H; exact I. Qed.
Lemma sticky_fuel {A} : sticky (@out_of_fuel A).
Proof. intros sc st u H; exact I. Qed.
Lemma sticky_cur_span : sticky cur_span.
Proof. intros sc st u H; exact H. Qed.
Lemma sticky_get_toks : sticky get_toks.
Proof. intros sc st u H; exact H. Qed.
Lemma sticky_advance n : sticky (advance n).
Proof. intros sc st u H; exact H. Qed.
Lemma sticky_fresh : sticky fresh.
Proof. intros sc st u H; exact H. Qed.
Lemma sticky_is_empty : sticky is_empty.
Proof. intros sc st u H; exact H. Qed.
Lemma sticky_peek f : sticky (peek f).
Proof. intros sc st u H; exact H. Qed.
Lemma sticky_p_punct s : sticky (p_punct s).
Proof.
  unfold p_punct. apply sticky_bind; [apply sticky_get_toks|]. intros ts.
  destruct (peek_punct s ts); [|apply sticky_fail].
  apply sticky_bind; [apply sticky_advance|]. intros; apply sticky_ret.
Qed.
Lemma sticky_in_group {A} d (body : M A) : sticky body -> sticky (in_group d body).
Proof.
  intros Hb sc st u H. unfold in_group.
  destruct (toks st) as [|t r]; [exact I|]. destruct t; try exact I.
  destruct (delim_eqb d d0); [|exact I].
  match goal with |- context [body ?a ?b] => specialize (Hb a b u H); destruct (body a b) end; try exact I.
  cbn. rewrite Hb. reflexivity.
Qed.
Lemma sticky_fork {A} (m : M A) : sticky (fork m).
Proof.
  intros sc st u H. unfold fork.
  match goal with |- context [m ?a ?b] => destruct (m a b) end; try exact I; exact H.
Qed.

Global Hint Resolve sticky_ret sticky_fail sticky_fail_at sticky_panic sticky_fuel sticky_cur_span sticky_get_toks
     sticky_advance sticky_fresh sticky_is_empty sticky_peek sticky_p_punct sticky_fork : sticky.

(* the whole parser program, symbolically: binds, conditionals and matches *)
Ltac sticky_go :=
  repeat first
    [ solve [eauto with sticky]
    | apply sticky_bind; [|intros ?]
    | apply sticky_in_group
    | match goal with
      | |- sticky (if ?b then _ else _) => destruct b
      | |- sticky (match ?x with _ => _ end) => destruct x
      | |- sticky (let _ := _ in _) => cbv zeta
      end ].

Section RejectP.
  Variable regex join_ok : bool.
  Variable parse_expr : list ttree -> ores expr_ok.
  Variable parse_path : list ttree -> ores path_ok.
  Variable parse_closure : list ttree -> ores closure_ok.

  Notation p_expr := (p_expr parse_expr).
  Notation p_pattern := (p_pattern regex join_ok parse_expr parse_path parse_closure).
  Notation p_struct := (p_struct regex join_ok parse_expr parse_path parse_closure).
  Notation p_fields := (p_fields regex join_ok parse_expr parse_path parse_closure).
  Notation p_enum := (p_enum regex join_ok parse_expr parse_path parse_closure).
  Notation p_tuple := (p_tuple regex join_ok parse_expr parse_path parse_closure).
  Notation p_elems := (p_elems regex join_ok parse_expr parse_path parse_closure).
  Notation p_indexed := (p_indexed regex join_ok parse_expr parse_path parse_closure).
  Notation p_slice := (p_slice regex join_ok parse_expr parse_path parse_closure).
  Notation p_list := (p_list regex join_ok parse_expr parse_path parse_closure).
  Notation p_set := (p_set regex join_ok parse_expr parse_path parse_closure).
  Notation p_set_elems := (p_set_elems regex join_ok parse_expr parse_path parse_closure).
  Notation p_map := (p_map regex join_ok parse_expr parse_path parse_closure).
  Notation p_map_entries := (p_map_entries regex join_ok parse_expr parse_path parse_closure).
  Notation parse_top_from := (parse_top_from regex join_ok parse_expr parse_path parse_closure).

  Lemma sticky_p_expr : sticky p_expr.
  Proof.
    intros sc st u H. unfold Parser.p_expr. destruct (parse_expr (toks st)); [|exact I]. cbn. rewrite H. reflexivity.
  Qed.
  Lemma sticky_p_path : sticky (p_path parse_path).
  Proof. intros sc st u H. unfold p_path. destruct (parse_path (toks st)); [|exact I]. cbn. rewrite H. reflexivity. Qed.
  Lemma sticky_p_closure : sticky (p_closure parse_closure).
  Proof.
    intros sc st u H. unfold p_closure. destruct (parse_closure (toks st)); [|exact I]. cbn. rewrite H. reflexivity.
  Qed.
  Hint Resolve sticky_p_expr sticky_p_path sticky_p_closure : sticky.

  Lemma sticky_p_args f : sticky (p_args parse_expr f).
  Proof. induction f as [|f IH]; cbn [p_args]; sticky_go. Qed.
  Hint Resolve sticky_p_args : sticky.

  Lemma sticky_p_field_name : sticky p_field_name.
  Proof.
    intros sc st u H. unfold p_field_name.
    destruct (toks st) as [|t r]; [exact I|]. destruct t as [s sp| |k ? ?|]; try exact I.
    - destruct (is_keyword s); [exact I|exact H].
    - destruct k as [|[n|]| |]; try exact I. destruct (index_fits n); [exact H|exact I].
  Qed.
  Hint Resolve sticky_p_field_name : sticky.

  Lemma sticky_p_dot_op f : sticky (p_dot_op parse_expr f).
  Proof. unfold p_dot_op. sticky_go. Qed.
  Hint Resolve sticky_p_dot_op : sticky.
  Lemma sticky_p_one_op f : sticky (p_one_op parse_expr f).
  Proof. unfold p_one_op. sticky_go. Qed.
  Hint Resolve sticky_p_one_op : sticky.
  Lemma sticky_p_ops_loop f : sticky (p_ops_loop parse_expr f).
  Proof. induction f as [|f IH]; cbn [p_ops_loop]; sticky_go. Qed.
  Hint Resolve sticky_p_ops_loop : sticky.
  Lemma sticky_p_field_operation f : sticky (p_field_operation parse_expr f).
  Proof. unfold p_field_operation. sticky_go. Qed.
  Hint Resolve sticky_p_field_operation : sticky.

  Lemma sticky_p_cmp_op : sticky (p_cmp_op join_ok).
  Proof. unfold p_cmp_op. sticky_go. Qed.
  Hint Resolve sticky_p_cmp_op : sticky.
  Lemma sticky_leaves :
    sticky (p_comparison join_ok parse_expr) /\ sticky (p_like parse_expr) /\ sticky (p_closure_pat parse_closure) /\
    sticky (p_range parse_expr) /\ sticky (p_simple parse_expr) /\ sticky p_wild.
  Proof.
    unfold p_comparison, p_like, p_closure_pat, p_range, p_simple, p_wild. repeat split; sticky_go.
  Qed.

  Definition all_sticky (f : nat) : Prop :=
    sticky (p_pattern f) /\ sticky (p_struct f) /\ sticky (p_fields f) /\ sticky (p_enum f) /\ sticky (p_tuple f) /\
    (forall pos, sticky (p_elems f pos)) /\ (forall pos, sticky (p_indexed f pos)) /\ sticky (p_slice f) /\
    sticky (p_list f) /\ sticky (p_set f) /\ sticky (p_set_elems f) /\ sticky (p_map f) /\ sticky (p_map_entries f).

  Lemma all_sticky_holds : forall f, all_sticky f.
  Proof.
    induction f as [|f IH].
    { unfold all_sticky; repeat split; intros; apply sticky_fuel. }
    destruct IH as (Hpat & Hstruct & Hfields & Henum & Htuple & Helems & Hindexed & Hslice & Hlist &
                    Hset & Hsetel & Hmap & Hmapen).
    destruct sticky_leaves as (Lcmp & Llike & Lclos & Lrange & Lsimple & Lwild).
    unfold all_sticky. repeat split; try intros pos.
    - cbn [Parser.p_pattern]. sticky_go.
    - cbn [Parser.p_struct]. sticky_go.
    - cbn [Parser.p_fields]. sticky_go.
    - cbn [Parser.p_enum]. sticky_go.
    - cbn [Parser.p_tuple]. sticky_go.
    - cbn [Parser.p_elems]. sticky_go.
    - cbn [Parser.p_indexed]. sticky_go.
    - cbn [Parser.p_slice]. sticky_go.
    - cbn [Parser.p_list]. sticky_go.
    - cbn [Parser.p_set]. sticky_go.
    - cbn [Parser.p_set_elems]. sticky_go.
    - cbn [Parser.p_map]. sticky_go.
    - cbn [Parser.p_map_entries]. sticky_go.
  Qed.

  (* 1a. a group left partly unconsumed is recorded *)
  Lemma in_group_leftover {A} d (body : M A) sc st g st' :
    in_group d body sc st = POk g st' ->
    forall d' sp spo spc inner r, toks st = TTGroup d' sp spo spc inner :: r ->
    forall a stb, body spc {| toks := inner; ctr := ctr st; unx := unx st |} = POk a stb ->
    toks stb <> [] -> unx st' <> None.
  Proof.
    intros H d' sp spo spc inner r Ht a stb Hb Hne. unfold in_group in H. rewrite Ht in H.
    destruct (delim_eqb d d'); [|discriminate]. rewrite Hb in H. inversion H; subst; cbn.
    destruct (unx stb); [discriminate|]. destruct (toks stb); [contradiction|discriminate].
  Qed.

  (* 1b. ... the record survives everything the parser does afterwards ... *)
  Lemma pattern_keeps_record f sc st u p st' :
    unx st = Some u -> p_pattern f sc st = POk p st' -> unx st' = Some u.
  Proof.
    intros Hu H. pose proof (proj1 (all_sticky_holds f) sc st u Hu) as S. rewrite H in S. exact S.
  Qed.

  (* 1c. ... and an invocation that ends with a record, or with tokens left over, is rejected *)
  Lemma top_rejects fuel start ts v p :
    parse_top_from fuel start ts = TOk v p ->
    exists st', (v0 <- p_expr ;; p_punct "," ;;; q <- p_pattern fuel ;; ret (eo_u v0, q)) SCall {| toks := ts; ctr := 0%N; unx := None |}
                = POk (v, p) st' /\ unx st' = None /\ toks st' = [].
  Proof.
    unfold Parser.parse_top_from.
    match goal with |- context [?m SCall ?st] => destruct (m SCall st) as [[v' p'] st'| | |] end; try discriminate.
    destruct (unx st') eqn:Hu; [discriminate|]. destruct (toks st') eqn:Ht; [|discriminate].
    intros E; inversion E; subst. exists st'. repeat split; assumption.
  Qed.

  (* 2. the loops stop at `..` and leave the rest *)
  Definition skip2 (st : pst) : pst := {| toks := skipn 2 (toks st); ctr := ctr st; unx := unx st |}.

  Lemma bind_eq {A B} (m : M A) (k : A -> M B) sc st a st' : m sc st = POk a st' -> bind m k sc st = k a sc st'.
  Proof. intros H. unfold bind. rewrite H. reflexivity. Qed.
  Lemma is_empty_eq sc st : is_empty sc st = POk (match toks st with [] => true | _ => false end) st.
  Proof. reflexivity. Qed.
  Lemma peek_eq f sc st : peek f sc st = POk (f (toks st)) st.
  Proof. reflexivity. Qed.
  Lemma p_punct_eq s sc st :
    peek_punct s (toks st) = true ->
    p_punct s sc st = POk (punct_spans (String.length s) (toks st))
                          {| toks := skipn (String.length s) (toks st); ctr := ctr st; unx := unx st |}.
  Proof. intros H. unfold p_punct, bind, get_toks. rewrite H. reflexivity. Qed.

  Lemma fields_stop_at_rest f sc st :
    toks st <> [] -> peek_punct ".." (toks st) = true ->
    p_fields (S f) sc st = POk ([], true) (skip2 st).
  Proof.
    intros Hne Hp. cbn [Parser.p_fields].
    erewrite bind_eq by apply is_empty_eq. destruct (toks st) eqn:Ht; [contradiction|].
    erewrite bind_eq by apply peek_eq. rewrite Ht, Hp.
    erewrite bind_eq by (apply p_punct_eq; rewrite Ht; exact Hp). unfold skip2. rewrite Ht. reflexivity.
  Qed.

  Lemma map_stops_at_rest f sc st :
    toks st <> [] -> peek_punct ".." (toks st) = true ->
    p_map_entries (S f) sc st = POk ([], true) (skip2 st).
  Proof.
    intros Hne Hp. cbn [Parser.p_map_entries].
    erewrite bind_eq by apply is_empty_eq. destruct (toks st) eqn:Ht; [contradiction|].
    erewrite bind_eq by apply peek_eq. rewrite Ht, Hp.
    erewrite bind_eq by (apply p_punct_eq; rewrite Ht; exact Hp). unfold skip2. rewrite Ht. reflexivity.
  Qed.

  (* in a set pattern `..` is the rest marker only when `,` or nothing follows; one comma may follow a leading `..` *)
  Lemma peek_rest_dots ts : peek_rest ts = true -> peek_punct ".." ts = true.
  Proof. unfold peek_rest. intros H. apply andb_true_iff in H as [H _]. apply andb_true_iff in H as [H _]. exact H. Qed.

  Lemma set_stops_at_rest f sc st :
    toks st <> [] -> peek_rest (toks st) = true ->
    exists left, (left = skipn 2 (toks st) \/ left = skipn 1 (skipn 2 (toks st))) /\
      p_set_elems (S f) sc st = POk ([], true) {| toks := left; ctr := ctr st; unx := unx st |}.
  Proof.
    intros Hne Hr. pose proof (peek_rest_dots _ Hr) as Hp. cbn [Parser.p_set_elems].
    erewrite bind_eq by apply is_empty_eq. destruct (toks st) eqn:Ht; [contradiction|].
    erewrite bind_eq by apply peek_eq. rewrite Ht, Hr.
    erewrite bind_eq by (apply p_punct_eq; rewrite Ht; exact Hp).
    erewrite bind_eq by apply peek_eq. cbn [toks String.length].
    destruct (peek_punct "," (skipn 2 (t :: l))) eqn:Hc.
    - exists (skipn 1 (skipn 2 (t :: l))). split; [right; reflexivity|].
      erewrite bind_eq.
      2:{ rewrite Ht, Hc. unfold bind. rewrite p_punct_eq by (cbn [toks]; exact Hc). reflexivity. }
      cbn [toks ctr unx String.length ret]. reflexivity.
    - exists (skipn 2 (t :: l)). split; [left; reflexivity|]. rewrite Ht, Hc. reflexivity.
  Qed.

  (* ... and by the definition of the marker, what is left after it (and that one comma) is nothing, or starts with a
     token the loop never consumes: a set pattern whose `..` is not last is rejected *)
  Lemma rest_marker_is_followed_by_comma_or_end ts :
    peek_rest ts = true -> skipn 2 ts = [] \/ peek_punct "," (skipn 2 ts) = true.
  Proof.
    unfold peek_rest. intros H. apply andb_true_iff in H as [_ H]. destruct (skipn 2 ts); [left; reflexivity|right; exact H].
  Qed.

  (* 3. direct rejections *)
  Lemma eq_needs_eq_or_tilde f sc st j sp r :
    toks st = TTPunct "=" j sp :: r ->
    peek_punct "=" r = false -> (regex && peek_punct "~" r = false) ->
    p_pattern (S f) sc st = PErr sp (ctr st).
  Proof.
    intros Ht H1 H2. cbn [Parser.p_pattern].
    erewrite bind_eq by reflexivity. rewrite Ht.
    set (ts := TTPunct "=" j sp :: r).
    assert (S1 : skip1 ts = Some r).
    { unfold ts, skip1. destruct j; [|reflexivity]. destruct r as [|t r']; [reflexivity|]. destruct t; reflexivity. }
    replace (peek_punct "|" ts) with false by reflexivity.
    replace (peek_ident "move" ts) with false by reflexivity.
    replace (peek_ident "_" ts) with false by reflexivity.
    replace (peek_punct "<" ts) with false by reflexivity.
    replace (peek_punct ">" ts) with false by reflexivity.
    replace (peek_punct "!" ts) with false by reflexivity.
    replace (peek_punct "=" ts) with true by reflexivity.
    cbn [orb andb]. unfold peek2. rewrite S1, H1, H2.
    unfold fail, here. rewrite Ht. reflexivity.
  Qed.

  Lemma closure_needs_one_parameter sc st c :
    parse_closure (toks st) = OOk c -> co_inputs c <> 1 ->
    p_closure_pat parse_closure sc st = PErr (co_inputs_span c) (ctr st).
  Proof.
    intros Hc Hn. unfold p_closure_pat, bind, p_closure. rewrite Hc.
    destruct (Nat.eqb (co_inputs c) 1) eqn:E; [apply Nat.eqb_eq in E; contradiction|]. reflexivity.
  Qed.

  Lemma operator_needs_operand sc st o st1 e :
    p_cmp_op join_ok sc st = POk o st1 -> parse_expr (toks st1) = OErr e ->
    p_comparison join_ok parse_expr sc st = PErr (oerr_span e sc) (ctr st1).
  Proof.
    intros Ho He. unfold p_comparison, bind. rewrite Ho. unfold Parser.p_expr. rewrite He. reflexivity.
  Qed.
End RejectP.

(* 4. a slice pattern: every written `..` becomes a `..` of the native slice pattern *)
Fixpoint count_rest_parts (l : list slice_part) : nat :=
  match l with [] => 0 | SPRest :: r => S (count_rest_parts r) | _ :: r => count_rest_parts r end.
Fixpoint count_rest_elems (l : list pat) : nat :=
  match l with [] => 0 | p :: r => (if is_rest_range p then 1 else 0) + count_rest_elems r end.

Lemma mapi_from_rest_count (l : list pat) : forall n,
  count_rest_parts (mapi_from (fun i el => if is_rest_range el then SPRest else if is_wild el then SPWild else SPBind i) n l)
  = count_rest_elems l.
Proof.
  induction l as [|p r IH]; intros n; cbn; [reflexivity|].
  destruct (is_rest_range p); cbn; [rewrite IH; reflexivity|].
  destruct (is_wild p); cbn; apply IH.
Qed.

Lemma slice_rests_lowered j id sp elems e :
  exists parts body pu, expand j (PSlice id sp elems) e = SSlice e parts body pu /\
                        count_rest_parts parts = count_rest_elems elems /\ List.length parts = List.length elems.
Proof.
  cbn [expand]. eexists _, _, _. split; [reflexivity|]. split.
  - unfold mapi. apply mapi_from_rest_count.
  - unfold mapi. generalize 0. induction elems as [|p r IH]; intros n; cbn; [reflexivity|]. rewrite IH. reflexivity.
Qed.
