(* ParserP.v — the parser never reaches one of its panic sites, and every tree it returns
   is well formed (every field-operation chain has a root field and a tail, every tuple
   index fits in u32), for every token list, every fuel and EVERY behaviour of syn's
   expression / path / closure parsers. *)
From ASModel Require Import Base Tokens Report Ast IR Expand Parser FrontEnd.
From ASProofs Require Import PatInd.

(* ---- a small program logic: `spec m Q` = m never panics, and Q holds of what it returns --- *)

Definition spec {A} (m : M A) (Q : A -> Prop) : Prop :=
  forall sc st, match m sc st with
                | POk a _ => Q a
                | PPanic _ => False
                | _ => True
                end.

Lemma spec_ret {A} (a : A) (Q : A -> Prop) : Q a -> spec (ret a) Q.
Proof. intros H sc st; exact H. Qed.

Lemma spec_bind {A B} (m : M A) (k : A -> M B) (P : A -> Prop) (Q : B -> Prop) :
  spec m P -> (forall a, P a -> spec (k a) Q) -> spec (bind m k) Q.
Proof.
  intros Hm Hk sc st. unfold bind. specialize (Hm sc st).
  destruct (m sc st) as [a st'| | |]; try exact I; try contradiction.
  exact (Hk a Hm sc st').
Qed.

Lemma spec_weaken {A} (m : M A) (P Q : A -> Prop) : spec m P -> (forall a, P a -> Q a) -> spec m Q.
Proof.
  intros Hm H sc st. specialize (Hm sc st). destruct (m sc st); auto.
Qed.

Lemma spec_true {A} (m : M A) (Q : A -> Prop) : spec m Q -> spec m (fun _ => True).
Proof. intros H; eapply spec_weaken; [exact H|auto]. Qed.

Lemma spec_fail {A} (Q : A -> Prop) : spec fail Q.
Proof. intros sc st; exact I. Qed.
Lemma spec_fail_at {A} sp (Q : A -> Prop) : spec (fail_at sp) Q.
Proof. intros sc st; exact I. Qed.
Lemma spec_fuel {A} (Q : A -> Prop) : spec out_of_fuel Q.
Proof. intros sc st; exact I. Qed.
Lemma spec_cur_span : spec cur_span (fun _ => True).
Proof. intros sc st; exact I. Qed.
Lemma spec_get_toks : spec get_toks (fun _ => True).
Proof. intros sc st; exact I. Qed.
Lemma spec_advance n : spec (advance n) (fun _ => True).
Proof. intros sc st; exact I. Qed.
Lemma spec_fresh : spec fresh (fun _ => True).
Proof. intros sc st; exact I. Qed.
Lemma spec_is_empty : spec is_empty (fun _ => True).
Proof. intros sc st; exact I. Qed.
Lemma spec_peek f : spec (peek f) (fun _ => True).
Proof. intros sc st; exact I. Qed.
Lemma spec_note_unx u : spec (note_unx u) (fun _ => True).
Proof. intros sc st; exact I. Qed.

Lemma spec_p_punct s : spec (p_punct s) (fun _ => True).
Proof.
  unfold p_punct. eapply spec_bind; [apply spec_get_toks|]. intros ts _.
  destruct (peek_punct s ts).
  - eapply spec_bind; [apply spec_advance|]. intros; apply spec_ret; exact I.
  - apply spec_fail.
Qed.

Lemma spec_in_group {A} d (body : M A) (Q : A -> Prop) :
  spec body Q -> spec (in_group d body) (fun g => Q (snd g)).
Proof.
  intros Hb sc st. unfold in_group.
  destruct (toks st) as [|t r]; [exact I|].
  destruct t; try exact I.
  destruct (delim_eqb d d0); [|exact I].
  match goal with |- context [body ?a ?b] => specialize (Hb a b); destruct (body a b) end; auto.
Qed.

Lemma spec_fork {A} (m : M A) (Q : A -> Prop) :
  spec m Q -> spec (fork m) (fun o => match o with Some (a, _) => Q a | None => True end).
Proof.
  intros Hm sc st. unfold fork.
  match goal with |- context [m ?a ?b] => specialize (Hm a b); destruct (m a b) end; auto.
Qed.

(* ---- well-formed results --------------------------------------------------------- *)

(* what the expander needs of a chain written before `:` in a struct pattern *)
Definition fop_ok (o : fop) : bool :=
  match root_field_name o with Some f => field_name_index_ok f | None => false end &&
  match tail_operations o with TailPanic => false | TailNone => true | TailSome t => ops_index_ok t end.

(* ... and of one written before `:` in a tuple / variant pattern (the root was consumed by the parser) *)
Definition tail_ok (o : fop) : bool :=
  match tail_operations o with TailPanic => false | TailNone => true | TailSome t => ops_index_ok t end.

Fixpoint pat_ok (p : pat) : bool :=
  match p with
  | PStruct _ _ _ fields => forallb (fun fp => fop_ok (fst fp) && pat_ok (snd fp)) fields
  | PEnum _ _ elems | PTuple _ _ elems =>
      forallb (fun el => match fst el with Some o => tail_ok o | None => true end && pat_ok (snd el)) elems
  | PSlice _ _ elems | PSet _ _ _ elems => forallb pat_ok elems
  | PMap _ _ _ entries => forallb (fun kv => pat_ok (snd kv)) entries
  | _ => true
  end.

(* What every accepted tree satisfies beyond that: a wildcard struct pattern has `..`, and an
   element written `ops: pattern` in a tuple / variant pattern has the index of its position
   as the root of `ops`. *)
Definition root_at (o : fop) (pos : N) : bool :=
  match root_field_name o with Some (FIndex i _) => N.eqb i pos | _ => false end.

Section ElemsOk.
  Variable f : pat -> bool.
  Definition elem_ok (pos : N) (el : option fop * pat) : bool :=
    match fst el with Some o => tail_ok o && root_at o pos | None => true end && f (snd el).
  Fixpoint elems_ok (pos : N) (l : list (option fop * pat)) : bool :=
    match l with
    | [] => true
    | el :: r => elem_ok pos el && elems_ok (N.succ pos) r
    end.
End ElemsOk.

Fixpoint tree_ok (p : pat) : bool :=
  match p with
  | PStruct _ path rest fields =>
      match path with None => rest | Some _ => true end &&
      forallb (fun fp => fop_ok (fst fp) && tree_ok (snd fp)) fields
  | PEnum _ _ elems | PTuple _ _ elems => elems_ok tree_ok 0%N elems
  | PSlice _ _ elems | PSet _ _ _ elems => forallb tree_ok elems
  | PMap _ _ _ entries => forallb (fun kv => tree_ok (snd kv)) entries
  | _ => true
  end.

Lemma elems_ok_pat_ok (l : list (option fop * pat)) :
  Forall (fun el => tree_ok (snd el) = true -> pat_ok (snd el) = true) l ->
  forall pos, elems_ok tree_ok pos l = true ->
  forallb (fun el => match fst el with Some o => tail_ok o | None => true end && pat_ok (snd el)) l = true.
Proof.
  induction 1 as [|el l Hel Hl IH]; intros pos H; [reflexivity|].
  cbn in *. unfold elem_ok in H.
  apply andb_true_iff in H as [H1 H2]. apply andb_true_iff in H1 as [H1 H3].
  rewrite (IH _ H2), (Hel H3). destruct (fst el); [|reflexivity].
  apply andb_true_iff in H1 as [-> _]. reflexivity.
Qed.

Lemma tree_ok_pat_ok : forall p, tree_ok p = true -> pat_ok p = true.
Proof.
  induction p using pat_ind'; intros Hok; try reflexivity; cbn [tree_ok pat_ok] in *.
  - apply andb_true_iff in Hok as [_ Hok]. rewrite forallb_forall in *. intros fp Hin.
    specialize (Hok fp Hin). apply andb_true_iff in Hok as [-> Hp]. rewrite Forall_forall in H. rewrite (H _ Hin Hp). reflexivity.
  - eapply elems_ok_pat_ok; eassumption.
  - eapply elems_ok_pat_ok; eassumption.
  - rewrite forallb_forall in *. intros x Hin. rewrite Forall_forall in H. apply (H _ Hin). apply Hok. exact Hin.
  - rewrite forallb_forall in *. intros x Hin. rewrite Forall_forall in H. apply (H _ Hin). apply Hok. exact Hin.
  - rewrite forallb_forall in *. intros x Hin. rewrite Forall_forall in H. apply (H _ Hin). apply Hok. exact Hin.
Qed.

Section ParserP.
  Variable regex join_ok : bool.
  Variable parse_expr : list ttree -> ores expr_ok.
  Variable parse_path : list ttree -> ores path_ok.
  Variable parse_closure : list ttree -> ores closure_ok.

  Notation p_expr := (p_expr parse_expr).
  Notation p_path := (p_path parse_path).
  Notation p_closure := (p_closure parse_closure).
  Notation p_args := (p_args parse_expr).
  Notation p_dot_op := (p_dot_op parse_expr).
  Notation p_one_op := (p_one_op parse_expr).
  Notation p_ops_loop := (p_ops_loop parse_expr).
  Notation p_field_operation := (p_field_operation parse_expr).
  Notation p_pattern := (p_pattern regex join_ok parse_expr parse_path parse_closure).
  Notation p_struct := (p_struct regex join_ok parse_expr parse_path parse_closure).
  Notation p_fields := (p_fields regex join_ok parse_expr parse_path parse_closure).
  Notation p_enum := (p_enum regex join_ok parse_expr parse_path parse_closure).
  Notation p_tuple := (p_tuple regex join_ok parse_expr parse_path parse_closure).
  Notation p_elems := (p_elems regex join_ok parse_expr parse_path parse_closure).
  Notation p_indexed := (p_indexed regex join_ok parse_expr parse_path parse_closure).
  Notation p_slice := (p_slice regex join_ok parse_expr parse_path parse_closure).
  Notation p_list := (p_list regex join_ok parse_expr parse_path parse_closure).
  Notation p_set := (p_set regex join_ok parse_expr parse_path parse_closure).
  Notation p_set_elems := (p_set_elems regex join_ok parse_expr parse_path parse_closure).
  Notation p_map := (p_map regex join_ok parse_expr parse_path parse_closure).
  Notation p_map_entries := (p_map_entries regex join_ok parse_expr parse_path parse_closure).

  Lemma spec_p_expr : spec p_expr (fun _ => True).
  Proof. intros sc st; unfold Parser.p_expr; destruct (parse_expr (toks st)); exact I. Qed.
  Lemma spec_p_path : spec p_path (fun _ => True).
  Proof. intros sc st; unfold Parser.p_path; destruct (parse_path (toks st)); exact I. Qed.
  Lemma spec_p_closure : spec p_closure (fun _ => True).
  Proof. intros sc st; unfold Parser.p_closure; destruct (parse_closure (toks st)); exact I. Qed.

  Hint Resolve spec_p_expr spec_p_path spec_p_closure spec_get_toks spec_advance spec_fresh spec_is_empty
       spec_peek spec_cur_span spec_p_punct spec_fail spec_fail_at spec_fuel : pspec.

  (* one step of symbolic execution of a monadic program under `spec` *)
  Ltac sstep :=
    match goal with
    | |- spec (bind _ _) _ => eapply spec_bind; [solve [eauto with pspec] | intros ? ?]
    | |- spec (ret _) _ => apply spec_ret
    | |- spec fail _ => apply spec_fail
    | |- spec (fail_at _) _ => apply spec_fail_at
    | |- spec out_of_fuel _ => apply spec_fuel
    | |- spec (if ?b then _ else _) _ => destruct b eqn:?
    | |- spec (match ?x with _ => _ end) _ => destruct x eqn:?
    end.

  Tactic Notation "sbind" ident(x) := eapply spec_bind; [solve [eauto with pspec] | intros x _].
  Tactic Notation "sbind_" := eapply spec_bind; [solve [eauto with pspec] | intros _ _].

  (* ---- field operations ---------------------------------------------------------- *)

  Definition op_small (o : fop) : Prop := ops_index_ok o = true.

  Lemma spec_p_args f : spec (p_args f) (fun _ => True).
  Proof.
    induction f as [|f IH]; cbn [Parser.p_args]; [apply spec_fuel|].
    repeat sstep; exact I.
  Qed.

  Lemma spec_p_dot_op f : spec (p_dot_op f) (Forall op_small).
  Proof.
    unfold Parser.p_dot_op.
    sbind dot. sbind_. sbind ts.
    destruct ts as [|t r]; [apply spec_fail|].
    destruct t as [s sp|c j sp|k text sp|d sp spo spc body].
    - (* identifier *)
      destruct (String.eqb s "await").
      + sbind_. apply spec_ret. repeat constructor.
      + destruct (is_keyword s); [apply spec_fail|].
        sbind_. sbind paren. destruct paren.
        * eapply spec_bind; [apply spec_in_group; apply spec_p_args|]. intros g _.
          apply spec_ret. repeat constructor.
        * apply spec_ret. repeat constructor.
    - (* punct *)
      destruct r as [|t2 r2]; [apply spec_fail|].
      destruct t2 as [| |k2 text2 sp2|]; try apply spec_fail.
      destruct k2; try apply spec_fail; destruct (Ascii.eqb c "-"); first [apply spec_fail_at | apply spec_fail].
    - (* literal *)
      destruct k as [v|u| |]; try apply spec_fail.
      + destruct u as [n|]; [|apply spec_fail_at].
        destruct (index_fits n) eqn:Hn; [|apply spec_fail_at].
        sbind_. apply spec_ret. constructor; [exact Hn|constructor].
      + destruct (split_once_dot text) as [[a b]|]; [|apply spec_fail_at].
        destruct (parse_usize a) as [i|]; [|apply spec_fail_at].
        destruct (parse_usize b) as [j'|]; [|apply spec_fail_at].
        destruct (index_fits i && index_fits j') eqn:Hij; [|apply spec_fail_at].
        apply andb_true_iff in Hij as [Hi Hj].
        sbind_. apply spec_ret. constructor; [exact Hi|constructor; [exact Hj|constructor]].
    - apply spec_fail.
  Qed.

  Lemma spec_p_one_op f : spec (p_one_op f) (Forall op_small).
  Proof.
    unfold Parser.p_one_op. sbind ts.
    destruct (peek_punct "." ts); [apply spec_p_dot_op|].
    destruct (peek_group DBracket ts); [|apply spec_fail].
    eapply spec_bind; [apply spec_in_group; apply spec_p_expr|]. intros g _.
    destruct g as [[[? ?] ?] ?]. apply spec_ret. repeat constructor.
  Qed.

  Lemma spec_p_ops_loop f : spec (p_ops_loop f) (Forall op_small).
  Proof.
    induction f as [|f IH]; cbn [Parser.p_ops_loop]; [apply spec_fuel|].
    sbind ts. destruct (peek_punct "." ts || peek_group DBracket ts).
    - eapply spec_bind; [apply spec_p_one_op|]. intros o Ho.
      eapply spec_bind; [exact IH|]. intros more Hm.
      apply spec_ret. apply Forall_app; split; assumption.
    - apply spec_ret. constructor.
  Qed.

  Lemma spec_p_field_name : spec (p_field_name) (fun f => field_name_index_ok f = true).
  Proof.
    intros sc st. unfold p_field_name.
    destruct (toks st) as [|t r]; [exact I|].
    destruct t as [s sp|c j sp|k text sp|]; try exact I.
    - destruct (is_keyword s); [exact I|reflexivity].
    - destruct k as [|u| |]; try exact I. destruct u as [n|]; [|exact I].
      destruct (index_fits n) eqn:Hn; [exact Hn|exact I].
  Qed.

  (* the shape FieldOperation::parse builds: optional Deref, the field access, then the rest *)
  Lemma chain_ok (pre : list fop) (name : fop) (more : list fop) sp :
    (pre = [] \/ exists n s, pre = [ODeref n s]) ->
    is_field_access name = true -> ops_index_ok name = true ->
    Forall op_small more ->
    fop_ok (match (pre ++ name :: more)%list with [o] => o | l => OChained sp l end) = true /\
    (forall pos, root_is (match (pre ++ name :: more)%list with [o] => o | l => OChained sp l end) pos <> None).
  Proof.
    intros Hpre Hacc Hidx Hmore.
    assert (Hroot : exists f, root_field_name name = Some f /\ field_name_index_ok f = true).
    { destruct name; try discriminate; cbn in *; eauto. }
    destruct Hroot as (fn & Hfn & Hfok).
    assert (Hall : forallb ops_index_ok more = true).
    { apply forallb_forall. rewrite Forall_forall in Hmore. exact Hmore. }
    destruct Hpre as [->|(n & s & ->)]; cbn [app].
    - (* no deref *)
      destruct more as [|m more'].
      + split.
        * unfold fop_ok. rewrite Hfn, Hfok. destruct name; try discriminate; reflexivity.
        * intros pos. unfold root_is. rewrite Hfn. destruct fn; discriminate.
      + split.
        * unfold fop_ok. cbn [root_field_name tail_operations position].
          assert (Hnd : is_deref name = false) by (destruct name; try discriminate; reflexivity).
          rewrite Hnd, Hfn, Hfok, Hacc. cbn [firstn skipn app].
          cbn in Hall. apply andb_true_iff in Hall as [Hm Hm'].
          destruct more' as [|m2 more'']; cbn; [exact Hm|].
          cbn in Hm'. rewrite Hm, Hm'. reflexivity.
        * intros pos. unfold root_is. cbn [root_field_name].
          assert (Hnd : is_deref name = false) by (destruct name; try discriminate; reflexivity).
          rewrite Hnd, Hfn. destruct fn; discriminate.
    - (* leading deref *)
      split.
      + unfold fop_ok. cbn [root_field_name tail_operations position is_deref is_field_access option_map].
        assert (Hnd : is_deref name = false) by (destruct name; try discriminate; reflexivity).
        rewrite Hnd, Hfn, Hfok, Hacc. cbn [option_map firstn skipn app].
        destruct more as [|m more']; cbn; [reflexivity|].
        cbn in Hall. exact Hall.
      + intros pos. unfold root_is. cbn [root_field_name is_deref].
        assert (Hnd : is_deref name = false) by (destruct name; try discriminate; reflexivity).
        rewrite Hnd, Hfn. destruct fn; discriminate.
  Qed.

  Definition fop_result_ok (o : fop) : Prop := fop_ok o = true /\ forall pos, root_is o pos <> None.

  Lemma spec_p_field_operation f : spec (p_field_operation f) fop_result_ok.
  Proof.
    unfold Parser.p_field_operation.
    sbind a. sbind a0. sbind_.
    eapply spec_bind; [apply spec_p_field_name|]. intros name Hname.
    eapply spec_bind; [apply spec_p_ops_loop|]. intros more Hmore.
    set (nm := match name with FIdent s nsp => ONamed s nsp a | FIndex n _ => OUnnamed n a end).
    set (pre := if Nat.eqb (count_stars a0) 0 then [] else [ODeref (count_stars a0) a]).
    assert (Hpre : pre = [] \/ exists n s, pre = [ODeref n s]).
    { unfold pre. destruct (Nat.eqb (count_stars a0) 0); [left; reflexivity|right; eauto]. }
    assert (Hacc : is_field_access nm = true) by (unfold nm; destruct name; reflexivity).
    assert (Hidx : ops_index_ok nm = true) by (unfold nm; destruct name; [reflexivity|exact Hname]).
    destruct (chain_ok pre nm more a Hpre Hacc Hidx Hmore) as [H1 H2].
    destruct (pre ++ nm :: more)%list as [|o l] eqn:Hl.
    - exfalso. destruct pre; discriminate.
    - destruct l; apply spec_ret; split; assumption.
  Qed.

  (* ---- leaves -------------------------------------------------------------------- *)

  Definition ok_pat (p : pat) : Prop := tree_ok p = true.

  Lemma spec_p_cmp_op : spec (p_cmp_op join_ok) (fun _ => True).
  Proof.
    unfold p_cmp_op. sbind ts.
    repeat (sstep; try (eapply spec_bind; [apply spec_p_punct|intros; apply spec_ret; exact I])).
  Qed.

  Lemma spec_p_comparison : spec (p_comparison join_ok parse_expr) ok_pat.
  Proof.
    unfold p_comparison.
    eapply spec_bind; [apply spec_p_cmp_op|]. intros o _.
    sbind r. sbind id. apply spec_ret. reflexivity.
  Qed.

  Lemma spec_p_like : spec (p_like parse_expr) ok_pat.
  Proof.
    unfold p_like. sbind_. sbind_. sbind r. sbind id.
    destruct (eo_str r); apply spec_ret; reflexivity.
  Qed.

  Lemma spec_p_closure_pat : spec (p_closure_pat parse_closure) ok_pat.
  Proof.
    unfold p_closure_pat. sbind c.
    destruct (Nat.eqb (co_inputs c) 1); [|apply spec_fail_at].
    sbind id. apply spec_ret. reflexivity.
  Qed.

  Lemma spec_p_range : spec (p_range parse_expr) ok_pat.
  Proof.
    unfold p_range. sbind r. destruct (eo_range r); [|apply spec_fail_at].
    sbind id. apply spec_ret. reflexivity.
  Qed.

  Lemma spec_p_simple : spec (p_simple parse_expr) ok_pat.
  Proof. unfold p_simple. sbind r. sbind id. apply spec_ret. reflexivity. Qed.

  Lemma spec_p_wild : spec p_wild ok_pat.
  Proof.
    unfold p_wild. sbind ts. destruct (peek_ident "_" ts); [|apply spec_fail].
    sbind_. sbind id. apply spec_ret. reflexivity.
  Qed.

  (* ---- the recursive part: all thirteen functions at once, by induction on the fuel ---- *)

  Definition ok_fields (r : list (fop * pat) * bool) : Prop :=
    forallb (fun fp => fop_ok (fst fp) && tree_ok (snd fp)) (fst r) = true.
  Definition ok_elems (pos : N) (l : list (option fop * pat)) : Prop := elems_ok tree_ok pos l = true.
  Definition ok_elem (pos : N) (el : option fop * pat) : Prop := elem_ok tree_ok pos el = true.
  Definition ok_list (l : list pat) : Prop := forallb tree_ok l = true.
  Definition ok_set_elems (r : list pat * bool) : Prop := forallb tree_ok (fst r) = true.
  Definition ok_entries (r : list (uexpr * pat) * bool) : Prop := forallb (fun kv => tree_ok (snd kv)) (fst r) = true.

  Definition all_specs (f : nat) : Prop :=
    spec (p_pattern f) ok_pat /\ spec (p_struct f) ok_pat /\ spec (p_fields f) ok_fields /\
    spec (p_enum f) ok_pat /\ spec (p_tuple f) ok_pat /\ (forall pos, spec (p_elems f pos) (ok_elems pos)) /\
    (forall pos, spec (p_indexed f pos) (ok_elem pos)) /\ spec (p_slice f) ok_pat /\ spec (p_list f) ok_list /\
    spec (p_set f) ok_pat /\ spec (p_set_elems f) ok_set_elems /\ spec (p_map f) ok_pat /\
    spec (p_map_entries f) ok_entries.

  Lemma fop_ok_tail o : fop_ok o = true -> tail_ok o = true.
  Proof. unfold fop_ok, tail_ok. intros H. apply andb_true_iff in H as [_ H]. exact H. Qed.

  Lemma all_specs_holds : forall f, all_specs f.
  Proof.
    induction f as [|f IH].
    { unfold all_specs; repeat split; intros; apply spec_fuel. }
    destruct IH as (Hpat & Hstruct & Hfields & Henum & Htuple & Helems & Hindexed & Hslice & Hlist &
                    Hset & Hsetel & Hmap & Hmapen).
    unfold all_specs. repeat split.
    - (* p_pattern *)
      cbn [Parser.p_pattern]. sbind ts.
      destruct (peek_punct "|" ts || (peek_ident "move" ts && peek2 (peek_punct "|") ts)); [apply spec_p_closure_pat|].
      destruct (peek_ident "_" ts).
      { destruct (peek2 (peek_group DBrace) ts); [exact Hstruct|apply spec_p_wild]. }
      destruct (peek_punct "<" ts || peek_punct ">" ts || peek_punct "!" ts); [apply spec_p_comparison|].
      destruct (peek_punct "=" ts).
      { destruct (peek2 (peek_punct "=") ts); [apply spec_p_comparison|].
        destruct (regex && peek2 (peek_punct "~") ts); [apply spec_p_like|apply spec_fail]. }
      destruct (peek_punct "#" ts && peek2 (peek_group DParen) ts); [exact Hset|].
      destruct (peek_punct "#" ts && peek2 (peek_group DBrace) ts); [exact Hmap|].
      destruct (peek_group DBracket ts); [exact Hslice|].
      destruct (peek_group DParen ts); [exact Htuple|].
      eapply spec_bind; [apply spec_fork; apply spec_p_path|]. intros pk _.
      destruct pk as [[pkp after]|].
      { destruct (peek_group DBrace after); [exact Hstruct|exact Henum]. }
      eapply spec_bind; [apply spec_fork; apply spec_p_range|]. intros rk _.
      destruct rk; [apply spec_p_range|].
      sbind now.
      destruct now as [|t r]; [apply spec_p_simple|].
      destruct t as [| |k text sp|]; try apply spec_p_simple.
      destruct k; try apply spec_p_simple.
      sbind_. sbind id. apply spec_ret. reflexivity.
    - (* p_struct *)
      cbn [Parser.p_struct]. sbind id. sbind ts.
      eapply spec_bind with (P := fun hd => fst hd = None -> snd hd <> None).
      { destruct ts as [|t r].
        - sbind q. apply spec_ret. cbn. discriminate.
        - destruct t as [s sp| | |].
          + destruct (String.eqb s "_").
            * sbind_. apply spec_ret. cbn. discriminate.
            * sbind q. apply spec_ret. cbn. discriminate.
          + sbind q. apply spec_ret. cbn. discriminate.
          + sbind q. apply spec_ret. cbn. discriminate.
          + sbind q. apply spec_ret. cbn. discriminate. }
      intros hd Hhd.
      eapply spec_bind; [apply spec_in_group; exact Hfields|]. intros g Hg.
      destruct g as [[[? ?] ?] [fields rest]]. unfold ok_fields in Hg. cbn in Hg.
      destruct (fst hd) eqn:Hp.
      + destruct rest; apply spec_ret; unfold ok_pat; cbn; exact Hg.
      + destruct rest; [apply spec_ret; unfold ok_pat; cbn; exact Hg|].
        destruct (snd hd) eqn:Hs; [apply spec_fail_at|]. exfalso. exact (Hhd eq_refl eq_refl).
    - (* p_fields *)
      cbn [Parser.p_fields]. sbind e. destruct e; [apply spec_ret; reflexivity|].
      sbind d. destruct d.
      { sbind_. apply spec_ret. reflexivity. }
      eapply spec_bind; [apply spec_p_field_operation|]. intros ops [Hops _].
      sbind_.
      eapply spec_bind; [exact Hpat|]. intros p Hp.
      sbind e2. destruct e2.
      { apply spec_ret. unfold ok_fields. cbn. rewrite Hops, Hp. reflexivity. }
      sbind_. sbind d2. destruct d2.
      { sbind_. apply spec_ret. unfold ok_fields. cbn. rewrite Hops, Hp. reflexivity. }
      eapply spec_bind; [exact Hfields|]. intros more Hm.
      apply spec_ret. unfold ok_fields in *. cbn. rewrite Hops, Hp, Hm. reflexivity.
    - (* p_enum *)
      cbn [Parser.p_enum]. sbind path. sbind paren.
      eapply spec_bind with (P := ok_elems 0%N).
      { destruct paren.
        - eapply spec_bind; [apply spec_in_group; apply Helems|]. intros g Hg. apply spec_ret. exact Hg.
        - apply spec_ret. reflexivity. }
      intros elems He. sbind id. apply spec_ret. exact He.
    - (* p_tuple *)
      cbn [Parser.p_tuple].
      eapply spec_bind; [apply spec_in_group; apply Helems|]. intros g Hg.
      destruct g as [[[? ?] ?] elems]. sbind id. apply spec_ret. exact Hg.
    - (* p_elems *)
      intros pos. cbn [Parser.p_elems]. sbind e. destruct e; [apply spec_ret; reflexivity|].
      eapply spec_bind; [apply spec_fork; exact Hpat|]. intros fk _.
      eapply spec_bind with (P := ok_elem pos).
      { destruct fk as [[fkp after]|]; [|apply Hindexed].
        destruct (negb (peek_punct ":" after)); [|apply Hindexed].
        eapply spec_bind; [exact Hpat|]. intros p1 Hp1. apply spec_ret. unfold ok_elem, elem_ok. cbn. exact Hp1. }
      intros el Hel.
      sbind e2.
      eapply spec_bind with (P := fun _ => True).
      { destruct e2; [apply spec_ret; exact I|]. sbind_. apply spec_ret. exact I. }
      intros _ _.
      eapply spec_bind; [apply Helems|]. intros more Hm.
      apply spec_ret. unfold ok_elems, ok_elem in *. cbn [elems_ok]. rewrite Hel, Hm. reflexivity.
    - (* p_indexed *)
      intros pos. cbn [Parser.p_indexed].
      eapply spec_bind; [apply spec_p_field_operation|]. intros ops [Hops Hroot].
      destruct (root_is ops pos) as [b|] eqn:Hr; [|exfalso; exact (Hroot pos Hr)].
      destruct b; [|apply spec_fail].
      sbind_. eapply spec_bind; [exact Hpat|]. intros p Hp.
      apply spec_ret. unfold ok_elem, elem_ok. cbn [fst snd]. rewrite (fop_ok_tail _ Hops), Hp.
      unfold root_is in Hr. unfold root_at. destruct (root_field_name ops) as [[|i]|]; try discriminate.
      inversion Hr as [Hi]. rewrite Hi. reflexivity.
    - (* p_slice *)
      cbn [Parser.p_slice].
      eapply spec_bind; [apply spec_in_group; exact Hlist|]. intros g Hg.
      destruct g as [[[? ?] ?] elems]. sbind id. apply spec_ret. exact Hg.
    - (* p_list *)
      cbn [Parser.p_list]. sbind e. destruct e; [apply spec_ret; reflexivity|].
      eapply spec_bind; [exact Hpat|]. intros p Hp.
      sbind e2.
      eapply spec_bind with (P := fun _ => True).
      { destruct e2; [apply spec_ret; exact I|]. sbind_. apply spec_ret. exact I. }
      intros _ _.
      eapply spec_bind; [exact Hlist|]. intros more Hm.
      apply spec_ret. unfold ok_list in *. cbn. rewrite Hp, Hm. reflexivity.
    - (* p_set *)
      cbn [Parser.p_set]. sbind hash.
      eapply spec_bind; [apply spec_in_group; exact Hsetel|]. intros g Hg.
      destruct g as [[[? ?] ?] [elems rest]]. sbind id. apply spec_ret. exact Hg.
    - (* p_set_elems *)
      cbn [Parser.p_set_elems]. sbind e. destruct e; [apply spec_ret; reflexivity|].
      sbind d. destruct d.
      { sbind_. sbind c.
        eapply spec_bind with (P := fun _ => True).
        { destruct c; [sbind_; apply spec_ret; exact I|apply spec_ret; exact I]. }
        intros _ _. apply spec_ret. reflexivity. }
      eapply spec_bind; [exact Hpat|]. intros p Hp.
      sbind e2. destruct e2.
      { apply spec_ret. unfold ok_set_elems. cbn. rewrite Hp. reflexivity. }
      sbind_. sbind d2. destruct d2.
      { sbind_. apply spec_ret. unfold ok_set_elems. cbn. rewrite Hp. reflexivity. }
      eapply spec_bind; [exact Hsetel|]. intros more Hm.
      apply spec_ret. unfold ok_set_elems in *. cbn. rewrite Hp, Hm. reflexivity.
    - (* p_map *)
      cbn [Parser.p_map]. sbind_.
      eapply spec_bind; [apply spec_in_group; exact Hmapen|]. intros g Hg.
      destruct g as [[[? ?] ?] [entries rest]]. sbind id. apply spec_ret. exact Hg.
    - (* p_map_entries *)
      cbn [Parser.p_map_entries]. sbind e. destruct e; [apply spec_ret; reflexivity|].
      sbind d. destruct d.
      { sbind_. apply spec_ret. reflexivity. }
      sbind k. sbind_.
      eapply spec_bind; [exact Hpat|]. intros p Hp.
      sbind e2. destruct e2.
      { apply spec_ret. unfold ok_entries. cbn. rewrite Hp. reflexivity. }
      sbind_. sbind d2. destruct d2.
      { sbind_. apply spec_ret. unfold ok_entries. cbn. rewrite Hp. reflexivity. }
      eapply spec_bind; [exact Hmapen|]. intros more Hm.
      apply spec_ret. unfold ok_entries in *. cbn. rewrite Hp, Hm. reflexivity.
  Qed.

  Lemma spec_p_pattern f : spec (p_pattern f) ok_pat.
  Proof. exact (proj1 (all_specs_holds f)). Qed.

  (* ---- the top level ----------------------------------------------------------------- *)

  Notation parse_top_from := (parse_top_from regex join_ok parse_expr parse_path parse_closure).

  Lemma parse_top_no_panic fuel start ts site : parse_top_from fuel start ts <> TPanic site.
  Proof.
    unfold Parser.parse_top_from.
    match goal with |- context [?m SCall ?st] =>
      assert (H : spec m (fun r => ok_pat (snd r))) end.
    { sbind v. sbind_. eapply spec_bind; [apply spec_p_pattern|]. intros q Hq. apply spec_ret. exact Hq. }
    match goal with |- context [?m SCall ?st] => specialize (H SCall st); destruct (m SCall st) as [[v p] st'| | |] end.
    - destruct (unx st'); [discriminate|]. destruct (toks st'); discriminate.
    - discriminate.
    - contradiction.
    - discriminate.
  Qed.

  Lemma parse_top_ok fuel start ts v p : parse_top_from fuel start ts = TOk v p -> tree_ok p = true.
  Proof.
    unfold Parser.parse_top_from.
    match goal with |- context [?m SCall ?st] =>
      assert (H : spec m (fun r => ok_pat (snd r))) end.
    { sbind v0. sbind_. eapply spec_bind; [apply spec_p_pattern|]. intros q Hq. apply spec_ret. exact Hq. }
    match goal with |- context [?m SCall ?st] => specialize (H SCall st); destruct (m SCall st) as [[v' p'] st'| | |] end;
      try discriminate.
    destruct (unx st'); [discriminate|]. destruct (toks st'); [|discriminate].
    intros E; inversion E; subst. exact H.
  Qed.
End ParserP.

(* ---- the expander has no reachable panic site on a well-formed tree -------------------- *)

Lemma existsb_false_forall {A} (f : A -> bool) l : (forall x, In x l -> f x = false) -> existsb f l = false.
Proof. induction l as [|x r IH]; cbn; intros H; [reflexivity|]. rewrite H by (left; reflexivity). apply IH. intros; apply H; right; assumption. Qed.

Lemma in_mapi_from {A B} (f : nat -> A -> B) l : forall n y, In y (mapi_from f n l) -> exists i x, In x l /\ y = f i x.
Proof.
  induction l as [|x l IH]; cbn; intros n y H; [destruct H|].
  destruct H as [<-|H]; [exists n, x; split; [left; reflexivity|reflexivity]|].
  destruct (IH _ _ H) as (i & x' & Hin & ->). exists i, x'. split; [right; exact Hin|reflexivity].
Qed.

Lemma with_tail_no_panic o base noops k :
  tail_ok o = true -> (forall e, stmt_panics (k e) = false) -> stmt_panics (with_tail o base noops k) = false.
Proof.
  unfold tail_ok, with_tail. intros Ht Hk.
  destruct (tail_operations o); try discriminate; [apply Hk|].
  rewrite Ht. apply Hk.
Qed.

Lemma expand_no_panic j : forall p, pat_ok p = true -> forall e, stmt_panics (expand j p e) = false.
Proof.
  induction p using pat_ind'; intros Hok ve; try reflexivity.
  - (* struct *)
    cbn [pat_ok] in Hok. rewrite forallb_forall in Hok.
    destruct path as [path|]; cbn [expand].
    + assert (Hroots : existsb (fun r : option field_name => match r with None => true | Some f => negb (field_name_index_ok f) end)
                         (map (fun fp : fop * pat => root_field_name (fst fp)) fields) = false).
      { apply existsb_false_forall. intros r Hr. apply in_map_iff in Hr as (fp & <- & Hin).
        specialize (Hok fp Hin). apply andb_true_iff in Hok as [Hf _]. unfold fop_ok in Hf.
        apply andb_true_iff in Hf as [Hf _]. destruct (root_field_name (fst fp)); [|discriminate]. rewrite Hf. reflexivity. }
      rewrite Hroots. cbn [stmt_panics]. apply existsb_false_forall. intros s Hs.
      apply in_map_iff in Hs as ([ops fpat] & <- & Hin).
      specialize (Hok _ Hin). cbn in Hok. apply andb_true_iff in Hok as [Hf Hp].
      pose proof Hf as Hf'. unfold fop_ok in Hf'. apply andb_true_iff in Hf' as [Hr _].
      destruct (root_field_name ops); [|discriminate].
      apply with_tail_no_panic; [apply fop_ok_tail; exact Hf|].
      rewrite Forall_forall in H. intros e'. apply (H _ Hin). exact Hp.
    + cbn [stmt_panics]. apply existsb_false_forall. intros s Hs.
      apply in_map_iff in Hs as ([ops fpat] & <- & Hin).
      specialize (Hok _ Hin). cbn in Hok. apply andb_true_iff in Hok as [Hf Hp].
      pose proof Hf as Hf'. unfold fop_ok in Hf'. apply andb_true_iff in Hf' as [Hr _].
      destruct (root_field_name ops); [|discriminate]. rewrite Hr.
      apply with_tail_no_panic; [apply fop_ok_tail; exact Hf|].
      rewrite Forall_forall in H. intros e'. apply (H _ Hin). exact Hp.
  - (* enum *)
    cbn [pat_ok] in Hok. rewrite forallb_forall in Hok. cbn [expand].
    destruct elems as [|el0 els]; [reflexivity|].
    cbn [stmt_panics]. apply existsb_false_forall. intros s Hs.
    apply in_flat_map in Hs as (l & Hl & Hs).
    unfold mapi in Hl. apply in_mapi_from in Hl as (i & [ops ep] & Hin & ->).
    pose proof (Hok _ Hin) as Hx. cbn in Hx. apply andb_true_iff in Hx as [Ht Hp].
    rewrite Forall_forall in H. pose proof (H _ Hin) as Hep. cbn in Hep.
    destruct (is_wild ep); [destruct Hs|].
    destruct ops as [o|]; destruct Hs as [<-|[]].
    + apply with_tail_no_panic; [exact Ht|]. intros; apply Hep; exact Hp.
    + apply Hep; exact Hp.
  - (* tuple *)
    cbn [pat_ok] in Hok. rewrite forallb_forall in Hok. cbn [expand stmt_panics].
    apply existsb_false_forall. intros s Hs.
    apply in_flat_map in Hs as (l & Hl & Hs).
    unfold mapi in Hl. apply in_mapi_from in Hl as (i & [ops ep] & Hin & ->).
    pose proof (Hok _ Hin) as Hx. cbn in Hx. apply andb_true_iff in Hx as [Ht Hp].
    rewrite Forall_forall in H. pose proof (H _ Hin) as Hep. cbn in Hep.
    destruct (is_wild ep); [destruct Hs|].
    destruct ops as [o|]; destruct Hs as [<-|[]].
    + apply with_tail_no_panic; [exact Ht|]. intros; apply Hep; exact Hp.
    + apply Hep; exact Hp.
  - (* slice *)
    cbn [pat_ok] in Hok. rewrite forallb_forall in Hok. cbn [expand stmt_panics].
    apply existsb_false_forall. intros s Hs.
    apply in_flat_map in Hs as (l & Hl & Hs).
    unfold mapi in Hl. apply in_mapi_from in Hl as (i & x & Hin & ->).
    destruct (is_rest_range x || is_wild x); [destruct Hs|]. destruct Hs as [<-|[]].
    rewrite Forall_forall in H. apply (H _ Hin). apply Hok. exact Hin.
  - (* set *)
    cbn [pat_ok] in Hok. rewrite forallb_forall in Hok. cbn [expand stmt_panics].
    apply existsb_false_forall. intros s Hs. apply in_map_iff in Hs as (el & <- & Hin).
    rewrite Forall_forall in H. apply (H _ Hin). apply Hok. exact Hin.
  - (* map *)
    cbn [pat_ok] in Hok. rewrite forallb_forall in Hok. cbn [expand stmt_panics].
    rewrite existsb_app. apply orb_false_iff. split.
    + destruct rest; reflexivity.
    + apply existsb_false_forall. intros s Hs. apply in_map_iff in Hs as ([k vp] & <- & Hin).
      cbn [stmt_panics]. rewrite Forall_forall in H. apply (H _ Hin). apply (Hok _ Hin).
Qed.

(* ---- the front end as a whole never panics ------------------------------------------- *)

Theorem front_end_no_panic regex join_ok pe pp pc start ts site :
  front_end_from regex join_ok pe pp pc start ts <> FEPanic site.
Proof.
  unfold front_end_from.
  destruct (parse_top_from regex join_ok pe pp pc (fuel_for ts) start ts) as [v p|sp|s|] eqn:E; try discriminate.
  - rewrite (expand_no_panic join_ok p (tree_ok_pat_ok _ (parse_top_ok _ _ _ _ _ _ _ _ _ _ E))). discriminate.
  - exfalso. exact (parse_top_no_panic _ _ _ _ _ _ _ _ _ E).
Qed.
