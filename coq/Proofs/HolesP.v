(* HolesP.v — where the expansion splices the expression under test (C14, C11).

   The asserted expression is an arbitrary Rust expression: a struct literal, a binary or cast
   expression, a closure, a range ...  Spliced bare next to an operator of the template it is
   re-associated (`& a + b` is `(&a) + b`) or not even allowed (`match & S { .. } { .. }`): findings
   F13 and F15.  This file shows that every template splices it as a COMPLETE OPERAND: immediately
   between an opening delimiter or argument comma and a closing delimiter or argument comma, and that
   the only other holes (the prefix / postfix wrappers of field operations) never receive it bare.

   1. `tpl_delimits t k`: a decidable check on a template string; `tpl_delimits_tokens` says what it
      means for the token sequence `tpl sp t args`;
   2. `stmt_site` / `actual_site` / `field_site`: for every generator of Print.v the template in
      which the value is spliced, proved to be what pp_stmt / pp_actual / pp_vexpr print, and
      proved delimiting (by evaluation of the check on each template);
   3. `expand_values_ok`: whatever the pattern, every value the expander hands to a statement is
      the asserted expression itself or an expression in which it occurs only as `(e).field`. *)
From ASModel Require Import Base Tokens Report Ast IR Nodes Expand Print.
From ASProofs Require Import PatInd StmtInd BlameP.
Local Open Scope string_scope.
Local Open Scope list_scope.

(* ---- 1. delimiting templates ------------------------------------------------------------ *)

Definition opener_word (w : string) : bool := String.eqb w "(" || String.eqb w "[" || String.eqb w ",".
Definition closer_word (w : string) : bool := String.eqb w ")" || String.eqb w "]" || String.eqb w ",".
Definition hole_word (k : nat) (w : string) : bool :=
  match w with
  | String c (String d EmptyString) => Ascii.eqb c "$" && Nat.eqb (digit_val d) k
  | _ => false
  end.

Fixpoint holes_delimited (k : nat) (prev : option string) (ws : list string) : bool :=
  match ws with
  | [] => true
  | w :: r =>
      (if hole_word k w
       then match prev with Some p => opener_word p | None => false end
            && match r with n :: _ => closer_word n | [] => false end
       else true)
      && holes_delimited k (Some w) r
  end.

Definition tpl_delimits (t : string) (k : nat) : bool := holes_delimited k None (split_on " " t).

Definition last_word (prev : option string) (ws : list string) : option string :=
  match rev ws with x :: _ => Some x | [] => prev end.

Lemma last_word_cons prev w ws : last_word prev (w :: ws) = last_word (Some w) ws.
Proof.
  unfold last_word. cbn [rev]. destruct (rev ws) as [|x r] eqn:E; cbn; reflexivity.
Qed.

Lemma holes_delimited_spec k : forall ws prev,
  holes_delimited k prev ws = true ->
  forall ws1 w ws2, ws = ws1 ++ w :: ws2 -> hole_word k w = true ->
  (exists p, last_word prev ws1 = Some p /\ opener_word p = true) /\
  (exists n r, ws2 = n :: r /\ closer_word n = true).
Proof.
  induction ws as [|x ws IH]; intros prev H ws1 w ws2 E Hw.
  - destruct ws1; discriminate.
  - cbn [holes_delimited] in H. apply andb_prop in H as [Hx Hr].
    destruct ws1 as [|y ws1]; cbn [app] in E; inversion E; subst.
    + rewrite Hw in Hx. apply andb_prop in Hx as [Hp Hn]. split.
      * destruct prev as [p|]; [|discriminate]. exists p. split; [reflexivity|exact Hp].
      * destruct ws2 as [|n r]; [discriminate|]. exists n, r. split; [reflexivity|exact Hn].
    + rewrite last_word_cons. eapply IH; [exact Hr|reflexivity|exact Hw].
Qed.

(* ... and what that means for the tokens *)
Definition open_tok (sp : span) (a : tok) : Prop :=
  a = TOpen DParen sp \/ a = TOpen DBracket sp \/ a = TPunct "," false sp.
Definition close_tok (sp : span) (b : tok) : Prop :=
  b = TClose DParen sp \/ b = TClose DBracket sp \/ b = TPunct "," false sp.

Lemma opener_word_toks sp args w : opener_word w = true -> exists a, word_toks sp args w = [a] /\ open_tok sp a.
Proof.
  unfold opener_word. intros H. apply orb_prop in H as [H|H]; [apply orb_prop in H as [H|H]|];
    apply String.eqb_eq in H; subst w; eexists; (split; [reflexivity|]); unfold open_tok; auto.
Qed.

Lemma closer_word_toks sp args w : closer_word w = true -> exists b, word_toks sp args w = [b] /\ close_tok sp b.
Proof.
  unfold closer_word. intros H. apply orb_prop in H as [H|H]; [apply orb_prop in H as [H|H]|];
    apply String.eqb_eq in H; subst w; eexists; (split; [reflexivity|]); unfold close_tok; auto.
Qed.

Lemma hole_word_toks sp args k w : hole_word k w = true -> word_toks sp args w = nth k args [].
Proof.
  unfold hole_word. destruct w as [|c [|d [|? ?]]]; try discriminate. intros H.
  apply andb_prop in H as [Hc Hd]. apply Nat.eqb_eq in Hd. cbn [word_toks]. rewrite Hc, Hd. reflexivity.
Qed.

Lemma last_word_split prev ws p : last_word prev ws = Some p -> ws <> [] -> exists ws', ws = ws' ++ [p].
Proof.
  unfold last_word. intros H Hne. destruct (rev ws) as [|x r] eqn:E.
  - apply (f_equal (@rev string)) in E. rewrite rev_involutive in E. cbn in E. contradiction.
  - inversion H; subst. exists (rev r). apply (f_equal (@rev string)) in E. rewrite rev_involutive in E. exact E.
Qed.

(* every splice of argument k stands between an opening delimiter (or argument comma) and a closing one *)
Theorem tpl_delimits_tokens sp t args k :
  tpl_delimits t k = true ->
  forall ws1 w ws2, split_on " " t = ws1 ++ w :: ws2 -> hole_word k w = true ->
  exists pre a b post,
    tpl sp t args = pre ++ [a] ++ nth k args [] ++ [b] ++ post /\ open_tok sp a /\ close_tok sp b.
Proof.
  intros H ws1 w ws2 E Hw. unfold tpl_delimits in H.
  destruct (holes_delimited_spec k _ _ H ws1 w ws2 E Hw) as [(p & Hp & Hop) (n & r & -> & Hcl)].
  assert (Hne : ws1 <> []) by (intros ->; cbn in Hp; discriminate).
  destruct (last_word_split _ _ _ Hp Hne) as (ws' & ->).
  destruct (opener_word_toks sp args p Hop) as (a & Ta & Oa).
  destruct (closer_word_toks sp args n Hcl) as (b & Tb & Cb).
  exists (flat_map (word_toks sp args) ws'), a, b, (flat_map (word_toks sp args) r).
  split; [|split; assumption].
  unfold tpl. rewrite E. rewrite !flat_map_app. cbn [flat_map]. rewrite Ta, Tb, (hole_word_toks sp args k w Hw).
  rewrite app_nil_r, <- !app_assoc. reflexivity.
Qed.

(* ---- 2. the templates of Print.v --------------------------------------------------------- *)

(* (span of the template's own tokens, template, arguments, index of the value's hole) *)
Definition site := (span * string * list (list tok) * nat)%type.

Definition site_ok (s : site) (value : list tok) (printed : list tok) : Prop :=
  let '(sp, t, args, k) := s in
  tpl_delimits t k = true /\ nth k args [] = value /\ printed = tpl sp t args.

Definition stmt_site (s : stmt) : option (site * vexpr) :=
  match s with
  | SNop | SPanic _ | SSeq _ => None
  | SSimple sp e pt p => Some ((sp, "if ! matches ! ( $0 , $1 ) { $2 }", [pp_vexpr e; pt; pp_push p], 0), e)
  | SString sp e lit lsp p =>
      Some ((sp, "{ match & ( $0 ) { __assert_struct_scrutinee => { let __assert_struct_tmp = __assert_struct_scrutinee ; let __assert_struct_actual = ( * __assert_struct_tmp ) . as_ref ( ) ; if ! matches ! ( __assert_struct_actual , $1 ) { $2 } } } }",
             [pp_vexpr e; [TLit lit lsp]; pp_push p], 0), e)
  | SCmp sp op e x p =>
      Some ((sp, ("# [ allow ( clippy :: nonminimal_bool ) ] if ! ( ( $0 ) . " ++ cmp_method op ++ " ( & ( $1 ) ) ) { $2 }")%string,
             [pp_vexpr e; u_toks x; pp_push p], 0), e)
  | SUnit sp e path p => Some ((sp, "if ! matches ! ( $0 , $1 ) { $2 }", [pp_vexpr e; p_toks path; pp_push p], 0), e)
  | SVariant sp e path binders body p =>
      Some ((sp, "# [ allow ( unreachable_patterns ) ] match & ( $0 ) { $1 ( $2 ) => { $3 } , _ => { $4 } }",
             [pp_vexpr e; p_toks path; sep_by (comma sp) (map (pp_binder NElem) binders); flat_map pp_stmt body; pp_push p], 0), e)
  | SStruct sp e path fields rest body p =>
      Some ((sp, "# [ allow ( unreachable_patterns ) ] match & ( $0 ) { $1 { $2 $3 } => { $4 } , _ => { $5 } }",
             [pp_vexpr e; p_toks path;
              sep_by (comma sp) (map (fun f => (pp_field_name f ++ [TPunct ":" false sp] ++ pp_field_binder f)%list) fields);
              (if rest then match fields with [] => tpl SCall ".." [] | _ => tpl SCall ", .." [] end else []);
              flat_map pp_stmt body; pp_push p], 0), e)
  | STuple e binders body =>
      Some ((SCall, "# [ allow ( unreachable_patterns ) ] match & ( $0 ) { ( $1 ) => { $2 } , _ => unreachable ! ( $3 ) , }",
             [pp_vexpr e; term_by (comma SCall) (map (pp_binder NTupleElem) binders); flat_map pp_stmt body;
              str_lit "Plain tuple match should always succeed" SCall], 0), e)
  | SRange sp e r _ p => Some ((sp, "match & ( $0 ) { $1 => { } , _ => { $2 } }", [pp_vexpr e; r; pp_push p], 0), e)
  | SSlice e parts body p =>
      Some ((SCall, "match ( $0 ) . as_slice ( ) { [ $1 ] => { $2 } _ => { $3 } }",
             [pp_vexpr e; sep_by (comma SCall) (map pp_part parts); flat_map pp_stmt body; pp_push p], 0), e)
  | SRegex sp e pattern p =>
      Some ((sp, "{ use :: assert_struct :: Like as _ ; let __assert_struct_re = :: assert_struct :: __macro_support :: Regex :: new ( $0 ) . expect ( concat ! ( $1 , $0 ) ) ; if ! ( $2 ) . like ( & __assert_struct_re ) { $3 } }",
             [str_lit pattern SCall; str_lit "Invalid regex pattern: " sp; pp_vexpr e; pp_push p], 2), e)
  | SLike sp e x p =>
      Some ((sp, "{ use :: assert_struct :: Like as _ ; if ! ( $0 ) . like ( & $1 ) { $2 } }", [pp_vexpr e; u_toks x; pp_push p], 0), e)
  | SClosure sp e c p =>
      Some ((sp, "{ if ! :: assert_struct :: __macro_support :: check_closure_condition ( $0 , $1 ) { $2 } }",
             [pp_vexpr e; u_toks c; pp_push p], 0), e)
  | SMapLen sp e n p => Some ((sp, "if ( $0 ) . len ( ) != $1 { $2 }", [pp_vexpr e; usize_lit n; pp_push p], 0), e)
  | SMapGet sp e k _ _ =>
      Some ((sp, (if u_strlit k then "( $0 ) . get ( & ( $1 ) . to_string ( ) )" else "( $0 ) . get ( & $1 )"),
             [pp_vexpr e; u_toks k], 0), e)
  | SSet e preds rest node =>
      Some ((SCall, "{ let __set_src = & ( $0 ) ; let __set_coll : :: std :: vec :: Vec < _ > = __set_src . into_iter ( ) . collect ( ) ; $1 let __set_preds : & [ & dyn :: std :: ops :: Fn ( usize ) -> bool ] = & [ $2 ] ; :: assert_struct :: __macro_support :: set_match ( __set_coll . len ( ) , $3 , __set_preds , & mut __report , & $4 , ) ; }",
             [pp_vexpr e;
              flat_map (fun x => x)
                (mapi (fun i pr =>
                         tpl SCall "let $0 = | __set_idx : usize | -> bool { let __set_elem = __set_coll [ __set_idx ] ; # [ allow ( unused_mut ) ] let mut __report = :: assert_struct :: __macro_support :: ErrorReport :: new_probe ( ) ; $1 __report . is_empty ( ) } ;"
                             [ident (name_str (NSetPred i)); pp_stmt pr]) preds);
              sep_by (comma SCall) (mapi (fun i _ => tpl SCall "& $0" [ident (name_str (NSetPred i))]) preds);
              bool_tok rest; node_ident node], 0), e)
  end.

Ltac std_site :=
  unfold site_ok; split; [vm_compute; reflexivity|split; [reflexivity|cbn [pp_stmt pp_actual pp_vexpr]; reflexivity]].

(* the map lookup: the value is spliced in the `get` expression, which is itself argument 0 of the statement's template *)
Definition mapget_get (sp : span) (e : vexpr) (k : uexpr) : list tok :=
  tpl sp (if u_strlit k then "( $0 ) . get ( & ( $1 ) . to_string ( ) )" else "( $0 ) . get ( & $1 )") [pp_vexpr e; u_toks k].

Lemma mapget_outer sp e k body missing :
  pp_stmt (SMapGet sp e k body missing) =
  tpl sp "match $0 { Some ( __map_value ) => { $1 } None => { $2 } }" [mapget_get sp e k; pp_stmt body; pp_push missing].
Proof. cbn [pp_stmt]. unfold mapget_get. destruct (u_strlit k); reflexivity. Qed.

Definition stmt_printed (s : stmt) : list tok :=
  match s with SMapGet sp e k _ _ => mapget_get sp e k | _ => pp_stmt s end.

Lemma stmt_site_ok_match : forall s,
  match stmt_site s with Some (st, e) => site_ok st (pp_vexpr e) (stmt_printed s) | None => True end.
Proof.
  destruct s; cbn [stmt_site stmt_printed].
  - exact I.
  - exact I.
  - (* SSimple *) std_site.
  - (* SString *) std_site.
  - (* SCmp *)
    unfold site_ok. split; [destruct op; vm_compute; reflexivity|].
    split; [reflexivity|cbn [pp_stmt]; reflexivity].
  - (* SUnit *) std_site.
  - (* SVariant *) std_site.
  - (* SStruct *) std_site.
  - exact I.
  - (* STuple *) std_site.
  - (* SRange *) std_site.
  - (* SSlice *) std_site.
  - (* SRegex *) std_site.
  - (* SLike *) std_site.
  - (* SClosure *) std_site.
  - (* SMapLen *) std_site.
  - (* SMapGet *)
    unfold site_ok. split; [destruct (u_strlit key); vm_compute; reflexivity|]. split; reflexivity.
  - (* SSet *) std_site.
Qed.

Theorem stmt_site_ok : forall s st e, stmt_site s = Some (st, e) -> site_ok st (pp_vexpr e) (stmt_printed s).
Proof. intros s st e H. pose proof (stmt_site_ok_match s) as M. rewrite H in M. exact M. Qed.

Definition actual_site (sp : span) (a : actual) : option (site * vexpr) :=
  match a with
  | ADebug e => Some ((SCall, "format ! ( ""{:?}"" , $0 )", [pp_vexpr e], 0), e)
  | ADebugRef e => Some ((SCall, "format ! ( ""{:?}"" , & ( $0 ) )", [pp_vexpr e], 0), e)
  | AMapLen e => Some ((SCall, "format ! ( $0 , ( $1 ) . len ( ) )", [str_lit "map with {} entries" SCall; pp_vexpr e], 1), e)
  | ADebugActual | AMissingKey => None
  end.

Lemma actual_site_ok_match : forall sp a,
  match actual_site sp a with Some (st, e) => site_ok st (pp_vexpr e) (pp_actual a) | None => True end.
Proof. intros sp a. destruct a; cbn [actual_site]; try exact I; std_site. Qed.

Theorem actual_site_ok : forall sp a st e, actual_site sp a = Some (st, e) -> site_ok st (pp_vexpr e) (pp_actual a).
Proof. intros sp a st e H. pose proof (actual_site_ok_match sp a) as M. rewrite H in M. exact M. Qed.

(* the field access of a wildcard struct pattern: `( e ) . f` *)
Theorem field_site_ok : forall x f,
  site_ok (SCall, "( $0 ) . $1", [pp_vexpr x; pp_field_name f], 0) (pp_vexpr x) (pp_vexpr (VField x f)).
Proof.
  intros x f. unfold site_ok. split; [vm_compute; reflexivity|]. split; [reflexivity|]. cbn [pp_vexpr]. reflexivity.
Qed.

(* ---- 3. the other holes never receive the asserted expression bare ------------------------ *)

(* `VRoot` occurs only as the operand of a field access `( e ) . f` *)
Fixpoint guarded (e : vexpr) : bool :=
  match e with
  | VRoot _ => false
  | VBind _ | VFieldBind _ => true
  | VField x _ => match x with VRoot _ => true | _ => guarded x end
  | VRef x | VDeref _ x | VMethod _ x _ _ _ | VAwait _ x | VNamed _ x _ _ | VUnnamed _ x _ | VIndex _ x _ => guarded x
  end.

Definition value_ok (e : vexpr) : Prop := (exists toks, e = VRoot toks) \/ guarded e = true.

Definition push_values (p : push) : list vexpr :=
  match ps_actual p with ADebug e | ADebugRef e | AMapLen e => [e] | ADebugActual | AMissingKey => [] end.

(* every value handed to a template, in a statement and the statements nested in it *)
Fixpoint stmt_values (s : stmt) : list vexpr :=
  match s with
  | SNop | SPanic _ => []
  | SSimple _ e _ p | SString _ e _ _ p | SCmp _ _ e _ p | SUnit _ e _ p | SRange _ e _ _ p
  | SRegex _ e _ p | SLike _ e _ p | SClosure _ e _ p | SMapLen _ e _ p => e :: push_values p
  | SVariant _ e _ _ body p | SStruct _ e _ _ _ body p | SSlice e _ body p => e :: flat_map stmt_values body ++ push_values p
  | SSeq body => flat_map stmt_values body
  | STuple e _ body => e :: flat_map stmt_values body
  | SMapGet _ e _ body missing => e :: stmt_values body ++ push_values missing
  | SSet e preds _ _ => e :: flat_map stmt_values preds
  end.

Lemma guarded_field e f : value_ok e -> guarded (VField e f) = true.
Proof. intros [[toks ->]|H]; cbn [guarded]; [reflexivity|]. destruct e; try exact H; reflexivity. Qed.

Lemma guarded_iter_deref n sp e : guarded e = true -> guarded (Nat.iter n (VDeref sp) e) = true.
Proof. intros H. induction n as [|n IH]; cbn [Nat.iter guarded]; assumption. Qed.

Lemma guarded_apply_ops : forall o base, guarded base = true -> guarded (apply_ops base o) = true.
Proof.
  induction o using fop_ind'; intros base Hb; cbn [apply_ops guarded]; try exact Hb.
  - apply (guarded_iter_deref (S c)). exact Hb.
  - revert base Hb. induction H as [|o ops Ho Hops IH]; intros base Hb; cbn [fold_left]; [exact Hb|].
    apply IH. apply Ho. exact Hb.
Qed.

Lemma Forall_flat_map {A B} (P : B -> Prop) (f : A -> list B) l :
  Forall (fun x => Forall P (f x)) l -> Forall P (flat_map f l).
Proof. intros H. induction H; cbn [flat_map]; [constructor|apply Forall_app; split; assumption]. Qed.

Lemma Forall_mapi_from_flat {A} (P : vexpr -> Prop) (f : nat -> A -> list stmt) : forall (l : list A) i,
  Forall (fun x => forall k, Forall P (flat_map stmt_values (f k x))) l ->
  Forall P (flat_map stmt_values (flat_map (fun x => x) (mapi_from f i l))).
Proof.
  induction l as [|x l IH]; intros i H; cbn; [constructor|].
  inversion H as [|? ? Hx Hl]; subst. rewrite flat_map_app. apply Forall_app. split; [apply Hx|apply IH; exact Hl].
Qed.

Section ExpandValues.
  Variable j : bool.

  Lemma with_tail_values ops base noops fpat :
    guarded base = true -> value_ok noops ->
    (forall e, value_ok e -> Forall value_ok (stmt_values (expand j fpat e))) ->
    Forall value_ok (stmt_values (with_tail ops base noops (expand j fpat))).
  Proof.
    intros Hb Hn H. unfold with_tail. destruct (tail_operations ops) as [|t|]; cbn [stmt_values]; try constructor.
    - apply H. exact Hn.
    - destruct (ops_index_ok t); cbn [stmt_values]; [|constructor].
      apply H. right. apply guarded_apply_ops. exact Hb.
  Qed.

  Ltac leaf He := cbn [expand stmt_values push_values mk_push ps_actual]; repeat (apply Forall_cons; [exact He|]); apply Forall_nil.

  Theorem expand_values_ok : forall p e, value_ok e -> Forall value_ok (stmt_values (expand j p e)).
  Proof.
    intros p; induction p as
        [id x|id l s v|id op s x|id x parts|id x s|id x|id|id c
        |id path rest fields IH|id path elems IH|id sp elems IH|id sp elems IH|id sp rest elems IH|id sp rest entries IH]
        using pat_ind'; intros e He; try (leaf He).
    - (* struct *)
      destruct path as [path|]; cbn [expand].
      + destruct (existsb _ _); cbn [stmt_values push_values mk_push ps_actual]; [constructor|].
        apply Forall_cons; [exact He|]. apply Forall_app. split; [|cbn [push_values mk_push ps_actual]; apply Forall_cons; [exact He|apply Forall_nil]].
        rewrite flat_map_concat_map, map_map, <- flat_map_concat_map. apply Forall_flat_map.
        apply Forall_forall. intros [ops fpat] Hin. cbn.
        destruct (root_field_name ops); [|constructor].
        apply with_tail_values; [reflexivity|right; reflexivity|].
        exact (proj1 (Forall_forall _ _) IH (ops, fpat) Hin).
      + cbn [stmt_values]. rewrite flat_map_concat_map, map_map, <- flat_map_concat_map. apply Forall_flat_map.
        apply Forall_forall. intros [ops fpat] Hin. cbn.
        destruct (root_field_name ops); [|constructor]. destruct (field_name_index_ok f); [|constructor].
        apply with_tail_values; [apply guarded_field; exact He|right; change (guarded (VField e f) = true); apply guarded_field; exact He|].
        exact (proj1 (Forall_forall _ _) IH (ops, fpat) Hin).
    - (* enum *)
      destruct elems as [|el elems]; [leaf He|].
      cbn [expand stmt_values push_values mk_push ps_actual]. apply Forall_cons; [exact He|].
      apply Forall_app. split; [|cbn [push_values mk_push ps_actual]; apply Forall_cons; [exact He|apply Forall_nil]].
      unfold mapi. apply Forall_mapi_from_flat. apply Forall_forall. intros [ops ep] Hin k. cbn.
      destruct (is_wild ep); [constructor|].
      assert (Hp : forall e', value_ok e' -> Forall value_ok (stmt_values (expand j ep e')))
        by exact (proj1 (Forall_forall _ _) IH (ops, ep) Hin).
      destruct ops; cbn; rewrite app_nil_r; [apply with_tail_values; [reflexivity|right; reflexivity|exact Hp]|apply Hp; right; reflexivity].
    - (* tuple *)
      cbn [expand stmt_values]. apply Forall_cons; [exact He|].
      unfold mapi. apply Forall_mapi_from_flat. apply Forall_forall. intros [ops ep] Hin k. cbn.
      destruct (is_wild ep); [constructor|].
      assert (Hp : forall e', value_ok e' -> Forall value_ok (stmt_values (expand j ep e')))
        by exact (proj1 (Forall_forall _ _) IH (ops, ep) Hin).
      destruct ops; cbn; rewrite app_nil_r; [apply with_tail_values; [reflexivity|right; reflexivity|exact Hp]|apply Hp; right; reflexivity].
    - (* slice *)
      cbn [expand stmt_values push_values mk_push ps_actual]. apply Forall_cons; [exact He|].
      apply Forall_app. split; [|cbn [push_values mk_push ps_actual]; apply Forall_cons; [exact He|apply Forall_nil]].
      unfold mapi. apply Forall_mapi_from_flat. apply Forall_forall. intros el Hin k.
      destruct (is_rest_range el || is_wild el); cbn; [constructor|]. rewrite app_nil_r.
      apply (proj1 (Forall_forall _ _) IH el Hin). right. reflexivity.
    - (* set *)
      cbn [expand stmt_values]. apply Forall_cons; [exact He|].
      rewrite flat_map_concat_map, map_map, <- flat_map_concat_map. apply Forall_flat_map.
      apply Forall_forall. intros el Hin. apply (proj1 (Forall_forall _ _) IH el Hin). right. reflexivity.
    - (* map *)
      cbn [expand stmt_values]. rewrite flat_map_app. apply Forall_app. split.
      + destruct rest; cbn; [constructor|]. repeat (apply Forall_cons; [exact He|]). constructor.
      + rewrite flat_map_concat_map, map_map, <- flat_map_concat_map. apply Forall_flat_map.
        apply Forall_forall. intros [k vp] Hin. cbn [stmt_values push_values mk_push ps_actual].
        apply Forall_cons; [exact He|]. rewrite app_nil_r.
        apply (proj1 (Forall_forall _ _) IH (k, vp) Hin). right. reflexivity.
  Qed.
End ExpandValues.

(* The asserted expression of the whole invocation *)
Corollary asserted_expression_values j p toks :
  Forall value_ok (stmt_values (expand j p (VRoot toks))).
Proof. apply expand_values_ok. left. exists toks. reflexivity. Qed.

(* non-vacuity: a pattern whose expansion splices the root in three different templates *)
Example three_sites :
  let u := {| u_text := "1"; u_strlit := false; u_span := SCall; u_toks := [TLit "1" SCall] |} in
  let p := PStruct 0 None true [(ONamed "a" SCall SCall, PCmp 1 OpLt SCall u)] in
  stmt_values (expand true p (VRoot [TIdent "v" SCall])) =
    [VRef (VField (VRoot [TIdent "v" SCall]) (FIdent "a" SCall)); VRef (VField (VRoot [TIdent "v" SCall]) (FIdent "a" SCall))].
Proof. vm_compute. reflexivity. Qed.
