(* Proofs about Model/Report.v (C05 label half, C06 fallback shape, C19 label half). *)
From ASModel Require Import Base Report.
Local Open Scope string_scope.

Fixpoint is_suffix (suf s : string) : bool :=
  String.eqb suf s || match s with EmptyString => false | String _ r => is_suffix suf r end.

Lemma is_suffix_refl s : is_suffix s s = true.
Proof. destruct s; cbn [is_suffix]; rewrite String.eqb_refl; reflexivity. Qed.

Lemma is_suffix_app p s : is_suffix s (p ++ s) = true.
Proof.
  induction p as [|c p IH]; cbn [String.append]; [apply is_suffix_refl|].
  cbn [is_suffix]. rewrite IH. apply orb_true_r.
Qed.

Lemma append_assoc (a b c : string) : (a ++ b) ++ c = a ++ (b ++ c).
Proof. induction a as [|x a IH]; cbn; [reflexivity|rewrite IH; reflexivity]. Qed.

(* C05: every label ends with the stored actual text, verbatim *)
Theorem label_ends_with_actual : forall k actual expected,
  is_suffix actual (error_label k actual expected) = true.
Proof.
  intros k actual expected. unfold error_label.
  destruct k as [n r|n r|n|n r|nm n r|p a|v|op v|p|p|e| |c];
    try (apply is_suffix_app).
  - destruct r; [apply is_suffix_app|].
    rewrite <- !append_assoc. apply is_suffix_app.
  - destruct r; apply is_suffix_app.
  - rewrite <- !append_assoc. apply is_suffix_app.
  - destruct op; try apply is_suffix_app. rewrite <- !append_assoc. apply is_suffix_app.
Qed.

(* C19, label half *)
Theorem label_eq_shows_expected : forall v actual e,
  error_label (KCmp OpEq v) actual (Some e) = "expected " ++ e ++ ", got " ++ actual.
Proof. reflexivity. Qed.

Theorem label_slice_exact : forall n actual,
  error_label (KSlice n false) actual None =
  "expected slice with " ++ nat_to_string n ++ " " ++ (if Nat.eqb n 1 then "element" else "elements") ++ ", got " ++ actual.
Proof. reflexivity. Qed.

Theorem label_slice_partial : forall n actual e,
  error_label (KSlice n true) actual e = "slice pattern mismatch, got " ++ actual.
Proof. reflexivity. Qed.

Theorem label_set_exact_iff : forall n rest actual e,
  error_label (KSet n rest) actual e =
  (if rest then "set pattern mismatch, got " else "set pattern mismatch (exact), got ") ++ actual.
Proof. intros n [] actual e; reflexivity. Qed.

Theorem label_variant : forall p args actual e,
  error_label (KEnum p args) actual e =
  "expected variant " ++ p ++ (match args with Some _ => "(...)" | None => "" end) ++ ", got " ++ actual.
Proof.
  intros p [a|] actual e; cbn; [|reflexivity].
  rewrite append_assoc. reflexivity.
Qed.

Theorem label_map_says_nothing_expected : forall n rest actual e,
  error_label (KMap n rest) actual e = "got " ++ actual.
Proof. reflexivity. Qed.

(* C06: shape of the fallback listing — header, then exactly one
   "\n  --> path:line\n  label" block per entry, in order *)
Definition fallback_block (rel : string) (e : fentry) : string :=
  String "010" "  --> " ++ rel ++ ":" ++ N_to_string (e_line_start e) ++ String "010" "  " ++ entry_label e.

Theorem fallback_shape : forall rel e es,
  fallback_display rel (e :: es) =
  "assert_struct! failed:" ++ string_concat (map (fallback_block rel) (e :: es)).
Proof. reflexivity. Qed.

Theorem fallback_blocks_count : forall rel es, List.length (map (fallback_block rel) es) = List.length es.
Proof. intros; apply map_length. Qed.
