(* UniformCtxP.v — corollaries of UniformP.v: a token sequence accepted as a complete pattern is
   accepted, as the same tree up to node ids, as the element of a slice, set or tuple pattern and
   as the value of a struct field (parser half of C11). *)
From Coq Require Import Lia.
From ASModel Require Import Base Tokens Report Ast Parser.
From ASProofs Require Import PatInd FuelP UniformP.
Local Open Scope list_scope.

Section UniformCtxP.
  Variable regex join_ok : bool.
  Variable parse_expr : list ttree -> ores expr_ok.
  Variable parse_path : list ttree -> ores path_ok.
  Variable parse_closure : list ttree -> ores closure_ok.

  Notation p_pattern := (p_pattern regex join_ok parse_expr parse_path parse_closure).
  Notation p_fields := (p_fields regex join_ok parse_expr parse_path parse_closure).
  Notation p_slice := (p_slice regex join_ok parse_expr parse_path parse_closure).
  Notation p_list := (p_list regex join_ok parse_expr parse_path parse_closure).
  Notation p_tuple := (p_tuple regex join_ok parse_expr parse_path parse_closure).
  Notation p_elems := (p_elems regex join_ok parse_expr parse_path parse_closure).
  Notation p_set := (p_set regex join_ok parse_expr parse_path parse_closure).
  Notation p_set_elems := (p_set_elems regex join_ok parse_expr parse_path parse_closure).
  Notation accepted_alone := (accepted_alone regex join_ok parse_expr parse_path parse_closure).
  Notation accepted_anywhere := (accepted_anywhere regex join_ok parse_expr parse_path parse_closure).

  Notation p_struct := (p_struct regex join_ok parse_expr parse_path parse_closure).
  Notation p_enum := (p_enum regex join_ok parse_expr parse_path parse_closure).
  Notation p_map := (p_map regex join_ok parse_expr parse_path parse_closure).
  Notation p_indexed := (p_indexed regex join_ok parse_expr parse_path parse_closure).

  (* one unfolding of each function, the recursive calls left folded (fuel is a variable) *)
  Lemma p_slice_unfold G : p_slice (S G) =
    (g <- in_group DBracket (p_list G) ;; match g with (_, spo, _, elems) => id <- fresh ;; ret (PSlice id spo elems) end).
  Proof. reflexivity. Qed.
  Lemma p_list_unfold G : p_list (S G) =
    (e <- is_empty ;; if e then ret [] else
       p <- p_pattern G ;; e2 <- is_empty ;; (if e2 then ret tt else p_punct "," ;;; ret tt) ;;;
       more <- p_list G ;; ret (p :: more)).
  Proof. reflexivity. Qed.
  Lemma p_tuple_unfold G : p_tuple (S G) =
    (g <- in_group DParen (p_elems G 0%N) ;; match g with (_, spo, _, elems) => id <- fresh ;; ret (PTuple id spo elems) end).
  Proof. reflexivity. Qed.
  Lemma p_elems_unfold G pos : p_elems (S G) pos =
    (e <- is_empty ;; if e then ret [] else
       fk <- fork (p_pattern G) ;;
       el <- (match fk with
              | Some (_, after) => if negb (peek_punct ":" after) then p <- p_pattern G ;; ret (None, p) else p_indexed G pos
              | None => p_indexed G pos
              end) ;;
       e2 <- is_empty ;; (if e2 then ret tt else p_punct "," ;;; ret tt) ;;;
       more <- p_elems G (N.succ pos) ;; ret (el :: more)).
  Proof. reflexivity. Qed.
  Lemma p_set_unfold G : p_set (S G) =
    (hash <- p_punct "#" ;; g <- in_group DParen (p_set_elems G) ;;
     match g with (_, _, spc, (elems, rest)) =>
       id <- fresh ;; let h := spans_span false hash in ret (PSet id (if join_ok then span_join h spc else h) rest elems) end).
  Proof. reflexivity. Qed.
  Lemma p_set_elems_unfold G : p_set_elems (S G) =
    (e <- is_empty ;; if e then ret ([], false) else
       d <- peek peek_rest ;;
       if d then p_punct ".." ;;; c <- peek (peek_punct ",") ;; (if c then p_punct "," ;;; ret tt else ret tt) ;;; ret ([], true)
       else p <- p_pattern G ;; e2 <- is_empty ;;
            if e2 then ret ([p], false)
            else p_punct "," ;;; d2 <- peek peek_rest ;;
                 if d2 then p_punct ".." ;;; ret ([p], true)
                 else more <- p_set_elems G ;; ret (p :: fst more, snd more)).
  Proof. reflexivity. Qed.

  Lemma dispatch_bracket G sc st sp spo spc body r :
    toks st = TTGroup DBracket sp spo spc body :: r -> p_pattern (S G) sc st = p_slice G sc st.
  Proof. intros H. cbn [Parser.p_pattern]. unfold bind at 1. unfold get_toks. rewrite H. reflexivity. Qed.
  Lemma dispatch_paren G sc st sp spo spc body r :
    toks st = TTGroup DParen sp spo spc body :: r -> p_pattern (S G) sc st = p_tuple G sc st.
  Proof. intros H. cbn [Parser.p_pattern]. unfold bind at 1. unfold get_toks. rewrite H. reflexivity. Qed.
  Lemma dispatch_set G sc st j hsp sp spo spc body r :
    toks st = TTPunct "#" j hsp :: TTGroup DParen sp spo spc body :: r -> p_pattern (S G) sc st = p_set G sc st.
  Proof. intros H. cbn [Parser.p_pattern]. unfold bind at 1. unfold get_toks. rewrite H. destruct j; reflexivity. Qed.

  (* [ ts ] *)
  Theorem accepted_as_slice_element ts p : accepted_alone ts p -> ts <> [] ->
    forall F sc c sp spo spc,
      same_or_fuel (p_pattern F sc {| toks := [TTGroup DBracket sp spo spc ts]; ctr := c; unx := None |})
                   (fun q => exists id p', q = PSlice id spo [p'] /\ erase p' = erase p).
  Proof.
    intros Hacc Hne F sc c sp spo spc.
    destruct F as [|[|[|[|F]]]]; try (left; reflexivity); try (left; destruct ts; [contradiction|reflexivity]).
    erewrite dispatch_bracket by reflexivity. rewrite p_slice_unfold. unfold bind at 1, in_group. cbn [toks delim_eqb ctr unx].
      rewrite p_list_unfold. unfold bind at 1, is_empty. cbn [toks].
      destruct (accepted_anywhere ts p Hacc (S F) spc c) as [Hf|(q & st & Hq & He & Ht & Hu)].
      + left. destruct ts; [contradiction|]. cbv beta iota. unfold bind at 1. rewrite Hf. reflexivity.
      + right. destruct ts; [contradiction|]. cbv beta iota. unfold bind at 1. rewrite Hq.
        unfold bind at 1. cbv beta iota. rewrite Ht. cbv beta iota. unfold bind at 1, ret at 1. unfold bind at 1.
        rewrite p_list_unfold. unfold bind at 1, is_empty. rewrite Ht. cbv beta iota. unfold ret at 1. unfold ret at 1.
        rewrite Ht. cbv beta iota. unfold bind, fresh, ret. cbn [toks ctr unx first_wins]. rewrite Hu.
        eexists _, _. split; [reflexivity|]. repeat split; eauto.
  Qed.

  Lemma p_punct_hash sc st j hsp r : toks st = TTPunct "#" j hsp :: r ->
    p_punct "#" sc st = POk [hsp] {| toks := r; ctr := ctr st; unx := unx st |}.
  Proof. destruct st as [t c u]. cbn [toks]. intros ->. reflexivity. Qed.

  Ltac step Hq Ht Hu :=
    first [ rewrite Hq | rewrite Ht | rewrite Hu
          | progress cbn [toks ctr unx delim_eqb fst snd first_wins negb]
          | progress cbv beta iota
          | progress unfold bind at 1 | progress unfold ret at 1 | progress unfold is_empty at 1
          | progress unfold peek at 1 | progress unfold fresh at 1 | progress unfold in_group at 1 ].

  (* #( ts ) — unless ts is the lone rest marker `..` *)
  Theorem accepted_as_set_element ts p : accepted_alone ts p -> ts <> [] -> peek_rest ts = false ->
    forall F sc c j hsp sp spo spc,
      same_or_fuel (p_pattern F sc {| toks := [TTPunct "#" j hsp; TTGroup DParen sp spo spc ts]; ctr := c; unx := None |})
                   (fun q => exists id s' p', q = PSet id s' false [p'] /\ erase p' = erase p).
  Proof.
    intros Hacc Hne Hrest F sc c j hsp sp spo spc.
    destruct F as [|[|[|F]]]; try (left; destruct j; reflexivity).
    erewrite dispatch_set by reflexivity. rewrite p_set_unfold. unfold bind at 1. erewrite p_punct_hash by reflexivity.
    cbv beta iota. unfold bind at 1, in_group. cbn [toks delim_eqb ctr unx]. rewrite p_set_elems_unfold.
    unfold bind at 1, is_empty. cbn [toks]. destruct ts as [|t0 ts0]; [contradiction|]. cbv beta iota.
    unfold bind at 1, peek. cbn [toks]. rewrite Hrest. cbv beta iota.
    destruct (accepted_anywhere _ p Hacc F spc c) as [Hf|(q & st & Hq & He & Ht & Hu)].
    - left. unfold bind at 1. rewrite Hf. reflexivity.
    - right. repeat step Hq Ht Hu.
      eexists _, _. split; [reflexivity|]. repeat split; eauto.
  Qed.

  Ltac step0 :=
    first [ progress cbn [toks ctr unx delim_eqb fst snd first_wins negb peek_punct]
          | progress cbv beta iota
          | progress unfold bind at 1 | progress unfold ret at 1 | progress unfold is_empty at 1
          | progress unfold peek at 1 | progress unfold fresh at 1 | progress unfold in_group at 1
          | progress unfold fork at 1 ].

  (* ( ts ) — as the only element of a tuple pattern (and, the same loop, of a variant's arguments) *)
  Theorem accepted_as_tuple_element ts p : accepted_alone ts p -> ts <> [] ->
    forall F sc c sp spo spc,
      same_or_fuel (p_pattern F sc {| toks := [TTGroup DParen sp spo spc ts]; ctr := c; unx := None |})
                   (fun q => exists id p', q = PTuple id spo [(None, p')] /\ erase p' = erase p).
  Proof.
    intros Hacc Hne F sc c sp spo spc. destruct ts as [|t0 ts0]; [contradiction|]. clear Hne.
    destruct F as [|[|[|[|F]]]]; try (left; reflexivity).
    erewrite dispatch_paren by reflexivity. rewrite p_tuple_unfold. unfold bind at 1, in_group. cbn [toks delim_eqb ctr unx].
    rewrite p_elems_unfold. unfold bind at 1, is_empty. cbn [toks]. cbv beta iota. unfold bind at 1, fork. cbn [toks ctr unx].
    destruct (accepted_anywhere _ p Hacc (S F) spc c) as [Hf|(q1 & st1 & Hq1 & He1 & Ht1 & Hu1)].
    { left. rewrite Hf. reflexivity. }
    rewrite Hq1. cbv beta iota. rewrite Ht1. cbn [peek_punct negb]. cbv beta iota.
    unfold bind at 1. unfold bind at 1.
    destruct (accepted_anywhere _ p Hacc (S F) spc (ctr st1)) as [Hf|(q2 & st2 & Hq2 & He2 & Ht2 & Hu2)].
    { left. rewrite Hf. reflexivity. }
    right. rewrite Hq2. rewrite p_elems_unfold.
    repeat (first [rewrite Ht2 | rewrite Hu2 | step0]).
    eexists _, _. split; [reflexivity|]. repeat split; eauto.
  Qed.

  Lemma p_fields_unfold G : p_fields (S G) =
    (e <- is_empty ;; if e then ret ([], false) else
       d <- peek (peek_punct "..") ;;
       if d then p_punct ".." ;;; ret ([], true)
       else ops <- p_field_operation parse_expr G ;; p_punct ":" ;;; p <- p_pattern G ;; e2 <- is_empty ;;
            if e2 then ret ([(ops, p)], false)
            else p_punct "," ;;; d2 <- peek (peek_punct "..") ;;
                 if d2 then p_punct ".." ;;; ret ([(ops, p)], true)
                 else more <- p_fields G ;; ret ((ops, p) :: fst more, snd more)).
  Proof. reflexivity. Qed.

  Lemma field_op_ident G sc name nsp cj csp r c u : is_keyword name = false ->
    p_field_operation parse_expr (S G) sc {| toks := TTIdent name nsp :: TTPunct ":" cj csp :: r; ctr := c; unx := u |}
    = POk (ONamed name nsp nsp) {| toks := TTPunct ":" cj csp :: r; ctr := c; unx := u |}.
  Proof.
    intros Hk. unfold p_field_operation, bind, cur_span, get_toks, advance, p_field_name, here. cbn [toks count_stars skipn ctr unx].
    rewrite Hk. cbn [p_ops_loop]. unfold bind, get_toks, ret. cbn [toks]. reflexivity.
  Qed.

  Lemma p_punct_colon sc cj csp r c u :
    p_punct ":" sc {| toks := TTPunct ":" cj csp :: r; ctr := c; unx := u |} = POk [csp] {| toks := r; ctr := c; unx := u |}.
  Proof. reflexivity. Qed.

  (* name : ts — as the value of the last field of a struct pattern (named or wildcard: the same loop) *)
  Theorem accepted_as_field_value ts p name nsp cj csp : accepted_alone ts p -> ts <> [] -> is_keyword name = false ->
    forall F sc c,
      same_or_fuel (p_fields F sc {| toks := TTIdent name nsp :: TTPunct ":" cj csp :: ts; ctr := c; unx := None |})
                   (fun r => exists p', r = ([(ONamed name nsp nsp, p')], false) /\ erase p' = erase p).
  Proof.
    intros Hacc Hne Hk F sc c. destruct ts as [|t0 ts0]; [contradiction|]. clear Hne.
    destruct F as [|[|F]]; try (left; reflexivity).
    { left. rewrite p_fields_unfold. unfold bind at 1, is_empty. cbn [toks]. cbv beta iota. unfold bind at 1, peek. cbn [toks peek_punct].
      cbv beta iota. unfold bind at 1. unfold p_field_operation, bind, cur_span, get_toks, advance, p_field_name, here.
      cbn [toks count_stars skipn ctr unx]. rewrite Hk. reflexivity. }
    rewrite p_fields_unfold. unfold bind at 1, is_empty. cbn [toks]. cbv beta iota. unfold bind at 1, peek. cbn [toks peek_punct].
    cbv beta iota. unfold bind at 1. rewrite (field_op_ident F sc name nsp cj csp _ c None Hk).
    cbv beta iota. unfold bind at 1. rewrite p_punct_colon. cbv beta iota.
    destruct (accepted_anywhere _ p Hacc (S F) sc c) as [Hf|(q & st & Hq & He & Ht & Hu)].
    - left. unfold bind at 1. rewrite Hf. reflexivity.
    - right. unfold bind at 1. rewrite Hq. repeat (first [rewrite Ht | rewrite Hu | step0]).
      eexists _, _. split; [reflexivity|]. repeat split; eauto.
  Qed.

  Lemma wildcard_accepted_alone sp : accepted_alone [TTIdent "_" sp] (PWild 0).
  Proof. exists 1, SCall, 0%N. eexists. split; [reflexivity|]. split; reflexivity. Qed.
End UniformCtxP.
