(* OrderP.v — C08, the ORDER of evaluation: on a passing run the method calls written in the field-operation chains of an expansion
   are evaluated in the order in which the statements mention them, and for a named struct pattern that is the order in which the
   fields are written (MethodsP.v counts the calls; a count cannot see a reordering: with a stateful receiver - a cursor's next(), a
   queue's pop - the order decides which value each pattern tests). *)
From ASModel Require Import Base Tokens Report Ast IR Expand SetMatch Values Nodes Sem.
From ASProofs Require Import StmtInd SemP TraceP MethodsP.

(* the names of the method calls in a trace, in the order they happened *)
Fixpoint mlist (t : list event) : list string :=
  match t with
  | [] => []
  | EvMethod m :: r => m :: mlist r
  | _ :: r => mlist r
  end.

Lemma mlist_app a b : mlist (a ++ b) = mlist a ++ mlist b.
Proof. induction a as [|x r IH]; cbn; [reflexivity|]. destruct x; cbn; rewrite IH; reflexivity. Qed.

(* the method calls written in a value expression, innermost (= first evaluated) first *)
Fixpoint vmeths (e : vexpr) : list string :=
  match e with
  | VMethod _ x m _ _ => vmeths x ++ [m]
  | VRef x | VField x _ | VDeref _ x | VAwait _ x | VNamed _ x _ _ | VUnnamed _ x _ | VIndex _ x _ => vmeths x
  | VRoot _ | VBind _ | VFieldBind _ => []
  end.

Lemma vmeths_length e : List.length (vmeths e) = vmethods e.
Proof.
  induction e as [ts|n|f|x IH|x IH f|sp x IH|sp x IH m msp args|sp x IH|sp x IH f fsp|sp x IH i|sp x IH i]; cbn [vmeths vmethods];
    try reflexivity; try exact IH.
  rewrite app_length, IH. cbn. lia.
Qed.

Lemma eval_mlist en : forall e v t, eval en e = Some (v, t) -> mlist t = vmeths e.
Proof.
  induction e as [ts|n|f|x IH|x IH f|sp x IH|sp x IH m msp args|sp x IH|sp x IH f fsp|sp x IH i|sp x IH i];
    intros v t H; cbn [eval vmeths] in *.
  - inversion H; reflexivity.
  - destruct (lookup _ _); inversion H; reflexivity.
  - destruct (lookup _ _); inversion H; reflexivity.
  - destruct (eval en x) as [[w t']|]; [|discriminate]. inversion H; subst. eapply IH; reflexivity.
  - destruct (eval en x) as [[w t']|]; [|discriminate]. destruct f; [destruct (field_of _ _)|destruct (elem_of _ _)]; inversion H; subst; eapply IH; reflexivity.
  - destruct (eval en x) as [[w t']|]; [|discriminate]. destruct w; inversion H; subst; eapply IH; reflexivity.
  - destruct (eval en x) as [[w t']|]; [|discriminate]. destruct (all_some _); [|discriminate]. destruct (method_sem _ _ _); [|discriminate].
    inversion H; subst. rewrite mlist_app. rewrite (IH _ _ eq_refl). reflexivity.
  - discriminate.
  - destruct (eval en x) as [[w t']|]; [|discriminate]. destruct (field_of _ _); inversion H; subst; eapply IH; reflexivity.
  - destruct (eval en x) as [[w t']|]; [|discriminate]. destruct (elem_of _ _); inversion H; subst; eapply IH; reflexivity.
  - destruct (eval en x) as [[w t']|]; [|discriminate]. destruct (ueval _ _) as [[]|]; try discriminate.
    destruct (auto_deref w); try discriminate. destruct (Z.ltb _ _); [discriminate|]. destruct (nth_error _ _); [|discriminate].
    inversion H; subst. rewrite mlist_app. rewrite (IH _ _ eq_refl). cbn. rewrite app_nil_r. reflexivity.
Qed.

(* the method calls the statements of an expansion mention, in statement order (sets left out as in MethodsP.sites) *)
Fixpoint msites (s : stmt) : list string :=
  let cat := fix cat (l : list stmt) : list string := match l with [] => [] | x :: r => msites x ++ cat r end in
  match s with
  | SNop | SPanic _ => []
  | SSimple _ e _ _ | SString _ e _ _ _ | SCmp _ _ e _ _ | SUnit _ e _ _ | SRange _ e _ _ _ | SRegex _ e _ _ | SLike _ e _ _
  | SClosure _ e _ _ | SMapLen _ e _ _ => vmeths e
  | SVariant _ e _ _ body _ | SStruct _ e _ _ _ body _ | STuple e _ body | SSlice e _ body _ => vmeths e ++ cat body
  | SSeq body => cat body
  | SMapGet _ e _ body _ => vmeths e ++ msites body
  | SSet e _ _ _ => vmeths e
  end.
Definition msites_list (l : list stmt) : list string := flat_map msites l.
Lemma msites_cat l : (fix cat (l : list stmt) : list string := match l with [] => [] | x :: r => msites x ++ cat r end) l = msites_list l.
Proof. induction l as [|x r IH]; cbn; [reflexivity|rewrite IH; reflexivity]. Qed.

Definition ordered (s : stmt) : Prop :=
  set_free s = true -> forall en tr, exec s en = Some ([], tr) -> mlist tr = msites s.

Lemma run_list_ordered : forall body en tr,
  Forall ordered body -> forallb set_free body = true -> run_list body en = Some ([], tr) -> mlist tr = msites_list body.
Proof.
  induction body as [|x r IH]; intros en tr HF Hs H; cbn in *.
  - inversion H; reflexivity.
  - apply andb_true_iff in Hs as [Hx Hr]. inversion HF as [|? ? Px Pr]; subst.
    destruct (exec x en) as [[r1 t1]|] eqn:E1; [|discriminate]. destruct (run_list r en) as [[r2 t2]|] eqn:E2; [|discriminate].
    cbn in H. inversion H as [[Hrep Htr]]. apply app_eq_nil in Hrep as [-> ->].
    rewrite mlist_app. rewrite (Px Hx en t1 E1). rewrite (IH en t2 Pr Hr E2). reflexivity.
Qed.

Lemma pre_body_ordered en e v t body tr :
  eval en e = Some (v, t) -> Forall ordered body -> forallb set_free body = true -> forall en',
  seq2 (Some ([], t)) (run_list body en') = Some ([], tr) -> mlist tr = vmeths e ++ msites_list body.
Proof.
  intros He HF Hs en' H. destruct (run_list body en') as [[r2 t2]|] eqn:E; [|discriminate]. cbn in H. inversion H as [[Hrep Htr]]. subst r2.
  rewrite mlist_app. rewrite (eval_mlist _ _ _ _ He). rewrite (run_list_ordered _ _ _ HF Hs E). reflexivity.
Qed.

Theorem exec_methods_in_statement_order : forall s, ordered s.
Proof.
  apply stmt_ind'; unfold ordered; intros; cbn [exec msites set_free] in *;
    try rewrite msites_cat in *; try rewrite set_free_all in *; try rewrite run_fix_eq in *.
  - inversion H0; reflexivity.
  - discriminate.
  - destruct (eval en e) as [[v t]|] eqn:E; [|discriminate]. leaf H0. eapply eval_mlist; exact E.
  - destruct (eval en e) as [[v t]|] eqn:E; [|discriminate]. destruct (parse_str_lit l); [|discriminate]. destruct (peel v); try discriminate.
    leaf H0. eapply eval_mlist; exact E.
  - destruct (eval en e) as [[v t]|] eqn:E; [|discriminate]. destruct (ueval _ _); [|discriminate]. leaf H0. eapply eval_mlist; exact E.
  - destruct (eval en e) as [[v t]|] eqn:E; [|discriminate]. destruct (path_last path); [|discriminate].
    destruct (path_single path && _); [inversion H0; subst; eapply eval_mlist; exact E|].
    destruct (peel v); try discriminate; try (nofail H0; fail).
    destruct args; [leaf H0; eapply eval_mlist; exact E|nofail H0].
  - destruct (eval en e) as [[v t]|] eqn:E; [|discriminate]. destruct (path_last path); [|discriminate].
    destruct (peel v); try discriminate; try (nofail H1; fail).
    destruct (String.eqb _ _); [|nofail H1].
    destruct (pair_opts _ _ _ _); [|discriminate]. try rewrite run_fix_eq in *; eapply pre_body_ordered; [exact E|exact H|eassumption|eassumption].
  - destruct (eval en e) as [[v t]|] eqn:E; [|discriminate]. destruct (path_last path); [|discriminate].
    destruct (peel v); try discriminate; try (nofail H1; fail).
    destruct (String.eqb _ _); [|nofail H1].
    destruct (rest || _); [|discriminate]. destruct (pair_fields _ _); [|discriminate]. try rewrite run_fix_eq in *; eapply pre_body_ordered; [exact E|exact H|eassumption|eassumption].
  - try rewrite run_fix_eq in *; eapply run_list_ordered; [exact H|eassumption|eassumption].
  - destruct (eval en e) as [[v t]|] eqn:E; [|discriminate]. destruct (peel v); try discriminate.
    destruct (pair_opts _ _ _ _); [|discriminate]. try rewrite run_fix_eq in *; eapply pre_body_ordered; [exact E|exact H|eassumption|eassumption].
  - destruct (eval en e) as [[v t]|] eqn:E; [|discriminate]. leaf H0. eapply eval_mlist; exact E.
  - destruct (eval en e) as [[v t]|] eqn:E; [|discriminate]. destruct (elements_of v); [|discriminate].
    destruct (slice_match _ _) as [[bs|]|]; [|nofail H1|discriminate].
    try rewrite run_fix_eq in *; eapply pre_body_ordered; [exact E|exact H|eassumption|eassumption].
  - destruct (eval en e) as [[v t]|] eqn:E; [|discriminate]. destruct (peel v); try discriminate. leaf H0. eapply eval_mlist; exact E.
  - destruct (eval en e) as [[v t]|] eqn:E; [|discriminate]. destruct (ueval _ _) as [w|]; [|discriminate].
    destruct (peel v); try discriminate. destruct (peel w); try discriminate. leaf H0. eapply eval_mlist; exact E.
  - destruct (eval en e) as [[v t]|] eqn:E; [|discriminate]. leaf H0. eapply eval_mlist; exact E.
  - destruct (eval en e) as [[v t]|] eqn:E; [|discriminate]. destruct (auto_deref v); try discriminate. leaf H0. eapply eval_mlist; exact E.
  - destruct (eval en e) as [[v t]|] eqn:E; [|discriminate]. destruct (ueval _ _); [|discriminate]. destruct (auto_deref v); try discriminate.
    destruct (map_get _ _).
    + destruct (exec body _) as [[r2 t2]|] eqn:E2; [|discriminate]. cbn in H1. inversion H1 as [[Hr Ht]]. subst r2.
      rewrite mlist_app. rewrite (eval_mlist _ _ _ _ E). rewrite (H H0 _ _ E2). reflexivity.
    + exfalso. destruct (do_push en missing None) as [[rep t2]|] eqn:D; [|discriminate]. cbn in H1. inversion H1 as [[Hr _]].
      eapply do_push_nonempty; [exact D|]. destruct rep; [reflexivity|discriminate].
  - discriminate.
Qed.

(* the methods of a field-operation chain, in written order *)
Fixpoint fop_meths (o : fop) : list string :=
  match o with
  | OMethod name _ _ _ => [name]
  | OChained _ ops => (fix cat (l : list fop) : list string := match l with [] => [] | x :: r => fop_meths x ++ cat r end) ops
  | _ => []
  end.

Lemma vmeths_iter_deref sp : forall n base, vmeths (Nat.iter n (VDeref sp) base) = vmeths base.
Proof. induction n as [|n IH]; intros base; cbn; [reflexivity|apply IH]. Qed.

Lemma vmeths_apply_ops : forall o base, vmeths (apply_ops base o) = vmeths base ++ fop_meths o.
Proof.
  fix IH 1. intros o base. destruct o as [count sp|name nsp sp args|sp|name nsp sp|idx sp|i sp|sp ops]; cbn [apply_ops fop_meths vmeths];
    try (rewrite app_nil_r; reflexivity); try reflexivity.
  - change (vmeths (VDeref sp (Nat.iter count (VDeref sp) base)) = vmeths base ++ []). cbn [vmeths]. rewrite vmeths_iter_deref, app_nil_r. reflexivity.
  - revert base. induction ops as [|x r IHr]; intros base; cbn [fold_left]; [rewrite app_nil_r; reflexivity|].
    rewrite IHr. rewrite (IH x base). rewrite app_assoc. reflexivity.
Qed.

(* the statement generated for ONE field of a named struct pattern (Expand.expand, case PStruct (Some path)) *)
Definition field_stmt (j : bool) (fp : fop * pat) : stmt :=
  let '(ops, fpat) := fp in
  match root_field_name ops with
  | None => SPanic "root_field_name"
  | Some fname => let base := VFieldBind fname in with_tail ops base base (expand j fpat)
  end.

(* a named struct pattern: on a passing run the methods called are those of the asserted expression, then those of the first written
   field's statement, then those of the second, ... - field by field in WRITTEN order, whichever root fields they start from *)
Theorem struct_fields_evaluated_in_written_order : forall j id path rest fields e en tr,
  let s := expand j (PStruct id (Some path) rest fields) e in
  set_free s = true -> exec s en = Some ([], tr) ->
  mlist tr = vmeths e ++ flat_map (fun fp => msites (field_stmt j fp)) fields.
Proof.
  intros j id path rest fields e en tr s Hs He.
  rewrite (exec_methods_in_statement_order s Hs en tr He).
  subst s. cbn [expand] in *.
  destruct (existsb _ _); [cbn in He; discriminate|].
  cbn [msites]. rewrite msites_cat. unfold msites_list. rewrite flat_map_concat_map, map_map, <- flat_map_concat_map.
  f_equal.
Qed.

(* the statement generated for ONE field of a wildcard struct pattern `_ { .. }` (Expand.expand, case PStruct None) *)
Definition wfield_stmt (j : bool) (e : vexpr) (fp : fop * pat) : stmt :=
  let '(ops, fpat) := fp in
  match root_field_name ops with
  | None => SPanic "root_field_name"
  | Some fname =>
      if field_name_index_ok fname then
        let base := VField e fname in
        with_tail ops base (VRef base) (expand j fpat)
      else SPanic "syn::Index::from: index does not fit in u32"
  end.

(* a wildcard struct pattern: field after field in written order (each field's statement starts from the asserted expression itself -
   the recorded finding C08-wildcard-struct-multi-eval - so its methods, if any, come first in every field's share) *)
Theorem wildcard_struct_fields_evaluated_in_written_order : forall j id rest fields e en tr,
  let s := expand j (PStruct id None rest fields) e in
  set_free s = true -> exec s en = Some ([], tr) ->
  mlist tr = flat_map (fun fp => msites (wfield_stmt j e fp)) fields.
Proof.
  intros j id rest fields e en tr s Hs He.
  rewrite (exec_methods_in_statement_order s Hs en tr He).
  subst s. cbn [expand msites]. rewrite msites_cat. unfold msites_list.
  rewrite flat_map_concat_map, map_map, <- flat_map_concat_map. reflexivity.
Qed.

(* the statement generated for ONE entry of a map pattern *)
Definition entry_stmt (j : bool) (id : N) (e : vexpr) (kv : uexpr * pat) : stmt :=
  let '(k, vp) := kv in
  let sp := uspan j k in
  SMapGet sp e k (expand j vp (VBind NMapValue)) (mk_push sp id AMissingKey (EKeyPresent (u_text k))).

(* an open map pattern `#{ k1: p1, k2: p2, .. }`: entry after entry in written order *)
Theorem open_map_entries_evaluated_in_written_order : forall j id sp entries e en tr,
  let s := expand j (PMap id sp true entries) e in
  set_free s = true -> exec s en = Some ([], tr) ->
  mlist tr = flat_map (fun kv => msites (entry_stmt j id e kv)) entries.
Proof.
  intros j id sp entries e en tr s Hs He.
  rewrite (exec_methods_in_statement_order s Hs en tr He).
  subst s. cbn [expand msites app]. rewrite msites_cat. unfold msites_list.
  rewrite flat_map_concat_map, map_map, <- flat_map_concat_map. reflexivity.
Qed.

(* ---- a composite whose OWN shape fails evaluates none of its children's chains: the only method calls are those of the composite's
   value expression - once for the test and (the recorded finding C08-fail-path-double-eval) once more for the message ---- *)

Lemma mlist_debug t n : mlist (t ++ [EvDebug n]) = mlist t.
Proof. rewrite mlist_app. cbn. apply app_nil_r. Qed.

Lemma shape_failure_trace en e v t sp id rep tr :
  eval en e = Some (v, t) ->
  test en (Some false) t (mk_push sp id (ADebug e) ENone) None = Some (rep, tr) ->
  mlist tr = vmeths e ++ vmeths e /\ List.length rep = 1%nat.
Proof.
  intros He H. unfold test, do_push in H. cbn [ps_actual mk_push] in H. rewrite He in H. cbn in H.
  inversion H; subst. split; [|reflexivity].
  rewrite mlist_app, mlist_debug. rewrite (eval_mlist _ _ _ _ He). reflexivity.
Qed.

Lemma shape_failure_trace_ref en e v t sp id rep tr :
  eval en e = Some (v, t) ->
  test en (Some false) t (mk_push sp id (ADebugRef e) ENone) None = Some (rep, tr) ->
  mlist tr = vmeths e ++ vmeths e /\ List.length rep = 1%nat.
Proof.
  intros He H. unfold test, do_push in H. cbn [ps_actual mk_push] in H. rewrite He in H. cbn in H.
  inversion H; subst. split; [|reflexivity].
  rewrite mlist_app, mlist_debug. rewrite (eval_mlist _ _ _ _ He). reflexivity.
Qed.

(* a tuple-variant pattern on a value of ANOTHER variant: one entry, and no chain or operand of its elements is evaluated *)
Theorem wrong_variant_evaluates_no_child : forall j id path el elems e en rep tr v t n args nm,
  eval en e = Some (v, t) -> path_last path = Some nm -> peel v = VVariantV n args -> String.eqb n nm = false ->
  exec (expand j (PEnum id path (el :: elems)) e) en = Some (rep, tr) ->
  mlist tr = vmeths e ++ vmeths e /\ List.length rep = 1%nat.
Proof.
  intros j id path el elems e en rep tr v t n args nm He Hp Hv Hn H.
  cbn [expand exec] in H. rewrite He, Hp, Hv, Hn in H.
  eapply shape_failure_trace; [exact He|exact H].
Qed.

(* a slice pattern on a collection whose length it does not fit: one entry, no element pattern is evaluated *)
Theorem wrong_length_slice_evaluates_no_child : forall j id sp elems e en rep tr v t vs,
  eval en e = Some (v, t) -> elements_of v = Some vs ->
  slice_match (mapi (fun i el => if is_rest_range el then SPRest else if is_wild el then SPWild else SPBind i) elems) vs = Some None ->
  exec (expand j (PSlice id sp elems) e) en = Some (rep, tr) ->
  mlist tr = vmeths e ++ vmeths e /\ List.length rep = 1%nat.
Proof.
  intros j id sp elems e en rep tr v t vs He Hv Hs H.
  cbn [expand exec] in H. rewrite He, Hv, Hs in H.
  eapply shape_failure_trace_ref; [exact He|exact H].
Qed.
