(* BalanceP.v — the generated code is well bracketed (C14, a necessary part of "syntactically valid
   Rust"): in the exact token sequence Print.v prints for any statement of the IR, every opening
   delimiter is closed by a delimiter of the same kind, in order, provided the user's own token
   lists (expressions, paths, literals spliced in) are.  For every statement, hence for the
   expansion of every pattern. *)
From ASModel Require Import Base Tokens Report Ast IR Nodes Expand Print.
From ASProofs Require Import PatInd StmtInd ParserP.
Local Open Scope string_scope.
Local Open Scope list_scope.

Definition deq (a b : delim) : bool :=
  match a, b with DParen, DParen | DBrace, DBrace | DBracket, DBracket | DNone, DNone => true | _, _ => false end.

Fixpoint run_bal (l : list tok) (st : list delim) : option (list delim) :=
  match l with
  | [] => Some st
  | TOpen d _ :: r => run_bal r (d :: st)
  | TClose d _ :: r => match st with d' :: s => if deq d d' then run_bal r s else None | [] => None end
  | _ :: r => run_bal r st
  end.

(* stack-neutral and never popping below where it started *)
Definition balanced (l : list tok) : Prop := forall st, run_bal l st = Some st.

Lemma run_bal_app a b st : run_bal (a ++ b) st = match run_bal a st with Some s => run_bal b s | None => None end.
Proof.
  revert st. induction a as [|t a IH]; intros st; [reflexivity|]. destruct t; cbn [app run_bal]; try apply IH.
  destruct st as [|d' s]; [reflexivity|]. destruct (deq d d'); [apply IH|reflexivity].
Qed.

Lemma balanced_nil : balanced [].
Proof. intros st; reflexivity. Qed.
Lemma balanced_app a b : balanced a -> balanced b -> balanced (a ++ b).
Proof. intros Ha Hb st. rewrite run_bal_app, Ha. apply Hb. Qed.
Lemma balanced_flat_map {A} (f : A -> list tok) l : Forall (fun x => balanced (f x)) l -> balanced (flat_map f l).
Proof. induction 1; cbn; [apply balanced_nil|apply balanced_app; assumption]. Qed.
Lemma balanced_concat (ls : list (list tok)) : Forall balanced ls -> balanced (flat_map (fun x => x) ls).
Proof. intros H. apply balanced_flat_map. exact H. Qed.

(* tokens that are not delimiters *)
Definition plain (t : tok) : bool := match t with TOpen _ _ | TClose _ _ => false | _ => true end.
Lemma balanced_plain l : forallb plain l = true -> balanced l.
Proof.
  induction l as [|t l IH]; intros H st; [reflexivity|]. cbn in H. apply andb_true_iff in H as [Ht Hl].
  destruct t; try discriminate; cbn [run_bal]; apply IH; exact Hl.
Qed.

Lemma puncts_plain s sp : forallb plain (puncts s sp) = true.
Proof. induction s as [|c s IH]; [reflexivity|]. destruct s; [reflexivity|]. cbn [puncts forallb plain]. exact IH. Qed.

(* ---- templates ------------------------------------------------------------------------- *)

(* what a template word does to the stack, the spliced arguments being balanced *)
Definition word_step (w : string) (st : list delim) : option (list delim) :=
  if String.eqb w "(" then Some (DParen :: st)
  else if String.eqb w "{" then Some (DBrace :: st)
  else if String.eqb w "[" then Some (DBracket :: st)
  else if String.eqb w ")" then match st with DParen :: s => Some s | _ => None end
  else if String.eqb w "}" then match st with DBrace :: s => Some s | _ => None end
  else if String.eqb w "]" then match st with DBracket :: s => Some s | _ => None end
  else Some st.
Fixpoint run_words (ws : list string) (st : list delim) : option (list delim) :=
  match ws with [] => Some st | w :: r => match word_step w st with Some s => run_words r s | None => None end end.

Lemma nth_balanced (args : list (list tok)) k : Forall balanced args -> balanced (nth k args []).
Proof.
  intros H. revert k. induction H as [|a l Ha Hl IH]; intros k; [destruct k; apply balanced_nil|].
  destruct k; [exact Ha|apply IH].
Qed.

Lemma word_toks_step sp args w st : Forall balanced args ->
  run_bal (word_toks sp args w) st = word_step w st.
Proof.
  intros Hargs. unfold word_toks, word_step. destruct w as [|c r]; [reflexivity|].
  destruct (Ascii.eqb c "$") eqn:Hd.
  - apply Ascii.eqb_eq in Hd. subst c.
    assert (E : forall x, String.eqb (String "$" r) x = false \/ True) by (intros; right; exact I).
    replace (String.eqb (String "$" r) "(") with false by (cbn; reflexivity).
    replace (String.eqb (String "$" r) "{") with false by (cbn; reflexivity).
    replace (String.eqb (String "$" r) "[") with false by (cbn; reflexivity).
    replace (String.eqb (String "$" r) ")") with false by (cbn; reflexivity).
    replace (String.eqb (String "$" r) "}") with false by (cbn; reflexivity).
    replace (String.eqb (String "$" r) "]") with false by (cbn; reflexivity).
    destruct r as [|d r']; [reflexivity|]. apply (nth_balanced args _ Hargs).
  - set (w := String c r).
    destruct (String.eqb w "(") eqn:E1; [reflexivity|].
    destruct (String.eqb w ")") eqn:E2.
    { destruct (String.eqb w "{") eqn:E3; [apply String.eqb_eq in E2, E3; congruence|].
      destruct (String.eqb w "[") eqn:E4; [apply String.eqb_eq in E2, E4; congruence|].
      cbn [run_bal]. destruct st as [|d' s]; [reflexivity|]. destruct d'; reflexivity. }
    destruct (String.eqb w "{") eqn:E3; [reflexivity|].
    destruct (String.eqb w "}") eqn:E4.
    { destruct (String.eqb w "[") eqn:E5; [apply String.eqb_eq in E4, E5; congruence|].
      cbn [run_bal]. destruct st as [|d' s]; [reflexivity|]. destruct d'; reflexivity. }
    destruct (String.eqb w "[") eqn:E5; [reflexivity|].
    destruct (String.eqb w "]") eqn:E6.
    { cbn [run_bal]. destruct st as [|d' s]; [reflexivity|]. destruct d'; reflexivity. }
    destruct (is_ident_start c); [reflexivity|].
    destruct (is_digit c || Ascii.eqb c """"); [reflexivity|].
    apply balanced_plain. apply puncts_plain.
Qed.

Lemma tpl_run sp t args st : Forall balanced args -> run_bal (tpl sp t args) st = run_words (split_on " " t) st.
Proof.
  intros Hargs. unfold tpl. generalize (split_on " " t) as ws. intros ws. revert st.
  induction ws as [|w ws IH]; intros st; [reflexivity|].
  cbn [flat_map run_words]. rewrite run_bal_app, (word_toks_step sp args w st Hargs).
  destruct (word_step w st); [apply IH|reflexivity].
Qed.

Lemma tpl_balanced sp t args :
  (forall st, run_words (split_on " " t) st = Some st) -> Forall balanced args -> balanced (tpl sp t args).
Proof. intros Ht Hargs st. rewrite tpl_run by exact Hargs. apply Ht. Qed.

(* ---- the printers ------------------------------------------------------------------------ *)

Ltac tw := intros st; vm_compute; reflexivity.

Lemma bal_ident s : balanced (ident s).                Proof. apply balanced_plain; reflexivity. Qed.
Lemma bal_node_ident id : balanced (node_ident id).    Proof. apply balanced_plain; reflexivity. Qed.
Lemma bal_str_lit s sp : balanced (str_lit s sp).      Proof. apply balanced_plain; reflexivity. Qed.
Lemma bal_usize_lit n : balanced (usize_lit n).        Proof. apply balanced_plain; reflexivity. Qed.
Lemma bal_u32_lit n : balanced (u32_lit n).            Proof. apply balanced_plain; reflexivity. Qed.
Lemma bal_bool_tok b : balanced (bool_tok b).          Proof. apply balanced_plain; reflexivity. Qed.
Lemma bal_comma sp : balanced (comma sp).              Proof. apply balanced_plain; reflexivity. Qed.
Lemma bal_field_name f : balanced (pp_field_name f).   Proof. destruct f; apply balanced_plain; reflexivity. Qed.
Lemma bal_field_binder f : balanced (pp_field_binder f). Proof. apply balanced_plain; reflexivity. Qed.

Lemma bal_sep_by sep xs : balanced sep -> Forall balanced xs -> balanced (sep_by sep xs).
Proof.
  intros Hs H. induction H as [|x l Hx Hl IH]; [apply balanced_nil|].
  destruct l as [|y l']; [exact Hx|]. cbn [sep_by]. apply balanced_app; [exact Hx|]. apply balanced_app; [exact Hs|exact IH].
Qed.

#[export] Hint Resolve bal_ident bal_node_ident bal_str_lit bal_usize_lit bal_u32_lit bal_bool_tok bal_comma bal_field_name
     bal_field_binder balanced_nil : bal.

(* user token lists *)
Definition uok (u : uexpr) : Prop := balanced (u_toks u).
Definition pok (p : rpath) : Prop := balanced (p_toks p).

Fixpoint vexpr_ok (e : vexpr) : Prop :=
  match e with
  | VRoot toks => balanced toks
  | VBind _ | VFieldBind _ => True
  | VRef x | VDeref _ x | VAwait _ x | VNamed _ x _ _ | VUnnamed _ x _ | VField x _ => vexpr_ok x
  | VMethod _ x _ _ args => vexpr_ok x /\ Forall uok args
  | VIndex _ x i => vexpr_ok x /\ uok i
  end.

Lemma bal_pp_vexpr e : vexpr_ok e -> balanced (pp_vexpr e).
Proof.
  induction e as [toks|n|f|x IH|x IH f|sp x IH|sp x IH m msp args|sp x IH|sp x IH f fsp|sp x IH i|sp x IH i];
    cbn [vexpr_ok pp_vexpr]; intros H.
  - exact H.
  - auto with bal.
  - auto with bal.
  - apply tpl_balanced; [tw|]. repeat constructor. apply IH; exact H.
  - apply tpl_balanced; [tw|]. repeat constructor; auto with bal.
  - apply tpl_balanced; [tw|]. repeat constructor. apply IH; exact H.
  - destruct H as [Hx Ha]. apply tpl_balanced; [tw|]. constructor; [apply IH; exact Hx|].
    constructor; [apply balanced_plain; reflexivity|]. constructor; [|constructor].
    apply bal_sep_by; [apply tpl_balanced; [tw|constructor]|]. apply Forall_map. exact Ha.
  - apply tpl_balanced; [tw|]. repeat constructor. apply IH; exact H.
  - apply tpl_balanced; [tw|]. constructor; [apply IH; exact H|]. constructor; [apply balanced_plain; reflexivity|constructor].
  - apply tpl_balanced; [tw|]. constructor; [apply IH; exact H|]. constructor; [apply balanced_plain; reflexivity|constructor].
  - destruct H as [Hx Hi]. apply tpl_balanced; [tw|]. constructor; [apply IH; exact Hx|]. constructor; [exact Hi|constructor].
Qed.

Definition actual_ok (a : actual) : Prop :=
  match a with ADebug e | ADebugRef e | AMapLen e => vexpr_ok e | _ => True end.
Definition push_ok (p : push) : Prop := actual_ok (ps_actual p).

Ltac fb := repeat (first [apply Forall_nil | apply Forall_cons]); auto with bal.

Lemma bal_pp_actual a : actual_ok a -> balanced (pp_actual a).
Proof.
  destruct a; cbn [actual_ok pp_actual]; intros H; (apply tpl_balanced; [tw|]); fb; try (apply bal_pp_vexpr; exact H).
Qed.

Lemma bal_pp_expected x : balanced (pp_expected x).
Proof. destruct x; cbn [pp_expected]; (apply tpl_balanced; [tw|]); fb. Qed.

Lemma bal_pp_push p : push_ok p -> balanced (pp_push p).
Proof.
  intros H. unfold pp_push. apply tpl_balanced; [tw|]. fb; [apply bal_pp_actual; exact H|apply bal_pp_expected].
Qed.

(* ---- statements --------------------------------------------------------------------------- *)

Fixpoint stmt_ok (s : stmt) : Prop :=
  let go := fix go (l : list stmt) : Prop := match l with [] => True | x :: r => stmt_ok x /\ go r end in
  match s with
  | SNop | SPanic _ => True
  | SSimple _ e pt p => vexpr_ok e /\ balanced pt /\ push_ok p
  | SString _ e _ _ p => vexpr_ok e /\ push_ok p
  | SCmp _ _ e x p => vexpr_ok e /\ uok x /\ push_ok p
  | SUnit _ e path p => vexpr_ok e /\ pok path /\ push_ok p
  | SVariant _ e path _ body p => vexpr_ok e /\ pok path /\ push_ok p /\ go body
  | SStruct _ e path _ _ body p => vexpr_ok e /\ pok path /\ push_ok p /\ go body
  | SSeq body => go body
  | STuple e _ body => vexpr_ok e /\ go body
  | SRange _ e r _ p => vexpr_ok e /\ balanced r /\ push_ok p
  | SSlice e _ body p => vexpr_ok e /\ push_ok p /\ go body
  | SRegex _ e _ p => vexpr_ok e /\ push_ok p
  | SLike _ e x p => vexpr_ok e /\ uok x /\ push_ok p
  | SClosure _ e c p => vexpr_ok e /\ uok c /\ push_ok p
  | SMapLen _ e _ p => vexpr_ok e /\ push_ok p
  | SMapGet _ e k body m => vexpr_ok e /\ uok k /\ stmt_ok body /\ push_ok m
  | SSet e preds _ _ => vexpr_ok e /\ go preds
  end.

Lemma go_Forall (l : list stmt) :
  (fix go (l : list stmt) : Prop := match l with [] => True | x :: r => stmt_ok x /\ go r end) l <-> Forall stmt_ok l.
Proof.
  induction l as [|x r IH].
  - split; intros _; [constructor|exact I].
  - split.
    + intros [Hx Hr]. constructor; [exact Hx|apply IH; exact Hr].
    + intros H. inversion H; subst. split; [assumption|apply IH; assumption].
Qed.

Lemma bal_body (body : list stmt) :
  Forall (fun s => stmt_ok s -> balanced (pp_stmt s)) body -> Forall stmt_ok body -> balanced (flat_map pp_stmt body).
Proof.
  intros IH H. apply balanced_flat_map. rewrite Forall_forall in *. intros x Hx. apply IH; [exact Hx|apply H; exact Hx].
Qed.

Lemma bal_binders prefix bs : balanced (sep_by (comma SCall) (map (pp_binder prefix) bs)).
Proof. apply bal_sep_by; [auto with bal|]. apply Forall_map. apply Forall_forall. intros b _. destruct b; cbn; auto with bal. Qed.
Lemma bal_binders_term prefix bs : balanced (term_by (comma SCall) (map (pp_binder prefix) bs)).
Proof.
  unfold term_by. apply balanced_flat_map. apply Forall_forall. intros x Hx. apply in_map_iff in Hx. destruct Hx as [b [<- _]].
  apply balanced_app; [destruct b; cbn; auto with bal|auto with bal].
Qed.
Lemma bal_binders_sp sp prefix bs : balanced (sep_by (comma sp) (map (pp_binder prefix) bs)).
Proof. apply bal_sep_by; [auto with bal|]. apply Forall_map. apply Forall_forall. intros b _. destruct b; cbn; auto with bal. Qed.

Lemma mapi_from_Forall {A B} (P : B -> Prop) (f : nat -> A -> B) l : (forall i x, In x l -> P (f i x)) -> forall n, Forall P (mapi_from f n l).
Proof.
  induction l as [|x r IH]; intros H n; cbn; constructor.
  - apply H. left; reflexivity.
  - apply IH. intros i y Hy. apply H. right; exact Hy.
Qed.

Lemma bal_struct_fields sp fields :
  balanced (sep_by (comma sp) (map (fun f => (pp_field_name f ++ [TPunct ":" false sp] ++ pp_field_binder f)%list) fields)).
Proof.
  apply bal_sep_by; [auto with bal|]. apply Forall_map. apply Forall_forall. intros f _.
  apply balanced_app; [auto with bal|]. apply balanced_app; [apply balanced_plain; reflexivity|auto with bal].
Qed.
Lemma bal_rest_marker (rest : bool) (fs : list field_name) :
  balanced (if rest then match fs with [] => tpl SCall ".." [] | _ => tpl SCall ", .." [] end else []).
Proof. destruct rest; [|apply balanced_nil]. destruct fs; (apply tpl_balanced; [tw|constructor]). Qed.
Lemma bal_parts parts : balanced (sep_by (comma SCall) (map pp_part parts)).
Proof.
  apply bal_sep_by; [auto with bal|]. apply Forall_map. apply Forall_forall. intros pt _.
  destruct pt; cbn [pp_part]; [apply tpl_balanced; [tw|constructor]|auto with bal|auto with bal].
Qed.

Ltac solve_arg :=
  first [ assumption | apply bal_pp_vexpr; assumption | apply bal_pp_push; assumption | apply balanced_plain; reflexivity
        | apply bal_binders_sp | apply bal_binders | apply bal_binders_term | apply bal_body; assumption | apply bal_struct_fields | apply bal_rest_marker
        | apply bal_parts | solve [auto with bal] ].
Ltac fin := repeat (first [apply Forall_nil | apply Forall_cons]); try solve_arg.

Theorem bal_pp_stmt : forall s, stmt_ok s -> balanced (pp_stmt s).
Proof.
  induction s using stmt_ind'; cbn [stmt_ok pp_stmt]; intros Hok.
  - apply balanced_nil.
  - apply balanced_plain; reflexivity.
  - destruct Hok as (He & Hpt & Hp). apply tpl_balanced; [tw|]. fin.
  - destruct Hok as (He & Hp). apply tpl_balanced; [tw|]. fin.
  - destruct Hok as (He & Hx & Hp). destruct op; (apply tpl_balanced; [tw|]); fin.
  - destruct Hok as (He & Hpa & Hp). apply tpl_balanced; [tw|]. fin.
  - destruct Hok as (He & Hpa & Hp & Hb). apply go_Forall in Hb. apply tpl_balanced; [tw|]. fin.
  - destruct Hok as (He & Hpa & Hp & Hb). apply go_Forall in Hb. apply tpl_balanced; [tw|]. fin.
  - apply go_Forall in Hok. apply bal_body; assumption.
  - destruct Hok as (He & Hb). apply go_Forall in Hb. apply tpl_balanced; [tw|]. fin.
  - destruct Hok as (He & Hr & Hp). apply tpl_balanced; [tw|]. fin.
  - destruct Hok as (He & Hp & Hb). apply go_Forall in Hb. apply tpl_balanced; [tw|]. fin.
  - destruct Hok as (He & Hp). apply tpl_balanced; [tw|]. fin.
  - destruct Hok as (He & Hx & Hp). apply tpl_balanced; [tw|]. fin.
  - destruct Hok as (He & Hc & Hp). apply tpl_balanced; [tw|]. fin.
  - destruct Hok as (He & Hp). apply tpl_balanced; [tw|]. fin.
  - destruct Hok as (He & Hk & Hb & Hm). apply tpl_balanced; [tw|]. fin.
    destruct (u_strlit k); (apply tpl_balanced; [tw|]); fin.
  - destruct Hok as (He & Hb). apply go_Forall in Hb. apply tpl_balanced; [tw|]. fin.
    + apply balanced_concat. unfold mapi. apply mapi_from_Forall. intros i pr Hin.
      apply tpl_balanced; [tw|]. fin. rewrite Forall_forall in H, Hb. apply H; [exact Hin|apply Hb; exact Hin].
    + apply bal_sep_by; [auto with bal|]. unfold mapi. apply mapi_from_Forall. intros i pr _.
      apply tpl_balanced; [tw|]. fin.
Qed.

(* ---- the node table and the whole expansion ------------------------------------------------ *)

Lemma bal_pp_refs ids : balanced (pp_refs ids).
Proof.
  unfold pp_refs. apply bal_sep_by; [auto with bal|]. apply Forall_map. apply Forall_forall. intros id _.
  apply tpl_balanced; [tw|]. fin.
Qed.
Lemma bal_pp_named_refs es : balanced (pp_named_refs es).
Proof.
  unfold pp_named_refs. apply bal_sep_by; [auto with bal|]. apply Forall_map. apply Forall_forall. intros e _.
  apply tpl_balanced; [tw|]. fin.
Qed.

Lemma bal_pp_kind d : balanced (pp_kind d).
Proof.
  destruct d; cbn [pp_kind]; try destruct op; try (apply tpl_balanced; [tw|]; fin; first [apply bal_pp_refs | apply bal_pp_named_refs | idtac]).
  all: try (destruct args; (apply tpl_balanced; [tw|]); fin; apply bal_pp_refs).
Qed.

Lemma bal_pp_node_const n : balanced (pp_node_const n).
Proof.
  unfold pp_node_const, pp_node_def. destruct (n_loc n) as [[[l1 c1] l2] c2].
  apply tpl_balanced; [tw|]. fin. apply tpl_balanced; [tw|]. fin; [apply bal_pp_kind|].
  destruct (n_parent n); (apply tpl_balanced; [tw|]); fin.
Qed.

Theorem bal_expand_top j value p :
  balanced value -> stmt_ok (expand j p (VRoot value)) -> balanced (expand_top j value p).
Proof.
  intros Hv Hs. unfold expand_top. apply tpl_balanced; [tw|]. fin.
  - apply balanced_flat_map. apply Forall_forall. intros n _. apply bal_pp_node_const.
  - destruct (is_wild p).
    + apply tpl_balanced; [tw|]. fin.
    + apply bal_pp_stmt. exact Hs.
Qed.

(* ---- from the pattern's own token lists to the statement's -------------------------------- *)

Fixpoint fop_toks_ok (o : fop) : Prop :=
  match o with
  | OMethod _ _ _ args => Forall uok args
  | OIndex e _ => uok e
  | OChained _ ops => (fix go (l : list fop) : Prop := match l with [] => True | x :: r => fop_toks_ok x /\ go r end) ops
  | _ => True
  end.

Lemma fop_go_Forall (l : list fop) :
  (fix go (l : list fop) : Prop := match l with [] => True | x :: r => fop_toks_ok x /\ go r end) l <-> Forall fop_toks_ok l.
Proof.
  induction l as [|x r IH].
  - split; intros _; [constructor|exact I].
  - split.
    + intros [Hx Hr]. constructor; [exact Hx|apply IH; exact Hr].
    + intros H. inversion H; subst. split; [assumption|apply IH; assumption].
Qed.

Fixpoint pat_toks_ok (p : pat) : Prop :=
  match p with
  | PSimple _ e | PLike _ e | PClosure _ e | PCmp _ _ _ e | PRange _ e _ => uok e
  | PString _ _ _ _ | PRegex _ _ _ | PWild _ => True
  | PStruct _ path _ fields =>
      match path with Some q => pok q | None => True end /\
      (fix go (l : list (fop * pat)) : Prop := match l with [] => True | x :: r => (fop_toks_ok (fst x) /\ pat_toks_ok (snd x)) /\ go r end) fields
  | PEnum _ path elems =>
      pok path /\
      (fix go (l : list (option fop * pat)) : Prop :=
         match l with [] => True | x :: r => (match fst x with Some o => fop_toks_ok o | None => True end /\ pat_toks_ok (snd x)) /\ go r end) elems
  | PTuple _ _ elems =>
      (fix go (l : list (option fop * pat)) : Prop :=
         match l with [] => True | x :: r => (match fst x with Some o => fop_toks_ok o | None => True end /\ pat_toks_ok (snd x)) /\ go r end) elems
  | PSlice _ _ elems | PSet _ _ _ elems =>
      (fix go (l : list pat) : Prop := match l with [] => True | x :: r => pat_toks_ok x /\ go r end) elems
  | PMap _ _ _ entries =>
      (fix go (l : list (uexpr * pat)) : Prop := match l with [] => True | x :: r => (uok (fst x) /\ pat_toks_ok (snd x)) /\ go r end) entries
  end.

Lemma vexpr_ok_iter n sp e : vexpr_ok e -> vexpr_ok (Nat.iter n (VDeref sp) e).
Proof. induction n; cbn; auto. Qed.

Lemma fold_apply_ops_ok (f : vexpr -> fop -> vexpr) ops :
  Forall (fun o => forall b, vexpr_ok b -> vexpr_ok (f b o)) ops -> forall base, vexpr_ok base -> vexpr_ok (fold_left f ops base).
Proof. induction 1 as [|o l Ho Hl IH]; intros base Hb; cbn; [exact Hb|]. apply IH. apply Ho. exact Hb. Qed.

Lemma apply_ops_ok : forall o base, fop_toks_ok o -> vexpr_ok base -> vexpr_ok (apply_ops base o).
Proof.
  fix IH 1. intros o base Ho Hb. destruct o; cbn [apply_ops fop_toks_ok] in *.
  - apply (vexpr_ok_iter (S count)). exact Hb.
  - cbn. split; assumption.
  - exact Hb.
  - exact Hb.
  - exact Hb.
  - cbn. split; assumption.
  - apply fop_go_Forall in Ho. revert base Hb. induction ops as [|x r IHr]; intros base Hb; cbn; [exact Hb|].
    inversion Ho; subst. apply IHr; [assumption|]. apply IH; assumption.
Qed.

Lemma in_firstn {A} (x : A) : forall i l, In x (firstn i l) -> In x l.
Proof. induction i as [|i IH]; intros l H; [destruct H|]. destruct l; [destruct H|]. destruct H as [<-|H]; [left; reflexivity|right; apply IH; exact H]. Qed.
Lemma in_skipn {A} (x : A) : forall i l, In x (skipn i l) -> In x l.
Proof. induction i as [|i IH]; intros l H; [exact H|]. destruct l; [destruct H|]. right. apply IH. exact H. Qed.

Lemma tail_toks_ok o t : tail_operations o = TailSome t -> fop_toks_ok o -> fop_toks_ok t.
Proof.
  destruct o; cbn [tail_operations]; try discriminate. intros H Ho.
  cbn [fop_toks_ok] in Ho. apply fop_go_Forall in Ho.
  destruct (position is_field_access ops) as [i|]; [|discriminate].
  assert (HF : Forall fop_toks_ok (firstn i ops ++ skipn (S i) ops)).
  { apply Forall_forall. intros x Hx. rewrite Forall_forall in Ho. apply Ho.
    apply in_app_or in Hx as [Hx|Hx]; [eapply in_firstn; exact Hx|eapply in_skipn; exact Hx]. }
  destruct (firstn i ops ++ skipn (S i) ops) as [|x [|y l]]; try discriminate; inversion H; subst.
  - inversion HF; assumption.
  - exact (proj2 (fop_go_Forall (x :: y :: l)) HF).
Qed.

Lemma with_tail_ok o base noops k :
  fop_toks_ok o -> vexpr_ok base -> vexpr_ok noops -> (forall e, vexpr_ok e -> stmt_ok (k e)) -> stmt_ok (with_tail o base noops k).
Proof.
  intros Ho Hb Hn Hk. unfold with_tail. destruct (tail_operations o) as [|t|] eqn:E; [apply Hk; exact Hn| |exact I].
  destruct (ops_index_ok t); [|exact I]. apply Hk. apply apply_ops_ok; [eapply tail_toks_ok; eassumption|exact Hb].
Qed.

Theorem expand_ok j : forall p, pat_toks_ok p -> forall e, vexpr_ok e -> stmt_ok (expand j p e).
Proof.
  induction p using pat_ind'; intros Hp ve He; cbn [pat_toks_ok] in Hp; cbn [expand stmt_ok].
  - repeat split; assumption.
  - repeat split; try assumption; exact I.
  - repeat split; assumption.
  - repeat split; assumption.
  - repeat split; assumption.
  - repeat split; assumption.
  - exact I.
  - repeat split; assumption.
  - (* struct *)
    destruct Hp as [Hpath Hf].
    assert (HF : Forall (fun x : fop * pat => fop_toks_ok (fst x) /\ pat_toks_ok (snd x)) fields).
    { clear -Hf. induction fields as [|x r IH]; [constructor|]. destruct Hf as [Hx Hr]. constructor; [exact Hx|apply IH; exact Hr]. }
    destruct path as [path|].
    + destruct (existsb _ _); [exact I|]. cbn [stmt_ok]. repeat split; try assumption.
      apply go_Forall. apply Forall_map. rewrite Forall_forall in *. intros [ops fpat] Hin.
      destruct (HF _ Hin) as [Ho Hq]. cbn in Ho, Hq.
      destruct (root_field_name ops); [|exact I].
      apply with_tail_ok; try assumption; try exact I. intros e' He'. apply (H _ Hin Hq). exact He'.
    + cbn [stmt_ok]. apply go_Forall. apply Forall_map. rewrite Forall_forall in *. intros [ops fpat] Hin.
      destruct (HF _ Hin) as [Ho Hq]. cbn in Ho, Hq.
      destruct (root_field_name ops); [|exact I]. destruct (field_name_index_ok f); [|exact I].
      apply with_tail_ok; try assumption. intros e' He'. apply (H _ Hin Hq). exact He'.
  - (* enum *)
    destruct Hp as [Hpath Hel].
    assert (HF : Forall (fun x : option fop * pat => match fst x with Some o => fop_toks_ok o | None => True end /\ pat_toks_ok (snd x)) elems).
    { clear -Hel. induction elems as [|x r IH]; [constructor|]. destruct Hel as [Hx Hr]. constructor; [exact Hx|apply IH; exact Hr]. }
    destruct elems as [|el0 els]; [cbn [stmt_ok]; repeat split; assumption|].
    cbn [stmt_ok]. repeat split; try assumption.
    apply go_Forall. apply Forall_forall. intros s Hs. apply in_flat_map in Hs as (l & Hl & Hs).
    unfold mapi in Hl. apply in_mapi_from in Hl as (i & [ops ep] & Hin & ->).
    rewrite Forall_forall in HF, H. destruct (HF _ Hin) as [Ho Hq]. cbn in Ho, Hq.
    destruct (is_wild ep); [destruct Hs|]. destruct ops as [o|]; destruct Hs as [<-|[]].
    + apply with_tail_ok; try assumption; try exact I. intros e' He'. apply (H _ Hin Hq). exact He'.
    + apply (H _ Hin Hq). exact I.
  - (* tuple *)
    assert (HF : Forall (fun x : option fop * pat => match fst x with Some o => fop_toks_ok o | None => True end /\ pat_toks_ok (snd x)) elems).
    { clear -Hp. induction elems as [|x r IH]; [constructor|]. destruct Hp as [Hx Hr]. constructor; [exact Hx|apply IH; exact Hr]. }
    split; [exact He|]. apply go_Forall. apply Forall_forall. intros s Hs. apply in_flat_map in Hs as (l & Hl & Hs).
    unfold mapi in Hl. apply in_mapi_from in Hl as (i & [ops ep] & Hin & ->).
    rewrite Forall_forall in HF, H. destruct (HF _ Hin) as [Ho Hq]. cbn in Ho, Hq.
    destruct (is_wild ep); [destruct Hs|]. destruct ops as [o|]; destruct Hs as [<-|[]].
    + apply with_tail_ok; try assumption; try exact I. intros e' He'. apply (H _ Hin Hq). exact He'.
    + apply (H _ Hin Hq). exact I.
  - (* slice *)
    assert (HF : Forall pat_toks_ok elems).
    { clear -Hp. induction elems as [|x r IH]; [constructor|]. destruct Hp as [Hx Hr]. constructor; [exact Hx|apply IH; exact Hr]. }
    repeat split; try assumption. apply go_Forall. apply Forall_forall. intros s Hs. apply in_flat_map in Hs as (l & Hl & Hs).
    unfold mapi in Hl. apply in_mapi_from in Hl as (i & x & Hin & ->).
    destruct (is_rest_range x || is_wild x); [destruct Hs|]. destruct Hs as [<-|[]].
    rewrite Forall_forall in HF, H. apply (H _ Hin (HF _ Hin)). exact I.
  - (* set *)
    assert (HF : Forall pat_toks_ok elems).
    { clear -Hp. induction elems as [|x r IH]; [constructor|]. destruct Hp as [Hx Hr]. constructor; [exact Hx|apply IH; exact Hr]. }
    split; [exact He|]. apply go_Forall. apply Forall_map. rewrite Forall_forall in *. intros x Hin. apply (H _ Hin (HF _ Hin)). exact I.
  - (* map *)
    assert (HF : Forall (fun x : uexpr * pat => uok (fst x) /\ pat_toks_ok (snd x)) entries).
    { clear -Hp. induction entries as [|x r IH]; [constructor|]. destruct Hp as [Hx Hr]. constructor; [exact Hx|apply IH; exact Hr]. }
    apply go_Forall. apply Forall_app. split.
    + destruct rest; [constructor|]. constructor; [|constructor]. cbn [stmt_ok]. split; assumption.
    + apply Forall_map. rewrite Forall_forall in *. intros [k vp] Hin. destruct (HF _ Hin) as [Hk Hq]. cbn in Hk, Hq.
      cbn [stmt_ok]. repeat split; try assumption. apply (H _ Hin Hq). exact I.
Qed.

(* the whole expansion of a pattern whose user tokens are well bracketed is well bracketed *)
Theorem expansion_well_bracketed j value p : balanced value -> pat_toks_ok p -> balanced (expand_top j value p).
Proof. intros Hv Hp. apply bal_expand_top; [exact Hv|]. apply expand_ok; [exact Hp|exact Hv]. Qed.
